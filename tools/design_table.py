#!/usr/bin/env python3
"""Regenerate the per-property status table of DESIGN.md section 10.4 from the committed evidence files."""
import json, glob, re, os
V = os.path.dirname(os.path.dirname(os.path.abspath(__file__)))
METHOD = {
 "C01": "Tuner methods and Tuner.run (<= 4-5 iterations) against abstract scheduler / back end with ghost life-cycle state, call-site preconditions; simulator event heap + scenario; F9",
 "C02": "generic poll back end harness (every batching), simulator scenario, tuner skip rule, Tuner.run polling precondition; native delivery monitor on generic + simulator back ends; F5, F9",
 "C03": "rung / quantile / stop rule with SortedList contract (any rung length); rung levels and RungSystem.__init__ bounded",
 "C04": "`_find_promotable_trial` loop invariant, `_mark_as_promoted` modular, ASHA / PASHA schedule post-conditions; cost-aware variant bounded; native Hyperband ledger monitor; F12-F14",
 "C05": "`get_top_list` vs spec, bracket manager under every arrival order, scheduler layer with abstract manager; native synchronous Hyperband + DEHB monitor; F17-F20",
 "C06": "default-value cast, ExclusionList, initial-config queue, `_postprocess_config` (proved); native monitor of every suggester; F6, F15-F17",
 "C07": "samplers / scalings / encoders over reals with exp/log axioms (proved); native catalogue incl. active sub-ranges; F10",
 "C08": "10.3: predict, update, joint sampling, NLML, state construction as exact identities for n <= 2 (3); dense float64 reference monitor",
 "C09": "10.3: head gradients = symbolic derivative for nf <= 3; Box-Cox branches total on the parameter box (proved); finite-difference monitor incl. EI tail",
 "C10": "simulated clock proved; event heap invariant (verbatim heapq port), simulator scenario, tabular look-up bounded; native delivery monitor (table rows, time stamps, clock); F5, F9",
 "C11": "static effect analysis of the AST (no ambient randomness / time reachable from seeded entry points); seed plumbing contract; native twin runs",
 "C12": "`StoppingCriterion.__call__`, `_modify_stop_criterion` proved; `Tuner.run` <= 4-5 iterations with scripted scenarios; `_schedule_new_tasks`; status counters; F9",
 "C13": "pending / failed bookkeeping with quantified frames (any length); tuner, scheduler and synchronous layers bounded",
 "C14": "scheduler -> searcher data protocol with ghost observation / pending maps; native Hyperband monitor reading the GP searcher's state; F12, F13",
 "C15": "relational harnesses (f/min vs -f/max); native twins for synchronous, DEHB, PASHA and asynchronous Hyperband",
 "C16": "static state-coverage of clone_from_state; native continuation twins (in-memory snapshot, GP duplicates); F3",
 "C17": "`StoreResultsCallback.on_trial_result` for logs of any length (proved); statistics / best-trial bounded; native monitor of the results pipeline; F11",
 "C18": "reporter side proved with a ghost output log; regex channel by native round trip over hostile fragments",
 "C19": "Pareto / non-dominated sort / MOASHA bracket with mini-numpy on <= 4 points",
 "C20": "check-point ghost state in the interface contracts; PBT invariants; synchronous Hyperband pauses at rung levels; F8",
}
rows = ["| id | level | U | B | N | deciding method |", "|----|-------|---|---|---|-----------------|"]
for f in sorted(glob.glob(V + "/evidence/C*.json")):
    d = json.load(open(f)); c = d["coverage"]; pid = d["property_id"]
    u = "%d/%d" % (c["obligations"], c["discharged"]) if c["obligations"] else "0"
    b = (c.get("bounded") or {}).get("obligations", 0)
    n = sum(e.get("evaluations", 0) for e in (c.get("extra_checks") or []) if e.get("kind") == "native-monitor")
    rows.append("| %s | %s | %s | %s | %s | %s |" % (pid, d["level"], u, b, n or "–", METHOD[pid]))
p = V + "/DESIGN.md"; s = open(p).read()
m = re.search(r"\| id \| level \| U \| B \| N \| deciding method \|\n(\|.*\n)+", s)
s = s[:m.start()] + "\n".join(rows) + "\n" + s[m.end():]
open(p, "w").write(s)
print("\n".join(rows[:5]))
