#!/bin/bash
# thorough tier of every claimed check against /repo; evidence and replays go to /var/tmp/thorough-out (not /verif/evidence)
cd /verif
for p in $(python3 -c "import json;print(' '.join(c['property_id'] for c in json.load(open('MANIFEST.json'))['checks']))"); do
  s=$(date +%s)
  out=$(PYVC_OUT_DIR=/var/tmp/thorough-out timeout 7200 ./vf check $p --tier thorough 2>&1); rc=$?
  echo "$p exit=$rc $(( $(date +%s) - s ))s $(echo "$out" | grep 'tier=thorough' | tail -1)"
  [ $rc -ne 0 ] && echo "$out" | grep -v '^    ' | grep 'VIOLATION\|UNDECIDED\|FAULT\|DEGRADED' | head -8 | cut -c1-300
done
