#!/usr/bin/env python3
"""Run the pinned baseline test suite on a tree (default /repo) and compare with
/root/.vp/BASELINE.json stable_pass.  Usage: baseline.py [tree]  -> exit 0 iff all
382 stable tests pass."""
import sys, os, subprocess, json, tempfile, xml.etree.ElementTree as ET
tree = os.path.abspath(sys.argv[1] if len(sys.argv) > 1 else "/repo")
fd, xml = tempfile.mkstemp(suffix=".xml", dir="/var/tmp"); os.close(fd)
env = dict(os.environ, PYTHONPATH=tree, OMP_NUM_THREADS="1", OPENBLAS_NUM_THREADS="1", MKL_NUM_THREADS="1")
env.pop("SYNE_TUNE_VERIF", None)
p = subprocess.run(["/venv/bin/python", "-m", "pytest", "-ra", "-q", "-p", "no:cacheprovider",
                    "--timeout=900", "--continue-on-collection-errors", "--junitxml=" + xml],
                   cwd=tree, env=env, stdout=subprocess.PIPE, stderr=subprocess.STDOUT, text=True)
ok = set()
for tc in ET.parse(xml).iter("testcase"):
    if not any(c.tag in ("failure", "error", "skipped") for c in tc):
        ok.add(tc.get("classname") + "::" + tc.get("name"))
os.unlink(xml)
base = set(json.load(open("/root/.vp/BASELINE.json"))["stable_pass"])
missing = sorted(base - ok)
print(p.stdout.strip().splitlines()[-1])
print(f"baseline stable_pass={len(base)} passing_now={len(base & ok)} missing={len(missing)}")
for m in missing[:20]:
    print("  MISSING", m)
sys.exit(0 if not missing else 1)
