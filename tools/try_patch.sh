#!/bin/bash
# (evidence and replay files of these runs go to /var/tmp/vf-try-out, never to /verif/evidence)
# usage: try_patch.sh <patch.diff> <Cxx> [more vf args]   -- run a check against a scratch copy of /repo with the patch applied
set -e
P=$(readlink -f "$1"); shift
PROP=$1; shift
D=/var/tmp/vf-try-$$
mkdir -p $D && cp -r /repo/syne_tune $D/ && (cd $D && git init -q . >/dev/null 2>&1; patch -p1 -s < "$P")
set +e
PYVC_REPO=$D PYVC_OUT_DIR=/var/tmp/vf-try-out /verif/vf check $PROP "$@"
rc=$?
rm -rf $D
echo "exit=$rc"
exit $rc
