#!/usr/bin/env python3
"""Run every seeded change of /verif/seeded against the check of its own property (quick tier) on a scratch copy of
/repo/syne_tune, and record which check reported a violation (meta.json 'detected_by', seeded/RESULTS.json).
usage: seed_matrix.py [Cxx-k ...] [--also Cyy]     Scratch copies live under /var/tmp and are removed."""
import json, os, re, shutil, subprocess, sys, tempfile, concurrent.futures as cf

V = "/verif"
args = [a for a in sys.argv[1:] if not a.startswith("--")]
seeds = args or sorted(os.listdir(V + "/seeded"))
seeds = [s for s in seeds if os.path.isdir("%s/seeded/%s" % (V, s))]
EXTRA = {"C01-1": ["C12"], "C01-2": ["C12"]}


def run(seed, prop):
    d = "%s/seeded/%s" % (V, seed)
    patch = d + "/patch.diff"
    if os.path.exists(d + "/patch_on_fixed_tree.diff"):
        patch = d + "/patch_on_fixed_tree.diff"
    work = tempfile.mkdtemp(prefix="vf-sm-", dir="/var/tmp")
    try:
        shutil.copytree("/repo/syne_tune", work + "/syne_tune")
        p = subprocess.run(["patch", "-p1", "-s", "-i", patch], cwd=work, stdout=subprocess.PIPE, stderr=subprocess.STDOUT, text=True)
        if p.returncode != 0:
            return seed, prop, {"exit": None, "error": "patch does not apply: " + p.stdout[-300:]}
        out = work + "/out"
        env = dict(os.environ, PYVC_REPO=work, PYVC_OUT_DIR=out)
        r = subprocess.run([V + "/vf", "check", prop, "--tier", "quick", "--jobs", os.environ.get("SEED_MATRIX_JOBS", "4")], stdout=subprocess.PIPE, stderr=subprocess.STDOUT, text=True, env=env, timeout=3600)
        viol = re.findall(r"failing obligation: (\S+)", r.stdout)
        lines = [l for l in r.stdout.splitlines() if l.startswith("VIOLATION")]
        return seed, prop, {"exit": r.returncode, "failing_obligations": viol[:6], "with_native_witness": sum(1 for l in lines if not l.endswith("no-failing-input-found")), "violation_lines": len(lines)}
    finally:
        shutil.rmtree(work, ignore_errors=True)


jobs = []
for s in seeds:
    prop = s.split("-")[0]
    jobs.append((s, prop))
    for e in EXTRA.get(s, []):
        jobs.append((s, e))
res = {}
with cf.ThreadPoolExecutor(int(os.environ.get("SEED_MATRIX_WORKERS", "4"))) as ex:
    for seed, prop, r in ex.map(lambda a: run(*a), jobs):
        res.setdefault(seed, {})[prop] = r
        print(seed, prop, r.get("exit"), (r.get("failing_obligations") or [r.get("error")])[:2], flush=True)
path = V + "/seeded/RESULTS.json"
allres = json.load(open(path)) if os.path.exists(path) else {}
allres.update(res)
json.dump(allres, open(path, "w"), indent=1, sort_keys=True)
for seed, byprop in res.items():
    mp = "%s/seeded/%s/meta.json" % (V, seed)
    meta = json.load(open(mp))
    meta["detected_by"] = sorted(p for p, r in byprop.items() if r.get("exit") == 1) or None
    json.dump(meta, open(mp, "w"), indent=1)
