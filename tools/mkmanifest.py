#!/usr/bin/env python3
"""Regenerates /verif/MANIFEST.json from the table below (kept here so that the
manifest is always schema-valid and in step with the contract modules)."""
import json, os
V = os.path.dirname(os.path.dirname(os.path.abspath(__file__)))

CLAIMED = {
    "C18": ("exploration", "contracts on the real reporter functions discharged as unbounded VCs (pyvc/z3) with json.dumps / sys.getsizeof as trusted uninterpreted functions and a ghost output log; bounded native round-trip monitor for the regular-expression channel",
            "Reporter side proved for all values: each accepted report hands exactly one dictionary to the serialiser containing the user's values unchanged, the counter value before its increment and a time stamp; None values and reserved 'st_' keys are rejected before anything is written; a serialisation at or above the size limit is rejected and no tagged line is printed. Text channel, bounded stand-in: 100 report sets from a catalogue of 20 hostile values x noise x trailing newline through the real Reporter and retrieve.",
            "json.dumps/json.loads trusted; strings and regular expressions are outside pyvc's theory, so retrieve is only explored on the stated catalogue; kwargs with symbolic key sets not modelled (two fixed user keys).", "5/C18"),
    # id: (category, technique, level text, level note, design ref)
    "C03": ("proof", "contract-based deductive verification: VCs generated from the real AST (pyvc), discharged by z3/cvc5; bounded-shape stand-in for witnesses",
            "Unbounded verification conditions for the rung/quantile/stop-decision functions of stopping-type Hyperband, generated from /repo's source on every run; every obligation must be discharged. Counter-models are replayed natively.",
            "Floats are reals (A-REAL); SortedList contract trusted; pyvc's encoding of Python and the SMT solvers are trusted; bracket sampling not covered.", "5/C03"),
    "C05": ("exploration", "contracts on the real functions decided by bounded symbolic execution (pyvc, concrete shapes, all values symbolic) with z3; harness drives the real bracket manager through every arrival order up to a bound",
            "Bounded stand-in, not a proof: get_top_list against its specification for rungs of <= 4 entries (metrics and NaN flags symbolic), and the real SynchronousHyperbandBracketManager under every order of up to 5 (thorough: 7) result events with 2 jobs in flight on three rung systems; every clause must hold on every explored path.",
            "Bounded shapes (stated in evidence); A-REAL with explicit NaN flag; DEHB brackets not covered; pyvc encoding and z3 trusted.", "5/C05"),
    "C19": ("exploration", "contracts on the real functions decided by bounded symbolic execution (pyvc with a trusted mini-numpy model for arrays of concrete shape) and z3",
            "Bounded stand-in, not a proof: pareto_efficient / nondominated_sort / NonDominatedPriority against the dominance and Pareto-layer specification for <= 4 points in <= 3 dimensions (all coordinates symbolic, ties included); _Bracket.on_result and MOASHA.on_trial_result against the rank-fraction rule for <= 3 recorded trials per rung; counter-models replayed natively.",
            "Bounded shapes; A-REAL; mini-numpy array model trusted; np.linalg.norm abstracted by the squared norm; bracket sampling in on_trial_add (global RNG) not covered.", "5/C19"),
    "C10": ("exploration", "contracts on the real classes: unbounded VCs (pyvc/z3) for the simulated clock; bounded symbolic execution for the event heap (representation invariant, verbatim heapq port), the real SimulatorBackend driven by a harness, and the tabular lookup (mini-numpy)",
            "SimulatedTimeKeeper proved for all values (time never backwards, waiting charged once). Bounded stand-in for the rest: SimulatorState push/next_until/remove_events keep the binary-heap invariant and return events in (time, counter) order for heaps of <= 5 entries; the real SimulatorBackend delivers exactly the scripted table rows with time stamp start + delay_start + elapsed + delay_on_trial_result, in order, exactly once, nothing after stop/pause, for all delays / elapsed times / sleep times (2 trials, <= 3 polls); BlackboxTabular index lookup returns the block of the requested seed.",
            "A-REAL; time.time monotone; bounded scenario sizes; the tabular back end's pandas look-up, elapsed-time repair and per-trial seed bookkeeping are not covered; pyvc encoding, heapq port and mini-numpy trusted.", "5/C10"),
    "C01": ("exploration", "contracts on the real Tuner methods against abstract scheduler / back end / callbacks with interface contracts and ghost protocol state; call-site protocol preconditions and postconditions decided by bounded symbolic execution (pyvc) and z3; counter-models replayed natively with scripted stubs",
            "Bounded stand-in (<= 2 trials, <= 3 results per poll, n_workers <= 2; all ids, statuses, decisions symbolic): every call of the scheduler / back end in Tuner._update_running_trials, _schedule_new_task and _schedule_new_tasks satisfies the life-cycle protocol (start -> results -> exactly one end; stop/pause only of running trials; resume only of paused ones; ids in sequence; worker budget; started trials are polled). The simulator back-end half is in C10's scenario.",
            "Interface contracts of the abstract collaborators are assumed (contracts/iface.py); the tuning loop Tuner.run itself and concrete schedulers' resume discipline are covered only as far as C04/C05/C12 go; real worker processes out of reach.", "5/C01"),
    "C02": ("exploration", "contracts and harnesses on the real classes decided by bounded symbolic execution (pyvc) and z3: generic poll back end under arbitrary batching, simulator back end scenario, tuner skip rule with ghost delivery log",
            "Bounded stand-in: the generic TrialBackend fetch/pause/resume logic for every split of a run's results between polls (counts symbolic, <= 3 results), the simulator back end scenario of C10 (exactly once, in order, nothing after stop/pause, everything before completion), and Tuner._update_running_trials (results after a STOP/PAUSE decision in the same batch are neither delivered nor logged). Two defects are recorded as known findings (F5, F9).",
            "Bounded sizes; interface contracts assumed for the tuner-side obligations; LocalBackend file I/O out of reach.", "5/C02"),
    "C12": ("exploration", "contracts on the real code: unbounded VCs (pyvc/z3) for StoppingCriterion.__call__ and the simulator's criterion rewrite; Tuner.run executed symbolically against abstract collaborators with ghost protocol state for a bounded number of loop iterations; TuningStatus counters on bounded tables",
            "StoppingCriterion.__call__ == disjunction of its thresholds and SimulatorCallback._modify_stop_criterion keeps every other field: proved for all values. Bounded stand-in for the loop: in Tuner.run (<= 4 iterations, n_workers = 1, arbitrary statuses / decisions / resumes) no trial is started or resumed once the criterion held or a worker is occupied, the run ends only on the criterion or exhaustion, exceeding max_failures raises, and every exit runs on_tuning_end -> stop_all -> mark_running_job_as_stopped; status counters equal the cardinalities on tables of <= 3 trials.",
            "Interface contracts of contracts/iface.py assumed; callbacks / print_best_metric_found / _save_metadata assumed not to raise and to have no effect on the loop; loop iterations bounded; real-time criteria treated as abstract.", "5/C12"),
    "C13": ("proof", "contract-based deductive verification (pyvc VCs from the real AST, z3/cvc5) of the searchers' pending/failed bookkeeping with quantified frame clauses; bounded symbolic execution with abstract collaborators and ghost protocol state for the tuner and scheduler layers",
            "Unbounded: GPMultiFidelitySearcher.cleanup_pending / evaluation_failed and TuningJobState.append_pending for pending lists of any length (the failed trial's entries disappear, every other trial's stay, the trial is marked failed). Bounded: one scheduler notification per failure and the failure limit in Tuner (C01/C12 contracts), rung / bracket bookkeeping of other trials (C04/C05 contracts), _handle_failure names a failed trial, a failed synchronous job is reported to its bracket as NaN.",
            "A-REAL; interface contracts assumed for abstract collaborators; comprehension (filter) summary with its lemmas trusted; remove_pending's frame clause only bounded; DEHB and model-free searchers' exclusion lists are covered by C06 where built.", "5/C13"),
    "C20": ("exploration", "contracts and harnesses on the real classes decided by bounded symbolic execution (pyvc) and z3, ghost checkpoint state in the interface contracts",
            "Bounded stand-in: the generic TrialBackend deletes a checkpoint only in stop_trial (after the trial was stopped) and stop_all, and only with delete_checkpoints; pausing and resuming never delete; a warm start copies before it schedules; the tuner reaches deletion only via STOP decisions and every resume / clone call site requires an existing checkpoint (ghost G.ckpt); PBT marks every trial it stops and only clones from live trials (population <= 3). F8 is recorded as a known finding.",
            "Interface contracts assumed; synchronous Hyperband's removable list relies on C05's get_top_list partition clause; LocalBackend file operations and the speculative Hyperband callback are out of scope.", "5/C20"),
    "C17": ("proof", "contract-based deductive verification (pyvc VCs from the real AST, z3) of the results callback for logs of any length; bounded symbolic execution for the running statistics and the best-trial report (NaN and missing values included)",
            "Unbounded: StoreResultsCallback.on_trial_result appends exactly one row with the result's values, decision, status, trial id, full configuration and a tuner time stamp, leaves earlier rows and its argument untouched. Bounded: a trial whose configuration changed between two results is logged with the configuration at delivery; MetricsStatistics.add keeps count / min / max / sum (a NaN never replaces an extremum); print_best_metric_found returns a trial attaining the per-mode optimum and never a trial without values when another has one. One callback call per delivered result is C01's contract.",
            "A-REAL with NaN flag; numpy.inf as a large constant; the CSV round trip (pandas) and ExperimentResult.best_config are NOT covered by any check (outside the verified subset); metric/config names are fixed literals.", "5/C17"),
    "C07": ("proof", "contract-based deductive verification: scalar VCs generated from the real AST (pyvc) and discharged by z3/cvc5 over the reals with axiomatised exp/log; native run-time contract monitoring over a parameter catalogue as bounded stand-in for round-off behaviour",
            "Proved for all parameter values (over the reals): every sampler of Float (uniform / log / reverse-log), Integer (uniform / log) and Quantized returns a member of its domain for any value the random generator may return; Integer.cast keeps members; LogScaling is inverse; scale_from_zero_one and the continuous / integer encoders map the unit interval (incl. the EPS slack) into the bounds, _round_to_int always lands inside the bounds, and to_ndarray decodes back. Bounded (native, floats): ~170 domains with hostile bounds x 11 unit-cube points: decoded values are members, encodings lie in the unit cube, round trip to 1e-7, samples and casts are members, JSON round trip encodes identically.",
            "A-REAL / A-TRANSC for the proved part (round-off is only seen by the native catalogue); RandomState ranges trusted; categorical / ordinal / finite-range encoders and HyperparameterRangesImpl are only in the native catalogue.", "5/C07"),
    "C06": ("proof", "contract-based deductive verification: VCs from the real AST (pyvc), z3/cvc5; symbolic sets for the exclusion list; bounded symbolic execution for the imputation of initial points",
            "Proved for all values: user-supplied defaults are cast into their domain, ExclusionList contains / add / exhausted, initial points are served first-in-first-out, random sampling never returns an excluded configuration (100-draw loop unrolled), the scheduler's post-processing returns every key of the space with constants unchanged and values cast to the domain type, and the samplers / casts of C07. Bounded: imputation and de-duplication of <= 3 initial points. F6 (None before a finite space is used up) is a recorded known finding.",
            "Contract configuration space = {integer x, float lr, constant}; match strings injective (str(int); '%.6e' assumed collision-free); HyperparameterRanges.random_config assumed to return members (C07); model-based candidate generation (GP / HyperTune / DEHB / PBT explore), grid search and restrict_configurations are not covered.", "5/C06"),
    "C14": ("exploration", "contracts on the real scheduler and searcher code: ghost model of one trial's surrogate data in the interface contract of the abstract multi-fidelity searcher, call-site preconditions decided by bounded symbolic execution (pyvc/z3); unbounded VCs for the GP searcher's pending bookkeeping",
            "HyperbandScheduler.on_trial_result / _update_searcher / _promote_trial / on_trial_complete against an abstract searcher whose contract carries G.obs / G.pend: an observation is added at most once per (trial, level) with the reported value, only the non-rung 'latest' observation is ever removed, pending levels are unobserved levels, a promoted trial's rung observation is not removable, completion leaves no pending entry -- for every data policy and the myopic flag (rung levels [1,3,9], max_t 27, all values symbolic). Unbounded: append_pending / cleanup_pending / evaluation_failed of the GP searcher state (pending lists of any length).",
            "Interface contracts of the abstract searcher and bracket manager assumed (the rung system side is C04); 'not pending twice' and the exact set of pending levels per policy are not covered; DyHPO, cost offsets, synchronous Hyperband not covered; running trials report strictly increasing levels.", "5/C14"),
    "C11": ("other", "static effect (frame) analysis of the real AST per module and rule + pyvc contract (z3) for the seed plumbing + native twin-run monitor (bounded)",
            "An effect contract instead of a functional one: for every scheduler / searcher module in scope the AST contains no call of a process-global generator, clock-dependent or hash()/id() source and every sampling call site passes a generator (162 obligations: module x rule, guarded fall-backs justified one by one); TrialSchedulerWithSearcher.__init__ seeds its master generator with the given seed for every value incl. 0 without reading a global generator (pyvc); bounded second opinion: 12 model-free schedulers driven through 40 events twice with perturbed global generators and once more in a process with another PYTHONHASHSEED give identical traces.",
            "Scope = listed modules; determinism of numpy RandomState streams and dict ordering assumed; order-dependence on set iteration is only covered by the native twin runs; GP surrogate fitting (fresh-process twins) not covered.", "5/C11"),
    "C16": ("other", "static state-coverage analysis of the real AST (constructor parameters vs clone_from_state / _restore_from_state) + native twin-continuation monitor (bounded): get_state / clone_from_state at every prefix, dill pickling of schedulers",
            "State coverage: every constructor parameter of RandomSearcher / GridSearcher is passed by clone_from_state, restored from the state dictionary, or listed as irrelevant (12 obligations). Bounded native twin continuation: 7 searcher cases (random / grid, duplicates, initial points) snapshotted and re-created in a fresh instance at every prefix of a 10-event history, 4 schedulers pickled with dill at 3 positions, GP-FIFO searcher at 2 positions; original and copy are continued and compared. F3 (GridSearcher) is a recorded known finding; the RandomSearcher crash was repaired.",
            "dill round trip only observed through continued traces; GP multi-fidelity searcher and HyperTune not exercised; fitted GP hyper-parameters compared only through suggestions; bounded histories.", "5/C16"),
    "C15": ("exploration", "relational (two-run) contracts by self-composition: the real classes instantiated in both modes and driven through the same symbolic event sequence (pyvc, bounded shapes), z3",
            "Bounded stand-in: stopping-type and promotion-type rung systems, the RUSH threshold rule and synchronous Hyperband's top list give identical decisions / promotions / rankings for (min, v) and (max, -v) for all values in general position (<= 4 entries); the best-trial report, running statistics and MOASHA's per-metric sign mapping are shared contracts (C17, C19).",
            "A-REAL; general position (distinct values, no value on a threshold); PASHA ranking, DEHB, PBT quantiles, regularised evolution, median rule and ExperimentResult are not covered.", "5/C15"),
    "C04": ("proof", "contract-based deductive verification: VCs generated from the real AST (pyvc) with loop invariants and modular callee contracts, discharged by z3/cvc5; bounded-shape stand-in for the cost-aware variant and for witnesses",
            "Unbounded verification conditions (rung contents of any length, 0..3 rungs) for PromotionRungSystem (find/mark/schedule/add/report/remove) and PASHA's resource cap in on_task_schedule, from /repo's source on every run; cost-aware eligibility bounded (<=4 entries).",
            "A-REAL; SortedList contract trusted; number of rungs concrete in proof units; cost values non-negative; PASHA ranking/epsilon logic and DyHPO not covered; pyvc encoding and SMT solvers trusted.", "5/C04"),
}

NA_DEFAULT = "check not built yet in this round; see DESIGN.md section 5 for the plan (will be claimed when its contracts are discharged)"
NOT_APPLICABLE = {}

def main():
    props = [json.loads(l) for l in open(os.path.join(V, "properties.jsonl"))]
    checks = []
    na = []
    for p in props:
        pid = p["id"]
        if pid in CLAIMED:
            cat, tech, text, note, ref = CLAIMED[pid]
            checks.append({
                "property_id": pid,
                "quick_cmd": "./vf check %s --tier quick" % pid,
                "thorough_cmd": "./vf check %s --tier thorough" % pid,
                "evidence_file": "/verif/evidence/%s.json" % pid,
                "replay_cmd_template": "./vf replay {path}",
                "engine": "pyvc",
                "level_claimed": {"category": cat, "text": text, "design_ref": ref},
                "level_note": note,
                "technique": tech,
            })
        else:
            na.append({"property_id": pid, "reason": NOT_APPLICABLE.get(pid, NA_DEFAULT)})
    man = {
        "version": 1,
        "setup_cmd": "python3-vt -m pyvc.selfcheck",
        "hooks": {
            "guard": "SYNE_TUNE_VERIF",
            "enable": "no hooks: contracts are sidecars in /verif/contracts and the source under /repo is read with ast on every run",
            "baseline_off_cmd": "cd /repo && OMP_NUM_THREADS=1 /venv/bin/python -m pytest -ra -q -p no:cacheprovider --timeout=900 --continue-on-collection-errors",
            "source_commits": [],
            "add_only": True,
        },
        "engines": [{"name": "pyvc", "path": "/verif/pyvc", "serves_properties": sorted(CLAIMED), "kind_free_text": "verification-condition generator for a Python subset (AST -> z3/cvc5), sidecar contracts, native counter-example replay"}],
        "checks": checks,
        "not_applicable": na,
        "notes": "exit codes of ./vf check: 0 held, 1 violation (VIOLATION line), 2 undecided (solver unknown / construct outside subset), 3 checker fault",
    }
    json.dump(man, open(os.path.join(V, "MANIFEST.json"), "w"), indent=1)
    print("claimed", sorted(CLAIMED), "n/a", len(na))

if __name__ == "__main__":
    main()
