#!/bin/bash
# run every claimed check (quick tier) on /repo and print one summary line each
cd /verif
for p in $(python3 -c "import json; print(' '.join(c['property_id'] for c in json.load(open('MANIFEST.json'))['checks']))"); do
  out=$(./vf check $p 2>&1); rc=$?
  echo "$p exit=$rc $(echo "$out" | grep "tier=" | tail -1 | cut -c1-170)"
  echo "$out" | grep -E "VIOLATION|UNDECIDED|FAULT|DEGRADED" | head -5 | cut -c1-200
done
