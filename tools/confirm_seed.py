#!/usr/bin/env python3
"""Confirm a seeded change produced by a sub-agent and file it under /verif/seeded/<id>/.
usage: confirm_seed.py <Cxx> <k> [<src root> [<offset>]]   (reads <src root>/out-Cxx/{patchk.diff,demok.py,metak.json}; default
src root /tmp/seed; the seed is filed as Cxx-<k+offset>)
Confirms in a scratch copy of /repo (removed afterwards): demo passes on the clean tree, fails with the
patch, pinned baseline (382 tests) still passes with the patch."""
import json, os, shutil, subprocess, sys, tempfile
prop, k = sys.argv[1], sys.argv[2]
root = sys.argv[3] if len(sys.argv) > 3 else "/tmp/seed"
off = int(sys.argv[4]) if len(sys.argv) > 4 else 0
src = "%s/out-%s" % (root, prop)
sid = "%s-%s" % (prop, int(k) + off)
dst = "/verif/seeded/%s" % sid
patch, demo, meta = ["%s/%s%s.%s" % (src, n, k, e) for n, e in (("patch", "diff"), ("demo", "py"), ("meta", "json"))]
for f in (patch, demo):
    assert os.path.isfile(f), f
work = tempfile.mkdtemp(prefix="vf-seed-", dir="/var/tmp")
env = dict(os.environ, OMP_NUM_THREADS="1", OPENBLAS_NUM_THREADS="1", MKL_NUM_THREADS="1")
try:
    subprocess.run(["git", "-C", "/repo", "worktree", "add", "-q", "--detach", work + "/wt", "HEAD"], check=True)
    wt = work + "/wt"
    def run_demo():
        p = subprocess.run(["/venv/bin/python", demo], cwd=work, env=dict(env, PYTHONPATH=wt), stdout=subprocess.PIPE, stderr=subprocess.STDOUT, text=True, timeout=600)
        return p.returncode, p.stdout[-1500:]
    rc_clean, out_clean = run_demo()
    ap = subprocess.run(["git", "-C", wt, "apply", patch], stdout=subprocess.PIPE, stderr=subprocess.STDOUT, text=True)
    assert ap.returncode == 0, ap.stdout
    rc_mut, out_mut = run_demo()
    bl = subprocess.run(["/venv/bin/python", "/verif/tools/baseline.py", wt], env=env, stdout=subprocess.PIPE, stderr=subprocess.STDOUT, text=True)
    ok = rc_clean == 0 and rc_mut != 0 and bl.returncode == 0
    os.makedirs(dst, exist_ok=True)
    shutil.copy(patch, dst + "/patch.diff")
    shutil.copy(demo, dst + "/demo.py")
    m = {}
    if os.path.isfile(meta):
        try:
            m = json.load(open(meta))
        except Exception:
            m = {"agent_meta_unparsable": True}
    rec = {
        "id": sid,
        "property": prop,
        "breaks": m.get("why_breaks"),
        "summary": m.get("summary"),
        "file": m.get("file"),
        "function": m.get("function"),
        "needs_to_manifest": m.get("needs_to_manifest"),
        "confirmed_by_main": ok,
        "what_was_run": {
            "demo_on_clean_tree": {"exit": rc_clean, "tail": out_clean[-400:]},
            "demo_with_patch": {"exit": rc_mut, "tail": out_mut[-600:]},
            "baseline_with_patch": {"exit": bl.returncode, "tail": bl.stdout[-300:]},
            "commands": ["PYTHONPATH=<worktree> /venv/bin/python demo.py", "git apply patch.diff", "OMP_NUM_THREADS=1 /verif/tools/baseline.py <worktree>"],
        },
        "detected_by": None,
    }
    json.dump(rec, open(dst + "/meta.json", "w"), indent=1)
    print(sid, "CONFIRMED" if ok else "NOT-CONFIRMED", rc_clean, rc_mut, bl.returncode)
finally:
    subprocess.run(["git", "-C", "/repo", "worktree", "remove", "--force", work + "/wt"])
    shutil.rmtree(work, ignore_errors=True)
