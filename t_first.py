import sys, time
sys.path.insert(0, '/verif')
from pyvc.source import Repo
from pyvc.verify import Registry, Verifier, discharge
from pyvc import spec as S
import os
repo = Repo(os.environ.get('R','/repo'), extra_roots=['/verif'])
reg = Registry(repo, ['contracts.c03'])
v = Verifier(repo, reg)
for key, c in S.CONTRACTS.items():
    for shape in (None, {'*': 3}):
        t=time.time()
        res = v.run(c, shape=shape, prop='C03')
        discharge(res)
        print(key, 'shape', shape, 'paths', res.paths, 'normal', res.normal_paths, 'raise', res.raise_paths, 'unsupported', res.unsupported, 'err', res.error, '%.2fs'%(time.time()-t))
        for ob in res.obligations:
            print('   ', ob.name, ob.status, '%.3f'%ob.time, ob.backend, ob.witness if ob.status=='refuted' else '')
