"""Builders turning decoded solver models into REAL syne_tune objects."""
import importlib
import types
from fractions import Fraction

from pyvc import spec as S

BUILDERS = {}


def builder(name):
    def deco(fn):
        BUILDERS[name] = fn
        return fn

    return deco


class Ctx:
    def __init__(self, contract):
        self.contract = contract
        self.exact = bool(getattr(contract, "native_exact", False))  # Fractions instead of floats
        self.world = None


def num(ctx, v):
    if isinstance(v, dict) and "__real__" in v:
        try:
            fr = Fraction(v["__real__"])
        except (ValueError, ZeroDivisionError):
            return float(v.get("approx", 0.0))
        return fr if ctx.exact else float(fr)
    return v


def import_class(target):
    modname, qual = target.split(":")
    o = importlib.import_module(modname)
    for p in qual.split("."):
        o = getattr(o, p)
    return o


def build(ctx, v, t):
    if isinstance(t, S._Scalar) or isinstance(t, S.Enum):
        if isinstance(t, S._Scalar) and t.kind == "real":
            if isinstance(v, (int, float)) and not isinstance(v, bool):
                return Fraction(v) if ctx.exact else float(v)
            return num(ctx, v)
        return num(ctx, v)
    if isinstance(t, S.Arr):
        import numpy as np

        flat = [build(ctx, x, t.t) for x in v["__ndarray__"]]
        return np.array(flat, dtype=float if getattr(t.t, "kind", "real") in ("real", "nanreal") else None).reshape(v["shape"])
    if isinstance(t, S._NanRealT):
        if isinstance(v, dict) and v.get("__nan__"):
            return float("nan")
        x = num(ctx, v)
        return float(x) if isinstance(x, (int, Fraction)) and not ctx.exact else x
    if isinstance(t, S.Lit):
        import copy as _copy

        return _copy.deepcopy(t.value)
    if isinstance(t, S.Opt):
        return None if v is None else build(ctx, v, t.t)
    if isinstance(t, S.Tup):
        items = v["__tuple__"] if isinstance(v, dict) else v
        return tuple(build(ctx, x, tt) for x, tt in zip(items, t.ts))
    if isinstance(t, S.Rec):
        d = dict((k, x) for k, x in v["__dict__"]) if isinstance(v, dict) and "__dict__" in v else v
        opt = set(getattr(t, "optional_keys", ()) or ())
        return {k: build(ctx, d.get(k), ft) for k, ft in t.fields.items() if not (k in opt and isinstance(d, dict) and k not in d)}
    if isinstance(t, S.List):
        items = v["__sortedlist__"] if isinstance(v, dict) and "__sortedlist__" in v else v
        return [build(ctx, x, t.t) for x in (items or [])]
    if isinstance(t, S.ADict):
        pairs = v["__dict__"] if isinstance(v, dict) else []
        return {build(ctx, k, t.k): build(ctx, x, t.v) for k, x in pairs}
    if isinstance(t, S.Map):
        pairs = v["__dict__"] if isinstance(v, dict) else []
        return {build(ctx, k, t.k): build(ctx, x, t.v) for k, x in pairs}
    if isinstance(t, S.SetT):
        return set(build(ctx, k, t.k) for k in (v["__set__"] if isinstance(v, dict) else []))
    if isinstance(t, S.Obj):
        decl = S.CLASSES[t.name]
        fields = {f: build(ctx, (v or {}).get(f), ft) for f, ft in decl.fields.items()}
        if decl.builder is not None:
            return BUILDERS[decl.builder](ctx, fields, v)
        cls = import_class(decl.target)
        o = object.__new__(cls)
        for f, x in fields.items():
            try:
                setattr(o, f, x)
            except AttributeError:
                # read-only property of the real class: shadow it on a per-object subclass
                sub = type(cls.__name__, (type(o),), {f: x})
                o.__class__ = sub
                try:
                    object.__setattr__(o, "_" + f, x)  # the usual backing field of such a property
                except Exception:
                    pass
        return o
    if isinstance(t, S._RngT):
        from replay.stubs import ScriptedRng

        return ScriptedRng(ctx.world)
    if isinstance(t, S.Abstract):
        from replay.stubs import ScriptedStub

        return ScriptedStub(ctx.world, t.name)
    raise TypeError("cannot build %r" % (t,))


def check_native_inv(obj, t):
    """names of violated class-invariant clauses of a real object (and nested declared objects)"""
    bad = []
    if isinstance(t, S.Obj):
        decl = S.CLASSES[t.name]
        for f, ft in decl.fields.items():
            try:
                bad.extend(check_native_inv(getattr(obj, f), ft))
            except AttributeError:
                pass
        if decl.inv is not None:
            import contracts  # noqa

            fn = None
            for mod in list(__import__("sys").modules.values()):
                if getattr(mod, "__name__", "").startswith("contracts") and hasattr(mod, decl.inv):
                    fn = getattr(mod, decl.inv)
                    break
            if fn is not None:
                r = fn(obj)
                items = r.items() if isinstance(r, dict) else [("", r)]
                for k, ok in items:
                    if not ok:
                        bad.append("[%s][%s]" % (decl.name, k))
    elif isinstance(t, S.List) and isinstance(obj, (list, tuple)):
        for x in obj:
            bad.extend(check_native_inv(x, t.t))
    elif isinstance(t, S.Opt) and obj is not None:
        bad.extend(check_native_inv(obj, t.t))
    return bad


def describe(v, depth=0):
    """JSON-able description of real objects"""
    if depth > 6:
        return "<deep>"
    if isinstance(v, (int, float, str, bool)) or v is None:
        return v
    if isinstance(v, Fraction):
        return str(v)
    if isinstance(v, types.SimpleNamespace):
        return {k: describe(x, depth + 1) for k, x in vars(v).items()}
    if isinstance(v, dict):
        return {str(k): describe(x, depth + 1) for k, x in v.items()}
    if isinstance(v, (list, tuple, set, frozenset)):
        return [describe(x, depth + 1) for x in v]
    try:
        import sortedcontainers

        if isinstance(v, sortedcontainers.SortedList):
            return [describe(x, depth + 1) for x in v]
    except ImportError:
        pass
    try:
        import numpy as np

        if isinstance(v, np.ndarray):
            return v.tolist()
        if isinstance(v, np.generic):
            return v.item()
    except ImportError:
        pass
    if type(v).__name__ in ("ScriptedStub", "World", "Ctx"):
        return "<%s>" % type(v).__name__
    if isinstance(v, type):
        return "<class %s>" % v.__name__
    if hasattr(v, "__dict__"):
        d = {"__class__": type(v).__name__}
        for k, x in vars(v).items():
            d[k] = describe(x, depth + 1)
        return d
    return repr(v)


# -- class-specific builders -----------------------------------------------------------


@builder("rung")
def build_rung(ctx, f, raw):
    from syne_tune.optimizer.schedulers.hyperband_stopping import Rung

    r = Rung(level=f["level"], prom_quant=f["prom_quant"], mode="min" if f["_is_min"] else "max", data=f["data"])
    return r


@builder("prung")
def build_prung(ctx, f, raw):
    from syne_tune.optimizer.schedulers.hyperband_stopping import Rung

    return Rung(level=f["level"], prom_quant=f["prom_quant"], mode="min" if f["_is_min"] else "max", data=f["data"])


BUILDERS["crung"] = build_prung


@builder("trial")
def build_trial(ctx, f, raw):
    import datetime
    from syne_tune.backend.trial_status import Trial

    return Trial(trial_id=f["trial_id"], config={}, creation_time=datetime.datetime(2020, 1, 1))


@builder("ns")
def build_ns(ctx, f, raw):
    return types.SimpleNamespace(**f)


@builder("pending")
def build_pending(ctx, f, raw):
    from syne_tune.optimizer.schedulers.searchers.bayesopt.datatypes.common import PendingEvaluation

    return PendingEvaluation(trial_id=f["_trial_id"], resource=f["_resource"])


@builder("slot")
def build_slot(ctx, f, raw):
    from syne_tune.optimizer.schedulers.synchronous.hyperband_bracket import SlotInRung

    return SlotInRung(**f)


@builder("trialcfg")
def build_trialcfg(ctx, f, raw):
    import datetime
    from syne_tune.backend.trial_status import Trial

    return Trial(trial_id=f["trial_id"], config=f["config"], creation_time=datetime.datetime(2020, 1, 1))


@builder("status_best")
def build_status_best(ctx, f, raw):
    cls = type("StatusStub", (types.SimpleNamespace,), {"__str__": lambda self: "<status>"})
    return cls(**f)
