"""Native counterparts of abstract collaborators: scripted stubs that return the values of the solver's
counter-model, run the interface contracts' ghost effects and check their protocol preconditions."""
import types

from pyvc import spec as S


class ReplayDiverged(Exception):
    pass


class ReplayDone(Exception):
    """the scripted part of the run is over and a protocol violation has already been observed"""


class GhostMap(dict):
    def __init__(self, items=(), default=0):
        dict.__init__(self, items)
        self.default = default

    def __missing__(self, k):
        return self.default

    def __contains__(self, k):  # total map
        return True


class World:
    """shared by all stubs of one replay"""

    def __init__(self, ctx, contract, witness):
        self.ctx = ctx
        self.returns = list(witness.get("__abstract_returns__") or [])
        self.pos = 0
        self.violations = []
        self.G = types.SimpleNamespace()
        self.G.log = []
        g0 = witness.get("__ghost__") or {}
        for name, t in (getattr(contract, "ghost", None) or {}).items():
            v = g0.get(name)
            if isinstance(t, S.Map):
                pairs = v.get("__dict__", []) if isinstance(v, dict) else []
                from replay import builders as B

                setattr(self.G, name, GhostMap([(B.build(ctx, k, t.k), B.build(ctx, x, t.v)) for k, x in pairs], getattr(t, "default", 0)))
            elif isinstance(t, S.SetT):
                from replay import builders as B

                setattr(self.G, name, set(B.build(ctx, k, t.k) for k in (v.get("__set__", []) if isinstance(v, dict) else [])))
            else:
                from replay import builders as B

                setattr(self.G, name, B.build(ctx, v, t))


def arbitrary_source(world):
    def src(name, t):
        from replay import builders as B

        if world.pos >= len(world.returns):
            if world.violations:
                raise ReplayDone()
            raise ReplayDiverged("native run needs more environment choices than the counter-model has")
        i2, n2, val = world.returns[world.pos]
        if i2 != "arbitrary":
            raise ReplayDiverged("native run asks for an environment choice where the counter-model has %s.%s" % (i2, n2))
        world.pos += 1
        return B.build(world.ctx, val, t)

    return src


def find_iface(iface, name):
    key = "iface:%s.%s" % (iface, name)
    for c in S.CONTRACTS.values():
        if c.target == key:
            return c
    return None


class ScriptedStub:
    def __init__(self, world, iface):
        object.__setattr__(self, "_world", world)
        object.__setattr__(self, "_iface", iface)

    def __deepcopy__(self, memo):
        return self

    def __call__(self, *args, **kwargs):
        c = find_iface(self._iface, "__call__")
        if c is None:
            raise TypeError("%s is not callable" % self._iface)
        return self._call_iface(c, "__call__", args, kwargs)

    def __getattr__(self, name):
        if name.startswith("__"):
            raise AttributeError(name)
        world, iface = self._world, self._iface
        c = find_iface(iface, name)
        if c is None:
            raise AttributeError("%s.%s has no interface contract" % (iface, name))

        if getattr(c, "attribute", False):
            return self._call_iface(c, name, (), {})

        def call(*args, **kwargs):
            return self._call_iface(c, name, args, kwargs)

        return call

    def _call_iface(self, c, name, args, kwargs):
        world, iface = self._world, self._iface

        def call(*args, **kwargs):
            from replay import builders as B

            pnames = [p for p in getattr(c, "params", {}) if p != "self"]
            defaults = getattr(c, "defaults", {})
            bound = {}
            for i, p in enumerate(pnames):
                if i < len(args):
                    bound[p] = args[i]
                elif p in kwargs:
                    bound[p] = kwargs[p]
                elif p in defaults:
                    bound[p] = defaults[p]
                else:
                    raise TypeError("%s.%s: missing argument %s" % (iface, name, p))
            s = types.SimpleNamespace(self=self, G=world.G, **bound)
            req = getattr(c, "requires", None)
            if req is not None:
                r = req(s)
                items = r.items() if isinstance(r, dict) else [("", r)]
                for k, ok in items:
                    if not ok:
                        world.violations.append("call-pre[%s.%s][%s]" % (iface, name, k))
            eff = getattr(c, "effect", None)
            if eff is not None:
                eff(s)
            rt = getattr(c, "returns", None)
            result = None
            mk = getattr(c, "make_result", None)
            if mk is not None:
                result = mk(s)
            elif rt is not None:
                if world.pos >= len(world.returns):
                    if world.violations:
                        raise ReplayDone()
                    raise ReplayDiverged("native run makes more abstract calls than the counter-model")
                i2, n2, val = world.returns[world.pos]
                if (i2, n2) != (iface, name):
                    raise ReplayDiverged("native run calls %s.%s where the counter-model has %s.%s" % (iface, name, i2, n2))
                world.pos += 1
                result = B.build(world.ctx, val, rt)
            else:
                # calls without a return value are still part of the model's call sequence
                if world.pos < len(world.returns) and tuple(world.returns[world.pos][:2]) == (iface, name):
                    world.pos += 1
            aft = getattr(c, "after", None)
            if aft is not None:
                aft(s, result)
            world.G.log.append(tuple(["%s.%s" % (iface, name)] + [bound[p] for p in pnames] + [result]))
            return result

        return call(*args, **kwargs)



class ScriptedRng:
    """numpy RandomState whose draws are the values of the counter-model (in order)"""

    def __init__(self, world):
        self._world = world

    def __deepcopy__(self, memo):
        return self

    def _next(self, kind):
        from replay import builders as B

        w = self._world
        if w.pos >= len(w.returns):
            raise ReplayDiverged("native run draws more random numbers than the counter-model has")
        i2, n2, val = w.returns[w.pos]
        if i2 != "rng":
            raise ReplayDiverged("native run draws a random number where the counter-model has %s.%s" % (i2, n2))
        w.pos += 1
        return B.num(w.ctx, val)

    def _many(self, kind, size):
        import numpy as np

        if size is None:
            return self._next(kind)
        n = int(np.prod(size)) if not isinstance(size, int) else size
        return np.array([self._next(kind) for _ in range(n)])

    def uniform(self, low=0.0, high=1.0, size=None):
        return self._many("uniform", size)

    def randint(self, low, high=None, size=None):
        import numpy as np

        r = self._many("randint", size)
        return r.astype(int) if isinstance(r, np.ndarray) else int(r)

    def rand(self, *shape):
        return self._many("rand", shape if shape else None)

    def choice(self, a, size=None, **kw):
        import numpy as np

        idx = self._many("choice", size)
        if isinstance(a, int):
            return idx.astype(int) if isinstance(idx, np.ndarray) else int(idx)
        if isinstance(idx, np.ndarray):
            return np.array([a[int(i)] for i in idx])
        return a[int(idx)]

    def normal(self, *a, **k):
        return self._many("normal", k.get("size"))
