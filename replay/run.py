#!/venv/bin/python
"""Native side: replay a solver counter-model against the REAL code.

usage: run.py <replay.json>      (PYTHONPATH must contain the repo tree and /verif)
Builds real objects from the decoded witness, calls the real function, and
evaluates the contract's ``ensures`` natively.  Prints one line
``REPLAY-RESULT <json>`` with key ``reproduced``.
"""
import copy
import importlib
import json
import os
import sys
import traceback
import types
from fractions import Fraction

# optional benchmark packages that are binary-incompatible with the installed numpy must not be imported
sys.modules.setdefault("yahpo_gym", None)
VERIF = os.path.dirname(os.path.dirname(os.path.abspath(__file__)))
sys.path.insert(0, VERIF)

from pyvc import spec as S  # noqa: E402
from replay import builders as B  # noqa: E402


def resolve(target):
    modname, qual = target.split(":")
    mod = importlib.import_module(modname)
    o = mod
    parent = None
    for p in qual.split("."):
        parent = o
        o = getattr(o, p)
    return mod, parent, o


def clause_items(r):
    if isinstance(r, dict):
        out = []
        for k, v in r.items():
            if isinstance(v, dict):
                out.extend(("%s.%s" % (k, kk), vv) for kk, vv in clause_items(v))
            else:
                out.append((str(k), bool(v)))
        return out
    if isinstance(r, (list, tuple)):
        return [(str(i), bool(v)) for i, v in enumerate(r)]
    return [("", bool(r))]


def main():
    rec = json.load(open(sys.argv[1]))
    importlib.import_module(rec["contract_module"])
    c = S.CONTRACTS[rec["contract"]]
    out = {"reproduced": False, "contract": rec["contract"]}
    try:
        params = getattr(c, "params", {})
        wit = rec["witness"] or {}
        if "__decode_error__" in wit:
            out["error"] = "witness could not be decoded: %s" % wit["__decode_error__"]
            print("REPLAY-RESULT " + json.dumps(out, default=str))
            return
        env = {}
        ctx = B.Ctx(c)
        from replay.stubs import World, ReplayDiverged, ReplayDone

        ctx.world = World(ctx, c, wit)
        from replay.stubs import arbitrary_source

        S.ARBITRARY_SOURCE = arbitrary_source(ctx.world)
        for pname, pt in params.items():
            env[pname] = B.build(ctx, wit.get(pname), pt)
        if getattr(c, "ghost", None):
            env["G"] = ctx.world.G
        setup = getattr(c, "native_setup", None)
        if setup is not None:
            env = setup(env, ctx) or env
        s = types.SimpleNamespace(**env)
        # requires must hold natively (otherwise the model lives outside the real state space)
        req = getattr(c, "requires", None)
        if req is not None:
            pre = clause_items(req(s))
            bad = [k for k, v in pre if not v]
            if bad:
                out["error"] = "witness violates requires natively: %s" % bad
                print("REPLAY-RESULT " + json.dumps(out, default=str))
                return
        for pname, pt in params.items():
            bad = B.check_native_inv(env[pname], pt)
            if bad:
                out["error"] = "witness violates class invariant natively: %s" % bad
                print("REPLAY-RESULT " + json.dumps(out, default=str))
                return
        old = copy.deepcopy(s)
        # functions that the symbolic side replaces by an assumed no-effect contract (file / console output)
        # are replaced natively in the same way
        for cc in list(S.CONTRACTS.values()):
            if getattr(cc, "always_modular", False) and not cc.target.startswith("iface:"):
                try:
                    m2, par2, fn2 = resolve(cc.target)
                    nm2 = cc.target.split(":")[1].split(".")[-1]
                    noop = lambda *a, **k: None  # noqa: E731
                    setattr(par2, nm2, noop)
                    for mod3 in list(sys.modules.values()):
                        if getattr(mod3, "__name__", "").startswith("syne_tune") and getattr(mod3, nm2, None) is fn2:
                            setattr(mod3, nm2, noop)
                except Exception:
                    pass
        mod, parent, fn = resolve(c.target)
        caller = getattr(c, "native_call", None)
        exc = None
        result = None
        try:
            if caller is not None:
                result = caller(s, fn)
            else:
                import inspect

                names = [n for n in inspect.signature(fn).parameters]
                has_varkw = any(p.kind == p.VAR_KEYWORD for p in inspect.signature(fn).parameters.values())
                args = []
                kwargs = {}
                for n in names:
                    if n in env:
                        args.append(env[n])
                    else:
                        break
                for n in names[len(args):]:
                    if n in env:
                        kwargs[n] = env[n]
                if has_varkw:
                    for n in params:
                        if n not in names and n != "G":
                            kwargs[n] = env[n]
                import json as _json_mod

                _orig_dumps = _json_mod.dumps

                def _rec_dumps(x, *a, **k):
                    r = _orig_dumps(x, *a, **k)
                    S.OUTPUT_LOG.append(("json.dumps", copy.deepcopy(x), r))
                    return r

                _json_mod.dumps = _rec_dumps
                try:
                    result = fn(*args, **kwargs)
                finally:
                    _json_mod.dumps = _orig_dumps
        except ReplayDone:
            out["reproduced"] = True
            out["violated"] = list(ctx.world.violations)
            out["note"] = "run stopped at the failing protocol precondition (the counter-model ends there)"
            print("REPLAY-RESULT " + json.dumps(out, default=str))
            return
        except ReplayDiverged as e:
            out["error"] = "native run diverged from the counter-model: %s" % e
            print("REPLAY-RESULT " + json.dumps(out, default=str))
            return
        except S.AssumptionViolated:
            out["error"] = "witness violates a harness assumption natively"
            print("REPLAY-RESULT " + json.dumps(out, default=str))
            return
        except Exception as e:  # the real code raised
            exc = e
        out["inputs"] = B.describe(old)
        if exc is not None:
            cls = type(exc).__name__
            out["raised"] = "%s: %s" % (cls, exc)
            spec = (getattr(c, "raises", {}) or {}).get(cls)
            if spec is None:
                for k, v in (getattr(c, "raises", {}) or {}).items():
                    try:
                        if isinstance(exc, getattr(__import__("builtins"), k)):
                            spec = v
                    except AttributeError:
                        pass
            if S.CHECK_FAILURES or ctx.world.violations:
                out["reproduced"] = True
                out["violated"] = ["check[%s]" % nm for nm in S.CHECK_FAILURES] + list(ctx.world.violations) + ["raised[%s]" % cls]
            elif spec is None:
                out["reproduced"] = True
                out["violated"] = ["no-raise[%s]" % cls]
            elif spec is True:
                out["reproduced"] = False
            else:
                import inspect as _insp

                fn_spec = getattr(c, spec)
                ok = clause_items(fn_spec(old, s) if len(_insp.signature(fn_spec).parameters) >= 2 else fn_spec(old))
                bad = [k for k, v in ok if not v]
                out["reproduced"] = bool(bad)
                out["violated"] = ["raises[%s][%s]" % (cls, k) for k in bad]
        else:
            out["result"] = B.describe(result)
            ens = getattr(c, "ensures", None)
            bad = []
            if ens is not None:
                for k, v in clause_items(ens(old, s, result)):
                    if not v:
                        bad.append("post[%s]" % k if k else "post")
            for pname, pt in params.items():
                for b in B.check_native_inv(env[pname], pt):
                    bad.append("inv" + b)
            for nm in S.CHECK_FAILURES:
                bad.append("check[%s]" % nm)
            bad.extend(ctx.world.violations)
            out["violated"] = bad
            # the recorded obligation names one clause; any violated clause of the same contract counts
            out["reproduced"] = bool(bad)
    except Exception as e:
        out["error"] = "replay harness error: %s" % e
        out["trace"] = traceback.format_exc()[-3000:]
    print("REPLAY-RESULT " + json.dumps(out, default=str))


if __name__ == "__main__":
    main()
