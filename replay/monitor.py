#!/venv/bin/python
"""Native run-time contract monitoring: runs a monitor function of a contract module on the REAL code over an
enumerated input catalogue (bounded stand-in, never counted as proved).
usage: monitor.py <contract module> <function> <tier> <seed>   -> one line  MONITOR-RESULT <json>"""
import importlib
import json
import os
import sys
import traceback

sys.modules.setdefault("yahpo_gym", None)
VERIF = os.path.dirname(os.path.dirname(os.path.abspath(__file__)))
sys.path.insert(0, VERIF)


def main():
    modname, fname, tier, seed = sys.argv[1], sys.argv[2], sys.argv[3], int(sys.argv[4])
    out = {"evaluations": 0, "distinct": 0, "violations": [], "samples": [], "error": None}
    try:
        mod = importlib.import_module(modname)
        fn = getattr(mod, fname)
        res = fn(tier=tier, seed=seed)
        out.update(res)
    except Exception as e:
        out["error"] = "%s\n%s" % (e, traceback.format_exc()[-2000:])
    print("MONITOR-RESULT " + json.dumps(out, default=str))


if __name__ == "__main__":
    main()
