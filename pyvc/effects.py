"""Static effect analysis on the real AST (C11 / C16): ambient sources of nondeterminism and
call sites that draw random numbers without the object's own generator."""
import ast
import os

SAMPLING_CALLS = {"sample", "random_config", "random_configs", "sample_random_configuration"}
GLOBAL_RNG_PREFIXES = ("np.random.", "numpy.random.", "random.")
ALLOWED_GLOBAL = {"np.random.RandomState", "numpy.random.RandomState"}


def module_files(root, rels):
    out = []
    for rel in rels:
        p = os.path.join(root, rel)
        if os.path.isdir(p):
            for dp, dn, fn in os.walk(p):
                for f in sorted(fn):
                    if f.endswith(".py"):
                        out.append(os.path.join(dp, f))
        elif os.path.isfile(p):
            out.append(p)
    return sorted(out)


def enclosing_map(tree):
    """node -> qualified name of the innermost enclosing class.function"""
    where = {}

    def walk(n, qual):
        for ch in ast.iter_child_nodes(n):
            q = qual
            if isinstance(ch, (ast.FunctionDef, ast.ClassDef, ast.AsyncFunctionDef)):
                q = (qual + "." if qual else "") + ch.name
            where[ch] = q
            walk(ch, q)

    walk(tree, "")
    return where


def scan(root, rels):
    """-> list of findings {kind, file, where, ordinal, text}; ``ordinal`` = k-th site of that kind in the function"""
    findings = []
    for path in module_files(root, rels):
        src = open(path, encoding="utf-8").read()
        try:
            tree = ast.parse(src)
        except SyntaxError:
            continue
        where = enclosing_map(tree)
        parent = {}
        for n0 in ast.walk(tree):
            for ch in ast.iter_child_nodes(n0):
                parent[ch] = n0
        rel = os.path.relpath(path, root)
        counters = {}

        def add(kind, node, text):
            w = where.get(node, "")
            k = counters.get((kind, w), 0) + 1
            counters[(kind, w)] = k
            findings.append({"kind": kind, "file": rel, "where": w, "ordinal": k, "text": text, "line": node.lineno})

        for node in ast.walk(tree):
            if isinstance(node, ast.Call):
                fn = node.func
                dotted = ast.unparse(fn)
                # 1. calls into the process-global generators
                if dotted.startswith(GLOBAL_RNG_PREFIXES) and dotted not in ALLOWED_GLOBAL:
                    add("global-rng-call", node, dotted)
                # 2. sampling calls must be handed the object's own generator
                if isinstance(fn, ast.Attribute) and fn.attr in SAMPLING_CALLS or (isinstance(fn, ast.Name) and fn.id in SAMPLING_CALLS):
                    args_txt = [ast.unparse(a) for a in node.args] + ["%s=%s" % (k.arg, ast.unparse(k.value)) for k in node.keywords]
                    has_rs = any("random_state" in a for a in args_txt)
                    if not has_rs:
                        add("sampling-without-generator", node, ast.unparse(node)[:120])
                if dotted in ("hash", "id") or dotted in ("os.urandom", "uuid.uuid4", "time.time_ns"):
                    add("ambient-call", node, dotted)
            elif isinstance(node, ast.Attribute):
                # np.random used as a VALUE (default generator): only legal in the guarded fallback
                if ast.unparse(node) in ("np.random", "numpy.random"):
                    par = parent.get(node)
                    add_it = True
                    if isinstance(par, ast.Attribute) and par.attr == "RandomState":
                        add_it = False  # constructor of a private generator / type annotation
                    # allowed: the attribute is the prefix of RandomState(...) or of an already reported call
                    findings_here = [f for f in findings if f["file"] == rel and f["line"] == node.lineno and f["kind"] == "global-rng-call"]
                    if findings_here:
                        add_it = False
                    if add_it:
                        add("global-rng-value", node, ast.unparse(node))
    return findings
