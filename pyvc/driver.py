"""`vf check <property>`: run every contract unit of a property in a process
pool, aggregate obligations, replay counter-models natively, write evidence."""
import importlib
import json
import multiprocessing as mp
import os
import subprocess
import sys
import time
import traceback

VERIF = os.path.dirname(os.path.dirname(os.path.abspath(__file__)))
REPO_ROOT = os.environ.get("PYVC_REPO", "/repo")
NATIVE_PY = "/venv/bin/python"

EXIT_HELD, EXIT_VIOLATION, EXIT_UNDECIDED, EXIT_FAULT = 0, 1, 2, 3


def _unit_worker(job):
    """runs in a forked worker: one (contract, shape) unit"""
    prop, modname, key, shape, timeout_ms, canary, mode, prefixes, max_paths = job
    t0 = time.time()
    out = {"key": key, "shape": shape, "mode": mode, "obligations": [], "unsupported": [], "error": None, "paths": 0, "normal_paths": 0, "raise_paths": 0, "functions": {}, "notes": [], "time": 0.0, "leftover": []}
    try:
        sys.path.insert(0, VERIF)
        from pyvc.source import Repo
        from pyvc.verify import Registry, Verifier, discharge, solve
        from pyvc import spec as S
        import z3

        repo = Repo(REPO_ROOT, extra_roots=[VERIF])
        reg = Registry(repo, [modname])
        c = S.CONTRACTS[key]
        v = Verifier(repo, reg, timeout_ms)
        res = v.run(c, shape=shape, prop=prop, mode=mode, prefixes=prefixes, max_paths=max_paths)
        out["leftover"] = res.leftover
        discharge(res, timeout_ms)
        out["paths"], out["normal_paths"], out["raise_paths"] = res.paths, res.normal_paths, res.raise_paths
        out["unsupported"] = list(res.unsupported)
        out["error"] = res.error
        out["functions"] = res.functions
        out["notes"] = sorted(res.notes)
        for ob in res.obligations:
            out["obligations"].append(
                {
                    "name": ob.name,
                    "kind": ob.kind,
                    "status": ob.status,
                    "time": round(ob.time, 4),
                    "backend": ob.backend,
                    "witness": ob.witness,
                    "info": dict({k: (v if isinstance(v, (int, str, type(None))) else str(v)) for k, v in (ob.info or {}).items()}, **({"solver_info": ob.solver_info} if getattr(ob, "solver_info", None) else {})),
                    "size": len(ob.pc),
                }
            )
        if canary:
            # vacuity canary: the query pipeline must be able to fail.  ``False`` under the
            # path condition of the first recorded obligation must be refuted with a model.
            if res.obligations:
                ob0 = res.obligations[0]
                st, model, dt, be = solve(ob0.pc, z3.BoolVal(False), timeout_ms)
                out["canary"] = st
            else:
                out["canary"] = "no-obligation"
    except Exception as e:
        out["error"] = "checker fault: %s\n%s" % (e, traceback.format_exc())
    out["time"] = round(time.time() - t0, 3)
    return out


def shapes_for(c, tier):
    """bounded shapes of a contract for a tier"""
    sh = getattr(c, "shapes_quick" if tier == "quick" else "shapes_thorough", None)
    if sh is None:
        sh = getattr(c, "shapes", None)
    if sh is None:
        n = 3 if tier == "quick" else 4
        has_list = getattr(c, "has_lists", True)
        sh = [{"*": k} for k in range(0, n + 1)] if has_list else []
    return sh


def plan_units(prop, modname, tier):
    from pyvc import spec as S

    units = []
    for key, c in S.CONTRACTS.items():
        props = getattr(c, "props", ())
        if prop not in props:
            continue
        if c.target.startswith("iface:"):
            continue
        if getattr(c, "unbounded", True):
            for sh in getattr(c, "proof_shapes", [None]):
                units.append((key, sh, "unbounded"))
        # a contract shared with other properties is explored at thorough depth only by the property whose module defines
        # it; where it is imported it runs with its quick shapes (otherwise every thorough run repeats all of them)
        own = getattr(c, "__module__", modname) == modname
        for sh in shapes_for(c, tier if own else "quick"):
            units.append((key, sh, "bounded"))
    return units


def run_units(prop, modname, units, tier, jobs=None):
    """run all units in a process pool.  A unit's path exploration is split dynamically:
    a job explores at most PATHS_PER_JOB paths and hands the unexplored decision prefixes
    back; these are re-submitted as new jobs (work sharing across the 16 cores)."""
    timeout_ms = 20000 if tier == "quick" else 120000
    try:  # a busy machine slows every solver call down: scale the per-query budget with the load so verdicts do not flip
        load = os.getloadavg()[0] / float(os.cpu_count() or 16)
    except OSError:
        load = 0.0
    timeout_ms = int(timeout_ms * min(4.0, max(1.0, load)))
    paths_per_job = 10
    n = jobs or 16
    ctx = mp.get_context("fork")
    merged = {}
    order = []
    with ctx.Pool(n) as pool:
        pending = []

        def submit(key, shape, mode, prefixes, canary):
            job = (prop, modname, key, shape, timeout_ms, canary, mode, prefixes, paths_per_job)
            pending.append(((key, json.dumps(shape, sort_keys=True), mode), pool.apply_async(_unit_worker, (job,))))

        for key, shape, mode in units:
            uid = (key, json.dumps(shape, sort_keys=True), mode)
            order.append(uid)
            merged[uid] = {"key": key, "shape": shape, "mode": mode, "obligations": [], "unsupported": [], "error": None, "paths": 0, "normal_paths": 0, "raise_paths": 0, "functions": {}, "notes": [], "time": 0.0, "jobs": 0}
            submit(key, shape, mode, None, True)
        while pending:
            still = []
            progressed = False
            for uid, ar in pending:
                if not ar.ready():
                    still.append((uid, ar))
                    continue
                progressed = True
                try:
                    r = ar.get()
                except Exception as e:  # worker crashed hard
                    r = {"error": "checker fault: worker died: %r" % (e,), "leftover": [], "obligations": [], "unsupported": [], "paths": 0, "normal_paths": 0, "raise_paths": 0, "functions": {}, "notes": [], "time": 0.0}
                mg = merged[uid]
                mg["jobs"] += 1
                mg["obligations"].extend(r["obligations"])
                for u in r["unsupported"]:
                    if u not in mg["unsupported"]:
                        mg["unsupported"].append(u)
                if r.get("error") and not mg["error"]:
                    mg["error"] = r["error"]
                for k in ("paths", "normal_paths", "raise_paths"):
                    mg[k] += r[k]
                mg["functions"].update(r["functions"])
                mg["notes"] = sorted(set(mg["notes"]) | set(r["notes"]))
                mg["time"] += r["time"]
                if "canary" in r:
                    mg["canary"] = r["canary"]
                left = r.get("leftover") or []
                chunk = 2
                for i in range(0, len(left), chunk):
                    still.append(None)  # placeholder keeps ordering simple
                    still.pop()
                    job = (prop, modname, mg["key"], mg["shape"], timeout_ms, False, mg["mode"], left[i : i + chunk], paths_per_job)
                    still.append((uid, pool.apply_async(_unit_worker, (job,))))
            pending = still
            if not progressed:
                time.sleep(0.05)
    return [merged[u] for u in order]


# ---------------------------------------------------------------------------
# native replay
# ---------------------------------------------------------------------------


def native_replay(prop, modname, key, shape, ob, replay_dir):
    """run the counter-model against the real code; returns dict with 'reproduced'"""
    os.makedirs(replay_dir, exist_ok=True)
    safe = ob["name"].replace("/", "_").replace("[", "(").replace("]", ")").replace(" ", "")
    path = os.path.join(replay_dir, safe + ".json")
    rec = {
        "property": prop,
        "obligation": ob["name"],
        "contract_module": modname,
        "contract": key,
        "shape": shape,
        "witness": ob["witness"],
        "solver": {"status": ob["status"], "backend": ob["backend"], "time": ob["time"], "info": (ob.get("info") or {}).get("solver_info")},
        "repo": REPO_ROOT,
        "replay_cmd": "./vf replay %s" % path,
    }
    with open(path, "w") as fh:
        json.dump(rec, fh, indent=1, default=str)
    nat = run_native(path)
    rec["native"] = nat
    with open(path, "w") as fh:
        json.dump(rec, fh, indent=1, default=str)
    return path, nat


def run_native(path):
    env = dict(os.environ, PYTHONPATH=REPO_ROOT + os.pathsep + VERIF, PYTHONHASHSEED="0")
    try:
        p = subprocess.run([NATIVE_PY, os.path.join(VERIF, "replay", "run.py"), path], stdout=subprocess.PIPE, stderr=subprocess.PIPE, text=True, env=env, timeout=120)
    except subprocess.TimeoutExpired:
        return {"reproduced": False, "error": "native replay timeout"}
    last = None
    for line in p.stdout.splitlines():
        if line.startswith("REPLAY-RESULT "):
            last = line[len("REPLAY-RESULT ") :]
    if last is None:
        return {"reproduced": False, "error": "no result from native replay", "stderr": p.stderr[-2000:], "stdout": p.stdout[-2000:]}
    try:
        return json.loads(last)
    except Exception:
        return {"reproduced": False, "error": "unparsable native result", "raw": last[:2000]}
