"""pyvc -- verification-condition generator for a subset of Python.

Re-reads the real source under /repo with ``ast`` on every run, symbolically
executes the functions under contract path by path, and discharges the
resulting obligations with z3 (cvc5 for z3's unknowns).  See /verif/DESIGN.md.
"""
