"""Statement / expression interpreter on top of engine.Interp."""
import ast
from fractions import Fraction

import z3

from . import spec as S
from .engine import *  # noqa
from .engine import _Return, _Break, _Continue, _LoopStepDone
from .values import *  # noqa
from .values import _LIT_BY_CODE
from . import engine as _engine

_engine._LIT_BY_CODE_REF = lambda: _LIT_BY_CODE

IGNORED_CALL_ROOTS = ("logger", "logging", "warnings")


def loops_in(fnode):
    """loops of a function in source order (pre-order), not descending into nested defs"""
    out = []

    def walk(n):
        for ch in ast.iter_child_nodes(n):
            if isinstance(ch, (ast.FunctionDef, ast.Lambda, ast.ClassDef, ast.AsyncFunctionDef)):
                continue
            if isinstance(ch, (ast.For, ast.While)):
                out.append(ch)
            walk(ch)

    walk(fnode)
    return out


def assigned_names(stmts):
    names = []

    def tgt(t):
        if isinstance(t, ast.Name):
            if t.id not in names:
                names.append(t.id)
        elif isinstance(t, (ast.Tuple, ast.List)):
            for e in t.elts:
                tgt(e)
        elif isinstance(t, ast.Starred):
            tgt(t.value)

    class V(ast.NodeVisitor):
        def visit_Assign(self, n):
            for t in n.targets:
                tgt(t)
            self.generic_visit(n)

        def visit_AugAssign(self, n):
            tgt(n.target)
            self.generic_visit(n)

        def visit_AnnAssign(self, n):
            if n.value is not None:
                tgt(n.target)
            self.generic_visit(n)

        def visit_For(self, n):
            tgt(n.target)
            self.generic_visit(n)

        def visit_NamedExpr(self, n):
            tgt(n.target)
            self.generic_visit(n)

        def visit_With(self, n):
            for it in n.items:
                if it.optional_vars is not None:
                    tgt(it.optional_vars)
            self.generic_visit(n)

        def visit_FunctionDef(self, n):
            pass

        def visit_Lambda(self, n):
            pass

        def visit_ListComp(self, n):
            pass

        visit_SetComp = visit_DictComp = visit_GeneratorExp = visit_ListComp

    v = V()
    for s in stmts:
        v.visit(s)
    return names


class Machine(Interp):
    # ------------------------------------------------------------------ names

    def module_env(self, module):
        return Env(module)

    def lookup(self, name, env, node=None):
        if name in env.locals:
            return env.locals[name]
        for p in env.parents:
            if name in p:
                return p[name]
        return self.lookup_global(name, env.module, node)

    def lookup_global(self, name, module, node=None):
        if module.name.startswith("contracts") and name not in module.functions and name not in module.classes and name not in module.assigns:
            if name in SPEC_BUILTINS:
                return SPEC_BUILTINS[name]
        r = self.repo.resolve_import(module, name)
        if r is not None and r[0] in ("func", "class", "const") and r[1].name == "pyvc.spec":
            if name in SPEC_BUILTINS:
                return SPEC_BUILTINS[name]
            return ExtObj("specdata", {"value": getattr(S, name)})
        if r is not None:
            return self.value_of_resolution(r, name, node)
        if name in BUILTINS:
            return BUILTINS[name]
        if name in SPEC_BUILTINS:
            return SPEC_BUILTINS[name]
        if hasattr(S, name) and module.name.startswith("contracts"):
            return ExtObj("specdata", {"value": getattr(S, name)})
        raise Unsupported("unknown name %r in module %s" % (name, module.name), node)

    def value_of_resolution(self, r, name, node=None):
        kind = r[0]
        if kind == "class":
            return ClassRef(get_classinfo(self.repo, r[1], r[2]))
        if kind == "func":
            f = Func(r[2], r[1], qual="%s:%s" % (r[1].name, r[2].name))
            return f
        if kind == "const":
            return self.eval(r[2], self.module_env(r[1]))
        if kind == "module":
            return ModRef(r[1])
        if kind == "external":
            from . import lib

            if r[1] in lib.CONSTANTS:
                return lib.CONSTANTS[r[1]](self)
            return ExtRef(r[1])
        raise Unsupported("resolution %r" % (r,), node)

    # ------------------------------------------------------------------ expressions

    def eval(self, n, env):
        m = getattr(self, "e_" + type(n).__name__, None)
        if m is None:
            raise Unsupported("expression %s" % type(n).__name__, n)
        return m(n, env)

    def e_Constant(self, n, env):
        v = n.value
        if isinstance(v, float):
            if v != v or v in (float("inf"), float("-inf")):
                raise Unsupported("non-finite float literal", n)
            return Fraction(repr(v))
        if isinstance(v, (int, bool, str)) or v is None:
            return v
        if v is Ellipsis:
            return None
        if isinstance(v, bytes):
            raise Unsupported("bytes literal", n)
        raise Unsupported("constant %r" % (v,), n)

    def e_Name(self, n, env):
        return self.lookup(n.id, env, n)

    def e_JoinedStr(self, n, env):
        # f-string: opaque text unless every part is concrete
        parts = []
        opaque = False
        for v in n.values:
            if isinstance(v, ast.Constant):
                parts.append(v.value)
            else:
                if any(isinstance(c, ast.Call) for c in ast.walk(v.value)):
                    # calls inside an f-string run like anywhere else (effects, exceptions, branching)
                    x = self.eval(v.value, env)
                    if not (isinstance(x, (str, int)) and not isinstance(x, bool) and v.format_spec is None and v.conversion == -1):
                        opaque = True
                    else:
                        parts.append(str(x))
                    continue
                try:
                    self.nofork += 1
                    try:
                        x = self.eval(v.value, env)
                    finally:
                        self.nofork -= 1
                except (Unsupported, PyRaise):
                    return self.fresh_scalar("str", "fstr")
                if isinstance(x, (str, int)) and not isinstance(x, bool) and v.format_spec is None and v.conversion == -1:
                    parts.append(str(x))
                else:
                    return self.fresh_scalar("str", "fstr")
        if opaque:
            return self.fresh_scalar("str", "fstr")
        return "".join(parts)

    def e_Tuple(self, n, env):
        out = []
        for e in n.elts:
            if isinstance(e, ast.Starred):
                out.extend(self.iter_concrete(self.eval(e.value, env), e))
            else:
                out.append(self.eval(e, env))
        return tuple(out)

    def e_List(self, n, env):
        out = []
        for e in n.elts:
            if isinstance(e, ast.Starred):
                out.extend(self.iter_concrete(self.eval(e.value, env), e))
            else:
                out.append(self.eval(e, env))
        return SList(out)

    def e_Set(self, n, env):
        return SSet([self.eval(e, env) for e in n.elts])

    def e_Dict(self, n, env):
        d = SDict()
        for k, v in zip(n.keys, n.values):
            if k is None:
                other = self.force(self.eval(v, env), n)
                if not isinstance(other, SDict):
                    raise Unsupported("** of non-literal dict", n)
                d.d.update(other.d)
                continue
            kk = self.force(self.eval(k, env), n)
            if not (is_concrete_scalar(kk) or isinstance(kk, tuple)):
                if isinstance(kk, Sym):
                    self.setitem(d, kk, self.eval(v, env), n)  # upgrades d to an association list
                    continue
                raise Unsupported("dict literal with symbolic key", n)
            if isinstance(d, SADict):
                self.setitem(d, kk, self.eval(v, env), n)
            else:
                d.d[self.dict_key(kk)] = self.eval(v, env)
        return d

    def e_BinOp(self, n, env):
        return self.binop(n.op, self.eval(n.left, env), self.eval(n.right, env), n)

    def e_UnaryOp(self, n, env):
        return self.unaryop(n.op, self.eval(n.operand, env), n)

    def _try_total(self, fn):
        """inside specifications: evaluate without forking when possible (falls back to forking)"""
        self.nofork += 1
        try:
            return True, fn()
        except (Unsupported, PyRaise):
            return False, None
        finally:
            self.nofork -= 1

    def e_BoolOp(self, n, env):
        is_and = isinstance(n.op, ast.And)
        if self.in_spec and not self.nofork and getattr(self, "spec_total", True):
            ok, r = self._try_total(lambda: self.e_BoolOp(n, env))
            if ok:
                return r
        if self.nofork:
            # total (non short-circuit) logical reading inside quantifier bodies
            vals = [self.eval(v, env) for v in n.values]
            ts = [self.truth(v, n) for v in vals]
            r = self.conj(ts) if is_and else self.disj(ts)
            return r if isinstance(r, bool) else self.mk(r, "bool")
        last = None
        for i, v in enumerate(n.values):
            last = self.eval(v, env)
            if i == len(n.values) - 1:
                return last
            t = self.truth(last, n)
            if isinstance(t, bool):
                if t != is_and:
                    return last
                continue
            # symbolic: if the remaining operands are cheap pure scalars we could merge,
            # but forking keeps python's short-circuit semantics exactly
            if self.branch(t, n) != is_and:
                if isinstance(last, Sym) and last.k == "bool":
                    return not is_and
                return last
        return last

    def e_Compare(self, n, env):
        left = self.eval(n.left, env)
        if len(n.ops) == 1:
            return self.compare(n.ops[0], left, self.eval(n.comparators[0], env), n)
        if self.in_spec and not self.nofork and getattr(self, "spec_total", True):
            ok, r = self._try_total(lambda: self.e_Compare(n, env))
            if ok:
                return r
        res = []
        for op, rn in zip(n.ops, n.comparators):
            right = self.eval(rn, env)
            r = self.compare(op, left, right, n)
            if self.nofork:
                res.append(self.truth(r, n))
            else:
                t = self.truth(r, n)
                if not (t if isinstance(t, bool) else self.branch(t, n)):
                    return False
            left = right
        if self.nofork:
            r = self.conj(res)
            return r if isinstance(r, bool) else self.mk(r, "bool")
        return True

    def e_IfExp(self, n, env):
        c = self.truth(self.eval(n.test, env), n)
        if isinstance(c, bool):
            return self.eval(n.body if c else n.orelse, env)
        c = z3.simplify(c)
        if z3.is_true(c):
            return self.eval(n.body, env)
        if z3.is_false(c):
            return self.eval(n.orelse, env)
        if self.nofork:
            a = self.eval(n.body, env)
            b = self.eval(n.orelse, env)
            return self.ite(c, a, b, n)
        if self.in_spec and getattr(self, "spec_total", True):
            ok, r = self._try_total(lambda: self.ite(c, self.eval(n.body, env), self.eval(n.orelse, env), n))
            if ok:
                return r
        if self.branch(c, n):
            return self.eval(n.body, env)
        return self.eval(n.orelse, env)

    def e_Attribute(self, n, env):
        base = self.eval(n.value, env)
        return self.getattr(base, n.attr, n)

    def e_Subscript(self, n, env):
        base = self.eval(n.value, env)
        if isinstance(base, ExtRef) or (isinstance(base, ExtObj) and base.kind == "typing"):
            return ExtObj("typing")
        k = self.eval_index(n.slice, env)
        return self.getitem(base, k, n)

    def eval_index(self, s, env):
        if isinstance(s, ast.Slice):
            lo = self.eval(s.lower, env) if s.lower is not None else None
            hi = self.eval(s.upper, env) if s.upper is not None else None
            st = self.eval(s.step, env) if s.step is not None else None
            return slice(lo, hi, st)
        return self.eval(s, env)

    def e_Lambda(self, n, env):
        f = Func(n, env.module, closure=[env.locals] + env.parents, defcls=env.selfcls, qual="<lambda@%d>" % n.lineno)
        return f

    def e_Call(self, n, env):
        # logging / warnings: dropped by extraction (DESIGN 2.1)
        root = n.func
        while isinstance(root, ast.Attribute):
            root = root.value
        if isinstance(root, ast.Name) and root.id in IGNORED_CALL_ROOTS and isinstance(n.func, ast.Attribute):
            if root.id not in env.locals:
                return None
        if isinstance(n.func, ast.Name) and n.func.id == "print" and "print" not in env.locals:
            # the text goes nowhere the program can read back; calls inside the arguments still run
            if any(isinstance(c, ast.Call) for a in n.args for c in ast.walk(a)):
                vals = [self.eval(a, env) for a in n.args if not isinstance(a, ast.Starred)]
                self.output_log.append(("print", vals[0] if len(vals) == 1 else tuple(vals), None))
            return None
        if isinstance(n.func, ast.Name) and n.func.id == "super":
            return self.make_super(env, n)
        f = self.eval(n.func, env)
        args = []
        for a in n.args:
            if isinstance(a, ast.Starred):
                args.extend(self.iter_concrete(self.eval(a.value, env), a))
            else:
                args.append(self.eval(a, env))
        kwargs = {}
        for kw in n.keywords:
            if kw.arg is None:
                d = self.force(self.eval(kw.value, env), n)
                if isinstance(d, SDict):
                    for k, v in d.d.items():
                        kwargs[k] = v
                else:
                    raise Unsupported("**kwargs of non-literal dict", n)
            else:
                kwargs[kw.arg] = self.eval(kw.value, env)
        return self.call(f, args, kwargs, n)

    def e_ListComp(self, n, env):
        return self.comprehension(n, env, "list")

    def e_SetComp(self, n, env):
        return self.comprehension(n, env, "set")

    def e_GeneratorExp(self, n, env):
        return self.comprehension(n, env, "list")

    def e_DictComp(self, n, env):
        return self.comprehension(n, env, "dict")

    def e_NamedExpr(self, n, env):
        v = self.eval(n.value, env)
        env.locals[n.target.id] = v
        return v

    def e_Starred(self, n, env):
        raise Unsupported("starred expression", n)

    def e_Slice(self, n, env):
        return self.eval_index(n, env)

    # ------------------------------------------------------------------ comprehensions

    def comprehension(self, n, env, kind):
        sub = Env(env.module, {}, [env.locals] + env.parents, env.func, env.selfcls)
        gens = n.generators
        if len(gens) == 1 and not isinstance(n, ast.DictComp):
            g = gens[0]
            src = self.force(self.eval(g.iter, env), n)
            unb = self.unbounded_source(src)
            if unb is not None and isinstance(src, SRange) and getattr(self, "concretize_ranges", False) and not self.nofork and not self.in_spec:
                unb = None  # bounded mode: the symbolic bound is decided on this path and the body runs eagerly, in order
            if unb is not None:
                return self.comprehension_unbounded(n, g, unb, sub, kind)
        out = []

        def rec(gi):
            if gi == len(gens):
                if isinstance(n, ast.DictComp):
                    out.append((self.eval(n.key, sub), self.eval(n.value, sub)))
                else:
                    out.append(self.eval(n.elt, sub))
                return
            g = gens[gi]
            it = self.eval(g.iter, sub if gi > 0 else env)
            for x in self.iter_concrete(it, n):
                self.assign(g.target, x, sub)
                ok = True
                for c in g.ifs:
                    t = self.truth(self.eval(c, sub), n)
                    if not (t if isinstance(t, bool) else self.branch(t, n)):
                        ok = False
                        break
                if ok:
                    rec(gi + 1)

        rec(0)
        if kind == "list":
            return SList(out)
        if kind == "set":
            return self.make_set(out, n)
        d = SDict()
        for k, v in out:
            k = self.force(k, n)
            if isinstance(d, SADict) or not (is_concrete_scalar(k) or isinstance(k, tuple)):
                if not isinstance(k, (Sym, int, str)):
                    raise Unsupported("dict comprehension with key %r" % (k,), n)
                self.setitem(d, k, v, n)  # association list for symbolic keys
            else:
                d.d[self.dict_key(k)] = v
        return d

    def unbounded_source(self, src):
        if isinstance(src, SSorted):
            src = src.inner
        if isinstance(src, SymList):
            return src
        if isinstance(src, SEnumerate) and isinstance(src.seq, (SymList, SSorted)):
            inner = src.seq.inner if isinstance(src.seq, SSorted) else src.seq
            if isinstance(inner, SymList):
                st = src.start
                return SymList(None, inner.length, lambda i: (self.mk(i + self.z(st, "int"), "int"), self.index_nocheck(inner, i)))
        if isinstance(src, SRange) and not all(isinstance(x, int) for x in (src.lo, src.hi, src.step)):
            if src.step == 1:
                lo = self.z(src.lo, "int")
                hi = self.z(src.hi, "int")
                return SymList(S.Int, z3.If(hi >= lo, hi - lo, z3.IntVal(0)), lambda i: self.mk(lo + i, "int"))
        if isinstance(src, SZip) and any(self.unbounded_source(s) is not None for s in src.seqs):
            seqs = [self.unbounded_source(s) or s for s in src.seqs]
            ln = None
            for s in seqs:
                l = self.length_term(s)
                ln = l if ln is None else z3.If(l < ln, l, ln)
            return SymList(None, ln, lambda i: tuple(self.index_nocheck(s, i) for s in seqs))
        return None

    def comprehension_unbounded(self, n, g, src, sub, kind):
        """[elt for tgt in <unbounded> (if cond)] -> lazily mapped / filtered SymList"""
        src = SymList(src.etype, src.length, src.getter)  # the view is of the list as it is NOW (later mutations do not show)

        def elem(i):
            e2 = Env(sub.module, {}, [sub.locals] + sub.parents, sub.func, sub.selfcls)
            self.assign(g.target, self.index_nocheck(src, i), e2)
            self.nofork += 1
            try:
                conds = [self.as_bool_term(self.eval(c, e2), n) for c in g.ifs]
                v = self.eval(n.elt, e2)
            finally:
                self.nofork -= 1
            return v, conds

        if not g.ifs:
            lst = SymList(None, src.length, lambda i: elem(i)[0])
        else:
            # filter: fresh list with an order-preserving injection into the source
            lst = self.filtered_symlist(src, elem, n)
        if kind == "list":
            return lst
        if kind == "set":
            return self.symset_of_list(lst, n)
        raise Unsupported("unbounded dict comprehension", n)

    def filtered_symlist(self, src, elem, n):
        m = z3.Int(self.fresh_name("flt.len"))
        idx = z3.Function(self.fresh_name("flt.idx"), z3.IntSort(), z3.IntSort())
        i = z3.Int(self.fresh_name("i"))
        j = z3.Int(self.fresh_name("j"))
        self.assume(z3.And(m >= 0, m <= src.length))
        _, ci = elem(idx(i))
        ci = z3.And(*ci) if ci else z3.BoolVal(True)
        # idx maps [0,m) strictly increasing into positions satisfying the filter ...
        self.assume(z3.ForAll([i], z3.Implies(z3.And(0 <= i, i < m), z3.And(0 <= idx(i), idx(i) < src.length, ci))))
        self.assume(z3.ForAll([i, j], z3.Implies(z3.And(0 <= i, i < j, j < m), idx(i) < idx(j))))
        # ... and every position satisfying the filter is hit
        inv = z3.Function(self.fresh_name("flt.inv"), z3.IntSort(), z3.IntSort())
        _, cj = elem(j)
        cj = z3.And(*cj) if cj else z3.BoolVal(True)
        self.assume(z3.ForAll([j], z3.Implies(z3.And(0 <= j, j < src.length, cj), z3.And(0 <= inv(j), inv(j) < m, idx(inv(j)) == j))))
        # consequences of "idx is a strictly increasing map of [0,m) into [0,n)" that need induction
        # (stated as lemmas; they are part of the trusted comprehension summary):
        self.assume(z3.ForAll([i], z3.Implies(z3.And(0 <= i, i < m), idx(i) >= i)))
        self.assume(z3.Implies(m == src.length, z3.ForAll([i], z3.Implies(z3.And(0 <= i, i < m), idx(i) == i))))
        self.assume(z3.Implies(m == src.length, z3.ForAll([j], z3.Implies(z3.And(0 <= j, j < src.length), cj))))
        self.assumption_notes.add("comprehension summary: filter = strictly increasing index injection hitting exactly the selected positions (incl. the lemmas idx(i) >= i and full length => identity)")
        return SymList(None, m, lambda k: elem(idx(k))[0])

    def symset_of_list(self, lst, n):
        card = z3.Int(self.fresh_name("set.card"))
        self.assume(z3.And(card >= 0, card <= lst.length))
        self.assume(z3.Implies(lst.length > 0, card > 0))

        def has(k):
            i = z3.Int(self.fresh_name("i"))
            self.nofork += 1
            try:
                e = self.equal(self.index_nocheck(lst, i), Sym(k, "str"), n)
            finally:
                self.nofork -= 1
            e = z3.BoolVal(e) if isinstance(e, bool) else e
            return z3.Exists([i], z3.And(0 <= i, i < lst.length, e))

        return SymSet(S.Str, has, card)

    def make_set(self, items, node=None):
        """set from a concrete-shape collection of possibly symbolic scalars"""
        items = [self.force(x, node) for x in items]
        if all(is_concrete_scalar(x) or isinstance(x, tuple) for x in items):
            return SSet(items)
        if all(self.kind_of(x) in ("int", "str") for x in items):
            zs = [self.z(x) for x in items]
            card = z3.IntVal(0)
            for a_i in range(len(zs)):
                dup = z3.Or(*[zs[a_i] == zs[b_i] for b_i in range(a_i)]) if a_i else z3.BoolVal(False)
                card = card + z3.If(dup, 0, 1)
            kt = S.Str if any(self.kind_of(x) == "str" for x in items) else S.Int
            return SymSet(kt, lambda k, zs=zs: z3.Or(*[k == x for x in zs]), z3.simplify(card))
        raise Unsupported("set of %r" % (items,), node)

    # ------------------------------------------------------------------ iteration

    def iter_concrete(self, it, node=None):
        """python list of the elements of an iterable of concrete shape"""
        it = self.force(it, node)
        if isinstance(it, SList):
            return list(it.items)
        if type(it).__name__ == "SArr":
            return [it.row(i) for i in range(it.shape[0])]
        if isinstance(it, tuple):
            return list(it)
        if isinstance(it, SSorted):
            return self.iter_concrete(it.inner, node)
        if isinstance(it, SDict):
            return list(it.d.keys())
        if isinstance(it, SADict):
            return list(it.keys)
        if isinstance(it, SSet):
            return list(it.s)
        if isinstance(it, str):
            return list(it)
        if isinstance(it, SRange):
            if all(isinstance(x, int) for x in (it.lo, it.hi, it.step)):
                return list(range(it.lo, it.hi, it.step))
            if not self.nofork and getattr(self, "concretize_ranges", False):
                # bounded mode: decide small symbolic bounds on this path
                def conc(x):
                    if isinstance(x, int):
                        return x
                    if isinstance(x, Sym) and x.k == "int":
                        for c in range(-2, 41):
                            if self.branch(x.t == c, node):
                                return c
                        raise Unsupported("range bound outside [-2, 40] in bounded mode", node)
                    raise Unsupported("range bound %r" % (x,), node)

                step = conc(it.step)
                if step == 0:
                    raise PyRaise("ValueError", node)
                return list(range(conc(it.lo), conc(it.hi), step))
            raise Unsupported("range with symbolic bounds needs an invariant", node)
        if isinstance(it, SEnumerate):
            st = it.start
            return [(self.binop(ast.Add(), st, i), x) for i, x in enumerate(self.iter_concrete(it.seq, node))]
        if isinstance(it, SZip):
            ls = [self.iter_concrete(s, node) for s in it.seqs]
            return [tuple(t) for t in zip(*ls)]
        if isinstance(it, SReversed):
            return list(reversed(self.iter_concrete(it.seq, node)))
        if isinstance(it, SymList):
            n = z3.simplify(it.length)
            if z3.is_int_value(n):
                return [self.index_nocheck(it, j) for j in range(n.as_long())]
            raise Unsupported("iteration over unbounded list needs an invariant", node)
        if isinstance(it, (SymMap, SymSet)):
            raise Unsupported("iteration over unbounded map/set", node)
        if isinstance(it, SObj) and it.cls is not None:
            c, m = it.cls.find_method("__iter__")
            if m is not None:
                return self.iter_concrete(self.call_method(it, "__iter__", [], {}, node), node)
        raise Unsupported("iteration over %r" % (it,), node)

    # ------------------------------------------------------------------ attributes

    def getattr(self, o, name, node=None):
        o = self.force(o, node)
        if isinstance(o, SObj):
            if o.owner is not None:
                cont, idx, ver = o.owner
                if cont.version != ver and not (self.in_spec or self.nofork):
                    raise Unsupported("read through a stale view of an unbounded container", node)
            if name in o.fields:
                v = o.fields[name]
                if isinstance(v, Func) and not isinstance(v, BoundMethod):
                    return v
                return v
            if o.cls is not None:
                if name == "__class__":
                    return ClassRef(o.cls)
                c, m = o.cls.find_method(name)
                if m is not None:
                    f = self.func_of_method(c, m)
                    if f.is_property:
                        return self.call_function(f, [o], {}, node)
                    if f.is_static:
                        return f
                    if f.is_classmethod:
                        return BoundMethod(f, ClassRef(o.cls))
                    return BoundMethod(f, o)
                c, a = o.cls.find_class_attr(name)
                if a is not None:
                    return self.eval(a, Env(c.module, self.class_locals(c), [], None, c))
                if o.cls.is_dataclass:
                    pass
            if o.from_decl:
                # the contract's declaration of this input does not cover the field: undecided, not a violation
                raise Unsupported("field %s.%s is read but not declared in the contract's class declaration" % (o.clsname(), name), node)
            raise PyRaise("AttributeError", node, msg="%s.%s" % (o.clsname(), name))
        if isinstance(o, Namespace):
            if name in o.d:
                return o.d[name]
            raise Unsupported("namespace has no %r (have %s)" % (name, list(o.d)), node)
        if isinstance(o, ClassRef):
            c, m = o.info.find_method(name)
            if m is not None:
                f = self.func_of_method(c, m)
                if f.is_classmethod:
                    return BoundMethod(f, o)
                return f
            c, a = o.info.find_class_attr(name)
            if a is not None:
                return self.eval(a, Env(c.module, self.class_locals(c), [], None, c))
            if name in o.info.inner:
                return ClassRef(get_classinfo(self.repo, o.info.module, o.info.inner[name], o.info.qual + "." + name))
            if name == "__name__":
                return o.info.name
            raise PyRaise("AttributeError", node, msg="%s.%s" % (o.info.name, name))
        if isinstance(o, ModRef):
            m = self.repo.module(o.modname)
            return self.lookup_global(name, m, node)
        if isinstance(o, ExtRef):
            from . import lib

            full = o.dotted + "." + name
            if full in lib.CONSTANTS:
                return lib.CONSTANTS[full](self)
            if full in lib.REMOVED_IN_NUMPY2:
                self.assumption_notes.add("lib:numpy -- version 2.x semantics: %s does not exist (AttributeError)" % full)
                raise PyRaise("AttributeError", node, msg=full)
            return ExtRef(full)
        if isinstance(o, ExtObj):
            if o.kind == "specdata":
                return ExtObj("specdata", {"value": getattr(o.data["value"], name)})
            from . import lib

            return lib.extobj_attr(self, o, name, node)
        if isinstance(o, AbstractObj):
            if name in o.fields:
                return o.fields[name]
            for cc in S.CONTRACTS.values():
                if cc.target == "iface:%s.%s" % (o.iface, name) and getattr(cc, "attribute", False):
                    return self.call_abstract(o, name, [], {}, node)
            return NativeFn("%s.%s" % (o.iface, name), lambda mach, args, kwargs, node, o=o, name=name: mach.call_abstract(o, name, args, kwargs, node))
        if type(o).__name__ == "SArr":
            from . import npmodel

            return npmodel.arr_attr(self, o, name, node)
        meth = self.builtin_method(o, name, node)
        if meth is not None:
            return meth
        if o is None:
            raise PyRaise("AttributeError", node, msg="None.%s" % name)
        raise Unsupported("attribute %r of %r" % (name, o), node)

    def class_locals(self, c):
        """names visible inside a class body: its nested classes (class-level assignments may refer to them)"""
        return {nm: ClassRef(get_classinfo(self.repo, c.module, node, c.qual + "." + nm)) for nm, node in c.inner.items()}

    def func_of_method(self, c, m):
        f = Func(m, c.module, defcls=c, qual="%s:%s.%s" % (c.module.name, c.qual, m.name))
        for d in m.decorator_list:
            ds = ast.unparse(d)
            if ds == "staticmethod":
                f.is_static = True
            elif ds == "classmethod":
                f.is_classmethod = True
            elif ds == "property":
                f.is_property = True
            elif ds.endswith(".setter"):
                pass
        return f

    def setattr(self, o, name, v, node=None):
        o = self.force(o, node)
        if isinstance(o, SObj):
            self.note_write(o)
            decl = S.CLASSES.get(o.declname) if o.declname else None
            if decl is None and o.cls is not None:
                decl = self.registry.decl_for_class(o.cls) if self.registry else None
            if decl is not None and name in decl.fields:
                ft = decl.fields[name]
                v = self.coerce(v, ft, node)
            o.fields[name] = v
            self.writeback(o)
            return
        if isinstance(o, AbstractObj):
            o.fields[name] = v
            return
        if isinstance(o, Namespace):
            o.d[name] = v
            return
        raise Unsupported("attribute store on %r" % (o,), node)

    def make_super(self, env, node):
        if env.selfcls is None:
            raise Unsupported("super() outside a method", node)
        selfv = None
        f = env.func
        if f is not None and f.node.args.args:
            selfv = env.locals.get(f.node.args.args[0].arg)
        if selfv is None:
            for p in env.parents:
                if "self" in p:
                    selfv = p["self"]
        return ExtObj("super", {"cls": env.selfcls, "self": selfv})

    # ------------------------------------------------------------------ calls

    def call(self, f, args, kwargs, node=None):
        f = self.force(f, node)
        if isinstance(f, BoundMethod):
            return self.call_function(f.func, [f.selfv] + list(args), kwargs, node)
        if isinstance(f, Func):
            return self.call_function(f, args, kwargs, node)
        if isinstance(f, NativeFn):
            return f.fn(self, args, kwargs, node)
        if isinstance(f, ClassRef):
            return self.instantiate(f.info, args, kwargs, node)
        if isinstance(f, ExtRef):
            from . import lib

            return lib.call_external(self, f.dotted, args, kwargs, node)
        if isinstance(f, ExtObj):
            from . import lib

            return lib.call_extobj(self, f, args, kwargs, node)
        if isinstance(f, SObj) and f.cls is not None:
            c, m = f.cls.find_method("__call__")
            if m is not None:
                return self.call_method(f, "__call__", args, kwargs, node)
        if isinstance(f, AbstractObj):
            return self.call_abstract(f, "__call__", args, kwargs, node)
        raise Unsupported("call of %r" % (f,), node)

    def call_method(self, o, name, args, kwargs, node=None):
        return self.call(self.getattr(o, name, node), args, kwargs, node)

    def bind_args(self, f, args, kwargs, node):
        a = f.node.args
        env_locals = {}
        params = [p.arg for p in a.posonlyargs + a.args]
        defaults = a.defaults
        n_nodef = len(params) - len(defaults)
        args = list(args)
        kwargs = dict(kwargs)
        denv = Env(f.module, {}, f.closure, None, f.defcls)
        for i, p in enumerate(params):
            if i < len(args):
                env_locals[p] = args[i]
                if p in kwargs:
                    raise PyRaise("TypeError", node)
            elif p in kwargs:
                env_locals[p] = kwargs.pop(p)
            elif i >= n_nodef:
                env_locals[p] = self.eval(defaults[i - n_nodef], denv)
            else:
                raise PyRaise("TypeError", node, msg="missing argument %s of %s" % (p, f.qual))
        extra = args[len(params) :]
        if a.vararg is not None:
            env_locals[a.vararg.arg] = tuple(extra)
        elif extra:
            raise PyRaise("TypeError", node, msg="too many positional arguments for %s" % f.qual)
        for p, d in zip(a.kwonlyargs, a.kw_defaults):
            if p.arg in kwargs:
                env_locals[p.arg] = kwargs.pop(p.arg)
            elif d is not None:
                env_locals[p.arg] = self.eval(d, denv)
            else:
                raise PyRaise("TypeError", node)
        if a.kwarg is not None:
            env_locals[a.kwarg.arg] = SDict(kwargs)
        elif kwargs:
            raise PyRaise("TypeError", node, msg="unexpected keyword %s for %s" % (list(kwargs), f.qual))
        return env_locals

    def call_function(self, f, args, kwargs, node=None):
        # trusted stubs of repository functions that wrap native libraries (LAPACK): enabled per contract (``stubs``)
        st = getattr(self, "repo_stubs", None)
        if st and isinstance(f.node, ast.FunctionDef):
            key = f.qual
            if key in st:
                from . import lib

                self.assumption_notes.add("trusted stub for %s -- %s" % (key, lib.REPO_STUB_NOTES.get(key, "")))
                return lib.REPO_STUBS[key](self, args, kwargs, node)
        # modular reasoning: use the callee's contract when one is registered for modular use
        if self.registry is not None and isinstance(f.node, ast.FunctionDef):
            c = self.registry.modular_contract(f.qual)
            if c is not None and f.qual == getattr(self, "unit_target_qual", None) and self.depth == 0:
                c = None  # the function under verification is always executed, never replaced by a contract of its own
            # assumed stubs (``always_modular``) are scoped to the contract module they were written for (or that imports
            # them by name): importing some contract of another property must not switch that property's stubs on here
            if c is not None and getattr(c, "always_modular", False) and not self.modular and c.__module__ != getattr(self, "unit_module", c.__module__):
                import sys as _sys

                um = _sys.modules.get(getattr(self, "unit_module", ""))
                if um is None or getattr(um, c.__name__, None) is not c:  # imported by name = switched on deliberately
                    c = None
            if c is not None and c.key not in self.skip_contract_for and (self.modular or getattr(c, "always_modular", False)):
                return self.apply_contract(c, f, args, kwargs, node)
        if self.depth > MAX_CALL_DEPTH:
            raise Unsupported("call depth", node)
        locs = self.bind_args(f, args, kwargs, node)
        env = Env(f.module, locs, f.closure, f, f.defcls)
        self.note_function(f)
        self.depth += 1
        if not hasattr(self, "func_stack"):
            self.func_stack = []
        self.func_stack.append(f)
        try:
            if isinstance(f.node, ast.Lambda):
                return self.eval(f.node.body, env)
            try:
                self.exec_block(strip_docstring(f.node.body), env)
            except _Return as r:
                return r.v
            except PyRaise as ex:
                if not hasattr(ex, "where") and f.module.path.startswith(self.repo.root):
                    ex.where = f.node.name  # innermost repository function (stable obligation names)
                raise
            return None
        finally:
            self.depth -= 1
            self.func_stack.pop()

    def call_site_id(self, method, node):
        """stable name of a call site: '<function>#<k>' = k-th call of ``method`` in the enclosing repo function"""
        ln = getattr(node, "lineno", None)
        for f in reversed(getattr(self, "func_stack", [])):
            if isinstance(f.node, ast.FunctionDef) and f.module.path.startswith(self.repo.root):
                calls = sorted(
                    {(c.lineno, c.col_offset) for c in ast.walk(f.node) if isinstance(c, ast.Call) and isinstance(c.func, ast.Attribute) and c.func.attr == method}
                )
                for k, (l, co) in enumerate(calls):
                    if l == ln and co == getattr(node, "col_offset", co):
                        return "%s#%d" % (f.node.name, k + 1)
                for k, (l, co) in enumerate(calls):
                    if l == ln:
                        return "%s#%d" % (f.node.name, k + 1)
                return "%s#?" % f.node.name
        return "@%s" % ln

    def note_function(self, f):
        if isinstance(f.node, ast.FunctionDef) and f.module.path.startswith(self.repo.root):
            if f.qual not in self.func_usage:
                self.func_usage[f.qual] = {
                    "file": f.module.path,
                    "lines": [f.node.lineno, getattr(f.node, "end_lineno", f.node.lineno)],
                    "sha": fn_fingerprint(f.node),
                }

    def instantiate(self, info, args, kwargs, node=None):
        if info.is_subclass_of("Exception") or info.name in EXC_PARENTS:
            return ExtObj("exception", {"cls": info.name})
        decl = self.registry.decl_for_class(info) if self.registry else None
        o = SObj(info, {}, decl.name if decl else None)
        c, m = info.find_method("__init__")
        if m is not None:
            self.call_function(self.func_of_method(c, m), [o] + list(args), kwargs, node)
        elif any(ci.is_dataclass for ci in info.mro()):
            self.dataclass_init(o, info, args, kwargs, node)
        elif args or kwargs:
            raise PyRaise("TypeError", node)
        return o

    def dataclass_init(self, o, info, args, kwargs, node):
        fields = []
        for ci in reversed(info.mro()):
            if ci.is_dataclass:
                for nm, dv in ci.annotations:
                    fields = [(a, b, c) for (a, b, c) in fields if a != nm]
                    fields.append((nm, dv, ci))
        args = list(args)
        kwargs = dict(kwargs)
        for i, (nm, dv, ci) in enumerate(fields):
            if i < len(args):
                o.fields[nm] = args[i]
            elif nm in kwargs:
                o.fields[nm] = kwargs.pop(nm)
            elif dv is not None:
                v = self.eval(dv, Env(ci.module, {}, [], None, ci))
                o.fields[nm] = v
            else:
                raise PyRaise("TypeError", node, msg="dataclass field %s missing" % nm)
        if kwargs:
            raise PyRaise("TypeError", node)
        c, m = info.find_method("__post_init__")
        if m is not None:
            self.call_function(self.func_of_method(c, m), [o], {}, node)

    # ------------------------------------------------------------------ statements

    def exec_block(self, stmts, env):
        for s in stmts:
            self.exec(s, env)

    def exec(self, s, env):
        m = getattr(self, "s_" + type(s).__name__, None)
        if m is None:
            raise Unsupported("statement %s" % type(s).__name__, s)
        return m(s, env)

    def s_Expr(self, s, env):
        if isinstance(s.value, ast.Constant):
            return
        self.eval(s.value, env)

    def s_Pass(self, s, env):
        pass

    def s_Import(self, s, env):
        for a in s.names:
            local = a.asname or a.name.split(".")[0]
            target = a.name if a.asname else a.name.split(".")[0]
            env.locals[local] = ModRef(target) if self.repo.is_repo_module(target) else ExtRef(target)

    def s_ImportFrom(self, s, env):
        for a in s.names:
            mod = s.module or ""
            if self.repo.is_repo_module(mod):
                env.locals[a.asname or a.name] = self.lookup_global(a.name, self.repo.module(mod), s)
            else:
                env.locals[a.asname or a.name] = ExtRef(mod + "." + a.name)

    def s_Global(self, s, env):
        raise Unsupported("global statement", s)

    def s_Nonlocal(self, s, env):
        raise Unsupported("nonlocal statement", s)

    def s_Assign(self, s, env):
        v = self.eval(s.value, env)
        for t in s.targets:
            self.assign(t, v, env)

    def s_AnnAssign(self, s, env):
        if s.value is not None:
            self.assign(s.target, self.eval(s.value, env), env)

    def s_AugAssign(self, s, env):
        t = s.target
        if isinstance(t, ast.Name):
            cur = self.lookup(t.id, env, s)
            new = self.aug(s.op, cur, self.eval(s.value, env), s)
            self.store_name(t.id, new, env)
        elif isinstance(t, ast.Attribute):
            o = self.eval(t.value, env)
            cur = self.getattr(o, t.attr, s)
            self.setattr(o, t.attr, self.aug(s.op, cur, self.eval(s.value, env), s), s)
        elif isinstance(t, ast.Subscript):
            o = self.eval(t.value, env)
            k = self.eval_index(t.slice, env)
            cur = self.getitem(o, k, s)
            self.setitem(o, k, self.aug(s.op, cur, self.eval(s.value, env), s), s)
        else:
            raise Unsupported("augmented assignment target", s)

    def aug(self, op, cur, val, node):
        cur_f = self.force(cur, node)
        if isinstance(op, ast.Add) and isinstance(cur_f, SList):
            cur_f.items.extend(self.iter_concrete(val, node))
            self.note_write(cur_f)
            return cur_f
        return self.binop(op, cur_f, val, node)

    def store_name(self, name, v, env):
        if name in env.locals or not any(name in p for p in env.parents if p is not None):
            env.locals[name] = v
        else:
            # python would create a new local; closures assigning outer names need nonlocal (unsupported)
            env.locals[name] = v

    def assign(self, t, v, env):
        if isinstance(t, ast.Name):
            env.locals[t.id] = v
        elif isinstance(t, (ast.Tuple, ast.List)):
            v = self.force(v, t)
            items = self.iter_concrete(v, t)
            star = [i for i, e in enumerate(t.elts) if isinstance(e, ast.Starred)]
            if star:
                i = star[0]
                after = len(t.elts) - i - 1
                if len(items) < len(t.elts) - 1:
                    raise PyRaise("ValueError", t)
                for e, x in zip(t.elts[:i], items[:i]):
                    self.assign(e, x, env)
                self.assign(t.elts[i].value, SList(items[i : len(items) - after]), env)
                for e, x in zip(t.elts[i + 1 :], items[len(items) - after :]):
                    self.assign(e, x, env)
                return
            if len(items) != len(t.elts):
                raise PyRaise("ValueError", t)
            for e, x in zip(t.elts, items):
                self.assign(e, x, env)
        elif isinstance(t, ast.Attribute):
            self.setattr(self.eval(t.value, env), t.attr, v, t)
        elif isinstance(t, ast.Subscript):
            self.setitem(self.eval(t.value, env), self.eval_index(t.slice, env), v, t)
        else:
            raise Unsupported("assignment target %s" % type(t).__name__, t)

    def s_Delete(self, s, env):
        for t in s.targets:
            if isinstance(t, ast.Subscript):
                self.delitem(self.eval(t.value, env), self.eval_index(t.slice, env), s)
            elif isinstance(t, ast.Name):
                env.locals.pop(t.id, None)
            else:
                raise Unsupported("del target", s)

    def s_Return(self, s, env):
        raise _Return(self.eval(s.value, env) if s.value is not None else None)

    def s_Break(self, s, env):
        raise _Break()

    def s_Continue(self, s, env):
        raise _Continue()

    def s_If(self, s, env):
        t = self.truth(self.eval(s.test, env), s)
        if t if isinstance(t, bool) else self.branch(t, s):
            self.exec_block(s.body, env)
        else:
            self.exec_block(s.orelse, env)

    def s_Assert(self, s, env):
        t = self.truth(self.eval(s.test, env), s)
        if not (t if isinstance(t, bool) else self.branch(t, s)):
            raise PyRaise("AssertionError", s)

    def s_Raise(self, s, env):
        if s.exc is None:
            cur = getattr(env, "current_exc", None)
            if cur is None:
                for p in reversed(getattr(self, "exc_stack", [])):
                    cur = p
                    break
            if cur is None:
                raise Unsupported("bare raise outside handler", s)
            raise cur
        e = s.exc
        name = None
        if isinstance(e, ast.Call):
            fn = e.func
            name = fn.id if isinstance(fn, ast.Name) else (fn.attr if isinstance(fn, ast.Attribute) else None)
        elif isinstance(e, ast.Name):
            name = e.id
            if name in env.locals:
                v = env.locals[name]
                if isinstance(v, ExtObj) and v.kind == "exception":
                    name = v.data["cls"]
        if name is None:
            raise Unsupported("raise of computed exception", s)
        r = self.repo.resolve_import(env.module, name)
        if r is not None and r[0] == "class":
            ci = get_classinfo(self.repo, r[1], r[2])
            for c in ci.mro():
                for b in c.bases():
                    if not isinstance(b, ClassInfo) and b in EXC_PARENTS and name not in EXC_PARENTS:
                        EXC_PARENTS[name] = b
        ex = PyRaise(name, s)
        if isinstance(e, ast.Call):
            ex.msg_node = (e, env)
        raise ex

    def s_Try(self, s, env):
        pending = None
        try:
            try:
                self.exec_block(s.body, env)
            except PyRaise as ex:
                handled = False
                for h in s.handlers:
                    if h.type is None:
                        names = ["BaseException"]
                    elif isinstance(h.type, ast.Tuple):
                        names = [ast.unparse(x).split(".")[-1] for x in h.type.elts]
                    else:
                        names = [ast.unparse(h.type).split(".")[-1]]
                    if any(exc_isinstance(ex.cls, nm) for nm in names):
                        handled = True
                        if h.name:
                            env.locals[h.name] = ExtObj("exception", {"cls": ex.cls, "exc": ex})
                        if not hasattr(self, "exc_stack"):
                            self.exc_stack = []
                        self.exc_stack.append(ex)
                        try:
                            self.exec_block(h.body, env)
                        finally:
                            self.exc_stack.pop()
                        break
                if not handled:
                    raise
            else:
                self.exec_block(s.orelse, env)
        except (PyRaise, _Return, _Break, _Continue) as e:
            pending = e
        if s.finalbody:
            self.exec_block(s.finalbody, env)
        if pending is not None:
            raise pending

    def s_With(self, s, env):
        raise Unsupported("with statement", s)

    def s_FunctionDef(self, s, env):
        f = Func(s, env.module, closure=[env.locals] + env.parents, defcls=env.selfcls, qual="%s.<locals>.%s" % (env.func.qual if env.func else env.module.name, s.name))
        env.locals[s.name] = f

    def s_ClassDef(self, s, env):
        raise Unsupported("local class definition", s)

    # -- loops ---------------------------------------------------------------------------

    def loop_ordinal(self, s, env):
        if env.func is None or not isinstance(env.func.node, ast.FunctionDef):
            return None
        ls = loops_in(env.func.node)
        for i, l in enumerate(ls):
            if l is s:
                return i + 1
        return None

    def s_For(self, s, env):
        it = self.force(self.eval(s.iter, env), s)
        try:
            items = self.iter_concrete(it, s)
        except Unsupported:
            items = None
            if self.unbounded_source(it) is None:
                raise
        if items is not None:
            broke = False
            for x in items:
                self.assign(s.target, x, env)
                try:
                    self.exec_block(s.body, env)
                except _Break:
                    broke = True
                    break
                except _Continue:
                    continue
            if not broke:
                self.exec_block(s.orelse, env)
            return
        self.invariant_loop(s, env, self.unbounded_source(it))

    def s_While(self, s, env):
        # concrete unrolling as long as the guard is concrete; otherwise invariant
        count = 0
        while True:
            inv = self.find_invariant(s, env)
            if inv is not None:
                return self.invariant_loop(s, env, None)
            t = self.truth(self.eval(s.test, env), s)
            if not isinstance(t, bool):
                t2 = z3.simplify(t)
                if z3.is_true(t2):
                    t = True
                elif z3.is_false(t2):
                    t = False
                else:
                    if count > 64:
                        raise Unsupported("while loop with symbolic guard needs an invariant", s)
                    t = self.branch(t, s)
            if not t:
                self.exec_block(s.orelse, env)
                return
            count += 1
            if count > 2000:
                raise Unsupported("while loop does not terminate concretely", s)
            try:
                self.exec_block(s.body, env)
            except _Break:
                return
            except _Continue:
                continue

    def find_invariant(self, s, env):
        if env.func is None:
            return None
        o = self.loop_ordinal(s, env)
        return self.loop_inv.get((env.func.qual, o))

    def invariant_loop(self, s, env, seq):
        """Hoare rule for a loop with a sidecar invariant.
        for-loops over an unbounded sequence ``seq`` get a ghost counter k:
        the k-th iteration binds the target to seq[k]."""
        inv = self.find_invariant(s, env)
        o = self.loop_ordinal(s, env)
        fq = env.func.qual if env.func else "?"
        if inv is None:
            raise Unsupported("loop #%s of %s needs an invariant" % (o, fq), s)
        label = "%s/L%s" % (fq.split(":")[-1], o)
        is_for = isinstance(s, ast.For)
        n_t = seq.length if is_for else None

        def eval_inv(k):
            ns = dict(env.locals)
            for p in env.parents:
                for kk, vv in p.items():
                    ns.setdefault(kk, vv)
            ns["k"] = k
            if is_for:
                ns["seq"] = seq
            ns["old"] = getattr(self, "old_ns", None)
            return inv(self, Namespace(ns))

        # 1. invariant holds on entry (k = 0)
        k0 = 0
        self.check_clauses("%s/inv-entry" % label, eval_inv(k0), "inv-entry")
        # 2. havoc
        mod = assigned_names(s.body) + ([] if not is_for else assigned_names([ast.Assign(targets=[s.target], value=ast.Constant(0))]))
        which = self.choose(2, s)  # 0: loop exit, 1: arbitrary iteration
        hv = self.loop_havoc_spec(env, o)
        for name in mod:
            if name in env.locals:
                env.locals[name] = self.havoc_like(env.locals[name], name, hv.get(name))
            elif name in hv:
                env.locals[name] = self.fresh(hv[name], name)
        for path_expr, t in hv.items():
            if "." in path_expr or "[" in path_expr:
                self.havoc_path(env, path_expr, t)
        k = None
        if is_for:
            k = Sym(z3.Int(self.fresh_name("k")), "int")
            self.assume(z3.And(k.t >= 0, k.t <= n_t))
        self.assume_clauses(eval_inv(k))
        if which == 0:
            # exit: guard false
            if is_for:
                self.assume(k.t == n_t)
            else:
                t = self.truth(self.eval(s.test, env), s)
                self.assume(z3.Not(t) if not isinstance(t, bool) else (not t))
            self.exec_block(s.orelse, env)
            return
        # arbitrary iteration
        if is_for:
            self.assume(k.t < n_t)
            self.assign(s.target, self.index_nocheck(seq, k.t), env)
        else:
            t = self.truth(self.eval(s.test, env), s)
            self.assume(t)
        saved_writes = self.writes
        inner_writes = []
        self.writes = inner_writes
        try:
            try:
                self.exec_block(s.body, env)
            except _Continue:
                pass
            except _Break:
                return
            # reached the end of the body: heap writes must be covered by the havoc spec
            allowed = self.loop_write_allow(env, o)
            for w in inner_writes:
                if not any(w is a for a in allowed):
                    raise Unsupported("heap mutation inside invariant loop %s without frame declaration" % label, s)
        finally:
            self.writes = saved_writes
            if saved_writes is not None:
                saved_writes.extend(inner_writes)
        k1 = self.mk(k.t + 1, "int") if is_for else None
        self.check_clauses("%s/inv-step" % label, eval_inv(k1), "inv-step")
        raise _LoopStepDone()

    def loop_havoc_spec(self, env, o):
        c = self.current_contract
        fq = env.func.qual if env.func else None
        spec = self.registry.loop_havoc(fq, o) if self.registry else None
        return spec or {}

    def loop_write_allow(self, env, o):
        return getattr(self, "_loop_allowed", [])

    def havoc_path(self, env, path_expr, t):
        # "self.field" style paths: replace by a fresh value of type t
        parts = path_expr.split(".")
        o = env.locals[parts[0]]
        for p in parts[1:-1]:
            o = self.getattr(o, p)
        v = self.fresh(t, path_expr)
        o.fields[parts[-1]] = v
        self.note_write(o)
        if not hasattr(self, "_loop_allowed"):
            self._loop_allowed = []
        self._loop_allowed.append(o)
        self._loop_allowed.append(v)

    def havoc_like(self, v, name, t=None):
        if t is not None:
            return self.fresh(t, name)
        if isinstance(v, bool):
            return self.fresh_scalar("bool", name)
        k = self.kind_of(v)
        if k in ("int", "real", "bool", "str"):
            return self.fresh_scalar(k, name)
        if v is None:
            raise Unsupported("loop-modified variable %r is None before the loop: declare its type (loop_types)" % name)
        if isinstance(v, SOpt):
            return SOpt(z3.Bool(self.fresh_name(name + ".isnone")), self.havoc_like(v.val, name))
        if isinstance(v, tuple):
            return tuple(self.havoc_like(x, "%s.%d" % (name, i)) for i, x in enumerate(v))
        if isinstance(v, SObj):
            # the variable may be re-bound to another object of the same class
            o = SObj(v.cls, {f: self.havoc_like(x, "%s.%s" % (name, f)) for f, x in v.fields.items()}, v.declname)
            return o
        raise Unsupported("cannot havoc loop-modified variable %r of value %r (declare loop_types)" % (name, v))

    # -- clause helpers ----------------------------------------------------------------

    def clauses_of(self, v):
        """normalise the result of a contract function to [(label, z3 Bool|bool)]"""
        v = self.force(v)
        if isinstance(v, SDict):
            out = []
            for k, x in v.d.items():
                xf = self.force(x)
                if isinstance(xf, SDict):
                    for lab, t in self.clauses_of(xf):
                        out.append(("%s.%s" % (k, lab), t))
                else:
                    out.append((str(k), self.truth(x)))
            return out
        if isinstance(v, (SList, tuple)):
            items = v.items if isinstance(v, SList) else v
            return [(str(i), self.truth(x)) for i, x in enumerate(items)]
        return [("", self.truth(v))]

    def check_clauses(self, name, v, kind, info=None):
        for lab, t in self.clauses_of(v):
            nm = "%s[%s]" % (name, lab) if lab else name
            self.check(nm, t, kind, info)

    def assume_clauses(self, v):
        for lab, t in self.clauses_of(v):
            self.assume(t)



    # ------------------------------------------------------------------ misc helpers

    def builtin_method(self, o, name, node):
        from . import builtins as B

        return B.builtin_method(self, o, name, node)

    def sort_values(self, seq, key, reverse, node):
        """``sorted``: stable; reverse=True keeps the order of equal keys (CPython)"""
        rev = self.truth(reverse, node)
        if not isinstance(rev, bool):
            rev = self.branch(rev, node)
        items = self.iter_concrete(seq, node)
        keyed = [((self.call(key, [x], {}, node) if key is not None else x), x) for x in items]
        out = []
        for kx, x in keyed:
            pos = len(out)
            for p in range(len(out)):
                c = self.compare(ast.Lt() if rev else ast.Gt(), out[p][0], kx, node)
                if c if isinstance(c, bool) else self.branch(c.t, node):
                    pos = p
                    break
            out.insert(pos, (kx, x))
        return SList([x for _, x in out])

    def sum_unbounded(self, src, node):
        raise Unsupported("sum over an unbounded sequence", node)

    def isinstance_one(self, v, sp, node):
        v = self.force(v, node)
        name = None
        if isinstance(sp, NativeFn):
            name = getattr(sp, "pytype", None) or getattr(sp, "exc_name", None)
        elif isinstance(sp, ExtObj) and sp.kind == "pytype":
            name = sp.data["name"]
        elif isinstance(sp, ExtRef):
            name = sp.dotted
        if isinstance(sp, ClassRef):
            if isinstance(v, SObj) and v.cls is not None:
                return sp.info in v.cls.mro()
            if isinstance(v, AbstractObj):
                raise Unsupported("isinstance on abstract collaborator", node)
            return False
        k = self.kind_of(v)
        if isinstance(v, NanReal):
            k = "real"  # a float (possibly NaN)
        if name == "int":
            return k in ("int", "bool")
        if name == "float":
            return k == "real"
        if name == "bool":
            return k == "bool"
        if name == "str":
            return k == "str"
        if name in ("numbers.Number", "numbers.Real"):
            return k in ("int", "real", "bool")
        if name in ("numbers.Integral", "numpy.integer"):
            return k in ("int", "bool") if name == "numbers.Integral" else False
        if name == "numpy.ndarray":
            return type(v).__name__ == "SArr"
        if name in ("numpy.floating", "numpy.generic", "numpy.bool_"):
            return False
        if name == "dict":
            return isinstance(v, (SDict, SymMap))
        if name == "list":
            return isinstance(v, (SList, SymList))
        if name == "tuple":
            return isinstance(v, tuple)
        if name == "set":
            return isinstance(v, (SSet, SymSet))
        if name == "object":
            return True
        if name in ("typing.Callable", "collections.abc.Callable"):
            return isinstance(v, (Func, BoundMethod, NativeFn))
        raise Unsupported("isinstance against %r" % (sp,), node)

    # ------------------------------------------------------------------ modular calls

    def apply_contract(self, c, f, args, kwargs, node):
        """use callee contract ``c`` instead of its body: check pre, havoc frame, assume post"""
        locs = self.bind_args(f, args, kwargs, node)
        s = Namespace(locs)
        req = self.registry.contract_func(c, "requires")
        ens = self.registry.contract_func(c, "ensures")
        ln = getattr(node, "lineno", 0)
        short = c.target.split(":")[1]
        if req is not None:
            self.in_spec += 1
            try:
                r = self.call_function(req, [s], {}, node)
            finally:
                self.in_spec -= 1
            self.check_clauses("%s/call-pre[%s@%s]" % (getattr(self, "check_prefix", ""), short, self.call_site_id(short.split(".")[-1], node)), r, "call-pre")
            self.assume_clauses(r)
        old = self.snapshot(s)
        # exceptional exits allowed by the callee contract
        exc_spec = getattr(c, "raises", {}) or {}
        alts = list(exc_spec.items())
        for cls, cond in alts:
            if cond is True:
                take = self.choose(2, node)
                if take == 1:
                    raise PyRaise(cls, node)
            else:
                fn = self.registry.contract_func(c, cond)
                self.in_spec += 1
                try:
                    r = self.call_function(fn, [old], {}, node)
                finally:
                    self.in_spec -= 1
                ts = self.conj([t for _, t in self.clauses_of(r)])
                if ts if isinstance(ts, bool) else self.branch(ts, node):
                    raise PyRaise(cls, node)
        # frame
        for path, t in (getattr(c, "modifies", None) or {}).items():
            parts = path.split(".")
            o = locs[parts[0]]
            for p in parts[1:-1]:
                o = self.getattr(o, p, node)
            v = self.fresh(t, path)
            if isinstance(t, S.List) and t.sorted_key is not None:
                cur = self.force(o.fields[parts[-1]])
                v = SSorted(v, cur.key)
            if len(parts) == 1:
                raise Unsupported("modifies of a parameter binding", node)
            self.setattr(o, parts[-1], v, node)
        rt = getattr(c, "returns", None)
        result = self.fresh(rt, "ret." + short) if rt is not None else None
        if ens is not None:
            self.in_spec += 1
            try:
                r = self.call_function(ens, [old, s, result], {}, node)
            finally:
                self.in_spec -= 1
            self.assume_clauses(r)
        self.note_function(f)
        return result

    def call_abstract(self, o, name, args, kwargs, node):
        key = "iface:%s.%s" % (o.iface, name)
        c = None
        for cc in S.CONTRACTS.values():
            if cc.target == key:
                c = cc
                break
        if c is None:
            raise Unsupported("abstract call %s has no interface contract" % key, node)
        self.assumption_notes.add("iface:%s.%s -- assumed interface contract" % (o.iface, name))
        pnames = list(getattr(c, "params", {}).keys())
        locs = {"self": o}
        rest = [p for p in pnames if p != "self"]
        args = list(args)
        defaults = getattr(c, "defaults", {})
        for i, p in enumerate(rest):
            if i < len(args):
                locs[p] = args[i]
            elif p in kwargs:
                locs[p] = kwargs[p]
            elif p in defaults:
                locs[p] = defaults[p]
            else:
                raise PyRaise("TypeError", node, msg="abstract call %s: missing %s" % (key, p))
        s = Namespace(locs)
        s.d["G"] = getattr(self, "ghost_ns", None) or Namespace({})
        req = self.registry.contract_func(c, "requires")
        ens = self.registry.contract_func(c, "ensures")
        eff = self.registry.contract_func(c, "effect")
        ln = getattr(node, "lineno", 0)
        if req is not None:
            self.in_spec += 1
            try:
                r = self.call_function(req, [s], {}, node)
            finally:
                self.in_spec -= 1
            self.check_clauses("%s/call-pre[%s.%s@%s]" % (getattr(self, "check_prefix", ""), o.iface, name, self.call_site_id(name, node)), r, "call-pre")
            self.assume_clauses(r)
        old = self.snapshot(s)
        exc_spec = getattr(c, "raises", {}) or {}
        for cls, cond in exc_spec.items():
            if cond is True:
                if self.choose(2, node) == 1:
                    raise PyRaise(cls, node)
        if eff is not None:
            # ghost-state update written as ordinary (interpreted) code
            self.call_function(eff, [s], {}, node)
        rt = getattr(c, "returns", None)
        mk = self.registry.contract_func(c, "make_result")
        if mk is not None:
            # the result is computed by (interpreted) specification code, e.g. from ghost state
            result = self.call_function(mk, [s], {}, node)
        else:
            result = self.fresh(rt, "ret.%s.%s" % (o.iface, name), getattr(self, "shape", None)) if rt is not None else None
        if ens is not None:
            self.in_spec += 1
            try:
                r = self.call_function(ens, [old, s, result], {}, node)
            finally:
                self.in_spec -= 1
            self.assume_clauses(r)
        aft = self.registry.contract_func(c, "after")
        if aft is not None:
            self.call_function(aft, [s, result], {}, node)
        if mk is None:
            self.abstract_returns.append((o.iface, name, result))
        gs = getattr(self, "ghost_state", None)
        if gs is not None and "log" in gs:
            gs["log"].items.append(tuple(["%s.%s" % (o.iface, name)] + [locs[p] for p in rest] + [result]))
        return result


from .builtins import BUILTINS, SPEC_BUILTINS  # noqa: E402
