"""Contract registry and the per-function verification driver."""
import ast
import importlib
import json
import os
import subprocess
import sys
import tempfile
import time
import traceback
from fractions import Fraction

import z3

from . import spec as S
from .source import Repo, fn_fingerprint
from .values import *  # noqa
from .engine import *  # noqa
from .engine import _Return, _Break, _Continue, _LoopStepDone
from .interp import Machine, loops_in

VERIF_ROOT = os.path.dirname(os.path.dirname(os.path.abspath(__file__)))


class Registry:
    def __init__(self, repo, modules):
        self.repo = repo
        self.modules = {}
        self.spec_funcs = {}
        self.contract_asts = {}
        for mn in modules:
            self.load(mn)

    def load(self, modname):
        if modname in self.modules:
            return
        pym = importlib.import_module(modname)
        self.modules[modname] = pym
        ctx = self.repo.module(modname)
        for name, node in ctx.functions.items():
            self.spec_funcs[name] = Func(node, ctx, qual="%s:%s" % (modname, name))
        for name, node in ctx.classes.items():
            self.contract_asts[name] = (ctx, node)
        # contract modules may import other contract modules
        for local, imp in ctx.imports.items():
            if imp[0] == "from" and imp[1].startswith("contracts") and self.repo.is_repo_module(imp[1]):
                self.load(imp[1])
        for mod in ctx.star_imports:
            if mod.startswith("contracts") and self.repo.is_repo_module(mod):
                self.load(mod)

    def spec_function(self, name):
        if name not in self.spec_funcs:
            raise Unsupported("spec function %r not found" % name)
        return self.spec_funcs[name]

    def contract_func(self, ccls, fname):
        """Func for method ``fname`` of contract class ``ccls`` (searching bases)"""
        for k in ccls.__mro__:
            ent = self.contract_asts.get(k.__name__)
            if ent is None:
                continue
            ctx, node = ent
            for st in node.body:
                if isinstance(st, ast.FunctionDef) and st.name == fname:
                    return Func(st, ctx, qual="%s:%s.%s" % (ctx.name, k.__name__, fname))
        return None

    def modular_contract(self, qual):
        for c in S.CONTRACTS.values():
            if getattr(c, "modular", False) and c.target == qual:
                return c
        return None

    def decl_for_class(self, ci):
        tgt = ci.target()
        for d in S.CLASSES.values():
            if d.target == tgt:
                return d
        return None

    def loop_havoc(self, fq, ordinal):
        for c in S.CONTRACTS.values():
            if c.target == fq:
                lt = getattr(c, "loop_types", None)
                if lt and ordinal in lt:
                    return lt[ordinal]
        return None


class FnResult:
    def __init__(self, key):
        self.key = key
        self.obligations = []
        self.paths = 0
        self.normal_paths = 0
        self.raise_paths = 0
        self.unsupported = []
        self.error = None
        self.functions = {}
        self.notes = set()
        self.time = 0.0
        self.mode = None
        self.shape = None
        self.inputs_desc = None


def decode(m, v, model, depth=0):
    """value -> plain python (JSON-able) under a z3 model"""
    if depth > 12:
        return "<deep>"
    if isinstance(v, Sym):
        t = model.eval(v.t, model_completion=True)
        if v.k == "bool":
            return bool(z3.is_true(t))
        if v.k == "int":
            return t.as_long() if z3.is_int_value(t) else str(t)
        if v.k == "real":
            if z3.is_rational_value(t):
                fr = Fraction(t.numerator_as_long(), t.denominator_as_long())
                return {"__real__": str(fr), "approx": float(fr)}
            if z3.is_algebraic_value(t):
                return {"__real__": str(t.approx(12)), "approx": float(t.approx(12).as_fraction())}
            return {"__real__": str(t)}
        if v.k == "str":
            return str_from_code(t.as_long()) if z3.is_int_value(t) else str(t)
    if isinstance(v, bool) or v is None or isinstance(v, (int, str)):
        return v
    if isinstance(v, Fraction):
        return {"__real__": str(v), "approx": float(v)}
    if type(v).__name__ == "SArr":
        return {"__ndarray__": [decode(m, x, model, depth + 1) for x in v.data], "shape": list(v.shape)}
    if isinstance(v, NanReal):
        isn = v.isnan if isinstance(v.isnan, bool) else z3.is_true(model.eval(v.isnan, model_completion=True))
        if isn:
            return {"__nan__": True}
        return decode(m, v.val, model, depth + 1)
    if isinstance(v, SOpt):
        if z3.is_true(model.eval(v.isnone, model_completion=True)):
            return None
        return decode(m, v.val, model, depth + 1)
    if isinstance(v, tuple):
        return {"__tuple__": [decode(m, x, model, depth + 1) for x in v]}
    if isinstance(v, SObj):
        d = {"__class__": v.declname or v.clsname()}
        for f, x in v.fields.items():
            d[f] = decode(m, x, model, depth + 1)
        return d
    if isinstance(v, SList):
        return [decode(m, x, model, depth + 1) for x in v.items]
    if isinstance(v, SSorted):
        return {"__sortedlist__": decode(m, v.inner, model, depth + 1)}
    if isinstance(v, SymList):
        n = model.eval(v.length, model_completion=True)
        n = n.as_long() if z3.is_int_value(n) else 0
        out = []
        for i in range(min(n, 12)):
            m.nofork += 1
            try:
                out.append(decode(m, m.index_nocheck(v, z3.IntVal(i)), model, depth + 1))
            finally:
                m.nofork -= 1
        return out
    if isinstance(v, SDict):
        return {"__dict__": [[decode(m, k, model), decode(m, x, model, depth + 1)] for k, x in v.d.items()]}
    if isinstance(v, SADict):
        return {"__dict__": [[decode(m, k, model), decode(m, x, model, depth + 1)] for k, x in zip(v.keys, v.vals)]}
    if isinstance(v, (SymMap, SymSet)):
        # enumerate candidate keys: every integer the model mentions (bounded)
        cands = set(range(-8, 16))
        for d in model.decls():
            try:
                val = model[d]
                if z3.is_int_value(val):
                    cands.add(val.as_long())
                else:
                    import re as _re

                    for tok in _re.findall(r"-?\d+", str(val))[:200]:
                        if len(tok) < 9:
                            cands.add(int(tok))
            except Exception:
                pass
        keys = []
        for c in sorted(cands):
            if z3.is_true(model.eval(v.has(z3.IntVal(c)), model_completion=True)):
                keys.append(c)
        kt = getattr(v.ktype, "kind", "str")

        def kdec(c):
            return str_from_code(c) if kt == "str" else c

        if isinstance(v, SymSet):
            return {"__set__": [kdec(c) for c in keys]}
        out = []
        for c in keys:
            m.nofork += 1
            try:
                out.append([kdec(c), decode(m, v.get(z3.IntVal(c)), model, depth + 1)])
            finally:
                m.nofork -= 1
        return {"__dict__": out}
    if isinstance(v, SSet):
        return {"__set__": [decode(m, x, model) for x in v.s]}
    if isinstance(v, Namespace):
        return {k: decode(m, x, model, depth + 1) for k, x in v.d.items()}
    if isinstance(v, AbstractObj):
        return {"__abstract__": v.iface}
    return repr(v)


class Verifier:
    """verifies one contract (one function) in one mode/shape"""

    def __init__(self, repo, registry, timeout_ms=20000):
        self.repo = repo
        self.registry = registry
        self.timeout_ms = timeout_ms

    def target_func(self, m, target):
        mod, classes, node = self.repo.find(target)
        if classes:
            ci = get_classinfo(self.repo, mod, classes[-1], target.split(":")[1].rsplit(".", 1)[0])
            f = m.func_of_method(ci, node)
            # qual must agree with what calls through instances produce
            f.qual = "%s:%s.%s" % (mod.name, ci.qual, node.name)
        else:
            f = Func(node, mod, qual="%s:%s" % (mod.name, node.name))
        return f

    def assume_invariants(self, m, v, seen=None):
        if seen is None:
            seen = set()
        if id(v) in seen:
            return
        seen.add(id(v))
        if isinstance(v, SObj):
            for x in v.fields.values():
                self.assume_invariants(m, x, seen)
            decl = S.CLASSES.get(v.declname) if v.declname else None
            if decl is not None and decl.inv is not None:
                fn = self.registry.spec_function(decl.inv if isinstance(decl.inv, str) else decl.inv.__name__)
                m.in_spec += 1
                try:
                    m.assume_clauses(m.call_function(fn, [v], {}, None))
                finally:
                    m.in_spec -= 1
        elif isinstance(v, SList):
            for x in v.items:
                self.assume_invariants(m, x, seen)
        elif isinstance(v, SSorted):
            self.assume_invariants(m, v.inner, seen)
        elif isinstance(v, SDict):
            for x in v.d.values():
                self.assume_invariants(m, x, seen)
        elif isinstance(v, tuple):
            for x in v:
                self.assume_invariants(m, x, seen)
        elif isinstance(v, SOpt):
            # invariant of the payload only matters when present
            pass

    def reachable_ids(self, v, acc):
        if id(v) in acc:
            return acc
        if isinstance(v, SObj):
            acc.add(id(v))
            for x in v.fields.values():
                self.reachable_ids(x, acc)
        elif isinstance(v, (SList,)):
            acc.add(id(v))
            for x in v.items:
                self.reachable_ids(x, acc)
        elif isinstance(v, SSorted):
            acc.add(id(v))
            self.reachable_ids(v.inner, acc)
        elif isinstance(v, SDict):
            acc.add(id(v))
            for x in v.d.values():
                self.reachable_ids(x, acc)
        elif isinstance(v, (SymList, SymMap, SymSet, SSet)):
            acc.add(id(v))
        elif isinstance(v, tuple):
            for x in v:
                self.reachable_ids(x, acc)
        elif isinstance(v, SOpt):
            self.reachable_ids(v.val, acc)
        return acc

    def check_invariants(self, m, v, label, seen=None):
        if seen is None:
            seen = set()
        if id(v) in seen:
            return
        seen.add(id(v))
        if isinstance(v, SObj):
            for x in v.fields.values():
                self.check_invariants(m, x, label, seen)
            decl = S.CLASSES.get(v.declname) if v.declname else None
            if decl is not None and decl.inv is not None:
                written = getattr(m, "body_writes", None)
                if written is not None and v.owner is None:
                    # nothing reachable from this object was written on this path: the invariant
                    # assumed at entry still holds (frame argument, no solver needed)
                    reach = self.reachable_ids(v, set())
                    if not (reach & written) and id(v) in getattr(m, "entry_objs", ()):
                        m.stats["inv_skipped"] = m.stats.get("inv_skipped", 0) + 1
                        return
                fn = self.registry.spec_function(decl.inv if isinstance(decl.inv, str) else decl.inv.__name__)
                m.in_spec += 1
                try:
                    r = m.call_function(fn, [v], {}, None)
                finally:
                    m.in_spec -= 1
                m.check_clauses("%s/inv[%s]" % (label, decl.name), r, "inv")
        elif isinstance(v, SList):
            for x in v.items:
                self.check_invariants(m, x, label, seen)
        elif isinstance(v, SSorted):
            self.check_invariants(m, v.inner, label, seen)
        elif isinstance(v, SDict):
            for x in v.d.values():
                self.check_invariants(m, x, label, seen)

    def run(self, ccls, shape=None, prop=None, mode=None, prefixes=None, max_paths=None):
        """symbolically execute the target of contract ``ccls``; returns FnResult
        with undischarged obligations"""
        t0 = time.time()
        res = FnResult(ccls.key)
        res.shape = shape
        res.mode = "unbounded" if shape is None else "bounded"
        m = Machine(self.repo, self.registry)
        m.current_contract = ccls
        m.skip_contract_for = {ccls.key} | set(getattr(ccls, "inline", ()))
        m.unit_module = ccls.__module__
        m.unit_target_qual = ccls.target
        m.modular = (mode or ("unbounded" if shape is None else "bounded")) == "unbounded"
        label = (prop + "/" if prop else "") + ccls.target.split(":")[1]
        if getattr(ccls, "label", None):
            label = (prop + "/" if prop else "") + ccls.label
        m.check_prefix = label
        m.shape = shape
        # specifications are evaluated without forking where possible; contracts whose quantified clauses the
        # solvers only manage path by path switch this off (``spec_total = False``)
        m.spec_total = bool(getattr(ccls, "spec_total", True))
        m.calculus = bool(getattr(ccls, "calculus", False))
        m.total_ops = bool(getattr(ccls, "total_ops", False))
        m.repo_stubs = set(getattr(ccls, "stubs", ()) or ())
        m.concretize_ranges = not m.modular
        try:
            f = self.target_func(m, ccls.target)
        except Exception as e:
            res.error = "target not found: %s" % e
            return res
        res.functions[f.qual] = {"file": f.module.path, "lines": [f.node.lineno, f.node.end_lineno], "sha": fn_fingerprint(f.node)}
        # loop invariants (for the target and for inlined callees that registered some)
        for c in S.CONTRACTS.values():
            for ordn, fname in (getattr(c, "loops", None) or {}).items():
                fn = self.registry.contract_func(c, fname) if isinstance(fname, str) else None
                if fn is None:
                    continue
                m.loop_inv[(c.target, ordn)] = (lambda fn: (lambda mach, ns: mach.call_function(fn, [ns], {}, None)))(fn)
        req = self.registry.contract_func(ccls, "requires")
        ens = self.registry.contract_func(ccls, "ensures")
        exc_spec = getattr(ccls, "raises", {}) or {}
        params = getattr(ccls, "params", {})
        m.worklist = [list(p) for p in prefixes] if prefixes else [[]]
        seen_prefixes = set()
        res.leftover = []
        while m.worklist:
            if max_paths is not None and res.paths >= max_paths:
                res.leftover = [list(p) for p in m.worklist]
                break
            dec = m.worklist.pop()
            key = tuple(dec)
            if key in seen_prefixes:
                continue
            seen_prefixes.add(key)
            if res.paths >= MAX_PATHS:
                res.unsupported.append("path limit %d reached" % MAX_PATHS)
                break
            res.paths += 1
            m.reset_path(dec)
            m._loop_allowed = []
            try:
                # 1. inputs
                ns = {}
                for pname, pt in params.items():
                    if shape and pname in shape and isinstance(pt, S._Scalar):
                        ns[pname] = shape[pname]  # scalar fixed by the shape of this unit
                    else:
                        ns[pname] = m.fresh(pt, pname, shape)
                m.ghost_state = None
                if getattr(ccls, "ghost", None):
                    m.ghost_state = {g: m.fresh(gt, "ghost." + g, shape) for g, gt in ccls.ghost.items()}
                    m.ghost_state["log"] = SList([])
                    m.ghost_ns = Namespace(m.ghost_state)
                    m.ghost_state = m.ghost_ns.d
                    ns["G"] = m.ghost_ns
                    m.ghost_initial = m.snapshot(Namespace({k: v for k, v in m.ghost_state.items() if k != "log"}))
                s = Namespace(ns)
                for v in ns.values():
                    self.assume_invariants(m, v)
                if req is not None:
                    m.in_spec += 1
                    try:
                        m.assume_clauses(m.call_function(req, [s], {}, None))
                    finally:
                        m.in_spec -= 1
                if not m.pc_feasible():
                    raise PathInfeasible()
                old = m.snapshot(s)
                m.old_ns = old
                if res.inputs_desc is None:
                    res.inputs_desc = {k: repr(t) for k, t in params.items()}
                m.input_ns = old
                # 2. body
                outcome = None
                result = None
                try:
                    args = [ns[p] for p in params if not p.startswith("_g_")]
                    kwargs = {}
                    argnames = [a.arg for a in f.node.args.posonlyargs + f.node.args.args]
                    pos = []
                    for p in params:
                        if p in argnames:
                            pos.append(p)
                        else:
                            kwargs[p] = ns[p]
                    # keep positional order of the signature
                    ordered = [p for p in argnames if p in pos]
                    call_args = []
                    for p in argnames:
                        if p in params:
                            call_args.append(ns[p])
                        else:
                            break
                    for p in argnames[len(call_args) :]:
                        if p in params:
                            kwargs[p] = ns[p]
                    if f.node.args.kwarg is not None:
                        for p in params:
                            if p not in argnames and p != "G":
                                kwargs[p] = ns[p]  # passed through **kwargs
                    m.writes = []
                    m.entry_objs = set()
                    for v in ns.values():
                        self.reachable_ids(v, m.entry_objs)
                    result = m.call_function(f, call_args, kwargs, None)
                    outcome = "normal"
                except PyRaise as ex:
                    outcome = ex
                m.body_writes = set(id(w) for w in (m.writes or []))
                m.writes = None
                # 3. postconditions
                if outcome == "normal":
                    res.normal_paths += 1
                    if ens is not None:
                        m.in_spec += 1
                        try:
                            r = m.call_function(ens, [old, s, result], {}, None)
                        finally:
                            m.in_spec -= 1
                        m.check_clauses(label + "/post", r, "post")
                    for v in ns.values():
                        self.check_invariants(m, v, label)
                else:
                    ex = outcome
                    res.raise_paths += 1
                    allowed = exc_spec.get(ex.cls)
                    ln = getattr(ex, "where", None) or getattr(ex.node, "lineno", 0)
                    if allowed is None:
                        m.check("%s/no-raise[%s@%s]" % (label, ex.cls, ln), False, "no-raise", {"exc": ex.cls, "line": ln, "msg": ex.msg})
                    elif allowed is True:
                        pass
                    else:
                        fn = self.registry.contract_func(ccls, allowed)
                        m.in_spec += 1
                        try:
                            nargs = len(fn.node.args.args)
                            r = m.call_function(fn, [old, s][:nargs] if nargs >= 2 else [old], {}, None)
                        finally:
                            m.in_spec -= 1
                        m.check_clauses("%s/raises[%s@%s]" % (label, ex.cls, ln), r, "raises", {"exc": ex.cls, "line": ln})
            except PathInfeasible:
                m.stats["infeasible"] += 1
            except _LoopStepDone:
                pass
            except Unsupported as u:
                msg = str(u)
                if msg not in res.unsupported:
                    res.unsupported.append(msg)
                    if os.environ.get("PYVC_DEBUG"):
                        traceback.print_exc()
            except (_Break, _Continue, _Return):
                res.unsupported.append("stray control flow")
            except RecursionError:
                res.unsupported.append("recursion limit")
            for ob in m.obligations:
                ob.machine = m
            res.obligations.extend(m.obligations)
            m.obligations = []
            res.notes |= m.assumption_notes
        res.functions.update(m.func_usage)
        res.machine = m
        res.time = time.time() - t0
        return res


# ---------------------------------------------------------------------------
# discharge
# ---------------------------------------------------------------------------


def solve(pc, goal, timeout_ms, want_model=True, fallback=True):
    """-> (status, model|None, seconds, backend)   status: proved | refuted | unknown"""
    t0 = time.time()
    from . import analytic

    if analytic.contains_analytic(goal):
        # derivative / closed-form claims are free predicates for z3: they are decided by the analytic back end only
        if not fallback:
            return "unknown", None, 0.0, "sympy"
        st, mdl, dt, be, info = analytic.solve(pc, goal, timeout_ms)
        solve.last_info = info
        return st, mdl, dt, be
    s = z3.Solver()
    s.set("timeout", timeout_ms)
    for c in pc:
        s.add(c)
    s.add(z3.Not(goal))
    r = s.check()
    dt = time.time() - t0
    if r == z3.unsat:
        return "proved", None, dt, "z3"
    if r == z3.sat:
        return "refuted", s.model(), dt, "z3"
    if not fallback:
        return "unknown", None, dt, "z3"
    # z3 unknown: try cvc5 through SMT-LIB text
    st = cvc5_check(s, timeout_ms)
    dt = time.time() - t0
    if st == "unsat":
        return "proved", None, dt, "cvc5"
    if st == "sat":
        return "refuted", None, dt, "cvc5"
    return "unknown", None, dt, "z3+cvc5"


def cvc5_check(solver, timeout_ms):
    try:
        txt = solver.to_smt2()
    except Exception:
        return "unknown"
    fd, path = tempfile.mkstemp(suffix=".smt2", dir="/var/tmp")
    os.close(fd)
    try:
        with open(path, "w") as fh:
            fh.write("(set-logic ALL)\n" + txt)
        p = subprocess.run(["/usr/bin/cvc5", "--tlimit=%d" % timeout_ms, "--full-saturate-quant", path], stdout=subprocess.PIPE, stderr=subprocess.PIPE, text=True, timeout=timeout_ms / 1000 + 10)
        out = p.stdout.strip().splitlines()
        return out[0] if out and out[0] in ("sat", "unsat") else "unknown"
    except Exception:
        return "unknown"
    finally:
        try:
            os.unlink(path)
        except OSError:
            pass


def discharge(res, timeout_ms=20000, unit_budget_s=None):
    """solve every obligation of a FnResult in two passes: a quick pass (2 s per query, z3 only) over
    everything, then the open ones again with the full timeout and the cvc5 fallback, as long as the unit's
    time budget lasts.  Once a clause is refuted on one path the remaining paths of the same clause are
    skipped (the verdict cannot improve); after two ``unknown`` answers of the full pass for a clause the
    rest of that clause is reported unknown without calling the solver."""
    t0 = time.time()
    refuted_names = set()
    unknown_ct = {}
    if unit_budget_s is None:
        unit_budget_s = 12 * timeout_ms / 1000.0

    def record(ob, st, model, dt, be):
        ob.status, ob.backend = st, be
        ob.time = getattr(ob, "time", 0.0) + dt
        if st == "refuted":
            refuted_names.add(ob.name)
            if model is not None:
                m = ob.machine
                try:
                    ob.witness = decode(m, m.input_ns, model)
                    if isinstance(ob.witness, dict):
                        ob.witness.pop("G", None)
                        if getattr(ob, "abs_returns", None):
                            ob.witness["__abstract_returns__"] = [[i, n, decode(m, r, model)] for i, n, r in ob.abs_returns]
                        if getattr(ob, "ghost0", None) is not None:
                            ob.witness["__ghost__"] = decode(m, ob.ghost0, model)
                except Exception as e:  # decoding must never turn into a verdict
                    ob.witness = {"__decode_error__": repr(e)}

    quick_ms = min(2000, timeout_ms)
    pending = []
    for ob in res.obligations:
        ob.witness = None
        ob.time = 0.0
        if ob.name in refuted_names:
            ob.status, ob.backend = "skipped", "skipped"
            continue
        st, model, dt, be = solve(ob.pc, ob.goal, quick_ms, fallback=False)
        record(ob, st, model, dt, be)
        if st == "unknown":
            pending.append(ob)
    for ob in pending:
        if ob.name in refuted_names:
            ob.status, ob.backend = "skipped", "skipped"
            continue
        if unknown_ct.get(ob.name, 0) >= 2 or (time.time() - t0) > unit_budget_s:
            ob.status, ob.backend = "unknown", "budget"
            continue
        solve.last_info = None
        st, model, dt, be = solve(ob.pc, ob.goal, timeout_ms)
        record(ob, st, model, dt, be)
        if solve.last_info:
            ob.solver_info = solve.last_info
        if st == "unknown":
            unknown_ct[ob.name] = unknown_ct.get(ob.name, 0) + 1
    return res
