"""Property-level check: plan units, run, aggregate, replay, evidence, exit code."""
import importlib
import json
import os
import re
import sys
import time
import traceback

from . import driver as D
from .driver import VERIF, REPO_ROOT, EXIT_HELD, EXIT_VIOLATION, EXIT_UNDECIDED, EXIT_FAULT

ALL_PROPS = ["C%02d" % i for i in range(1, 21)]


def load_known_findings():
    p = os.path.join(VERIF, "known_findings.json")
    if not os.path.isfile(p):
        return {"findings": [], "fixed": []}
    return json.load(open(p))


def kf_match(kf, prop, obname):
    for f in kf.get("findings", []):
        if f.get("property") != prop:
            continue
        pat = f.get("obligation")
        if pat == obname or (f.get("regex") and re.fullmatch(pat, obname)):
            return f
    return None


def list_contracts():
    from . import spec as S

    for p in ALL_PROPS:
        try:
            importlib.import_module("contracts." + p.lower())
        except ModuleNotFoundError:
            continue
    byp = {}
    for key, c in S.CONTRACTS.items():
        for p in getattr(c, "props", ()):
            byp.setdefault(p, []).append(key)
    for p in sorted(byp):
        print(p)
        for k in byp[p]:
            print("   ", k)


def check_property(prop, tier="quick", jobs=None, verbose=False):
    t0 = time.time()
    seed = int(os.environ.get("VERIF_SEED", "0") or 0)
    evid_path = os.path.join(os.environ.get("PYVC_OUT_DIR", VERIF), "evidence", prop + ".json")
    os.makedirs(os.path.dirname(evid_path), exist_ok=True)
    try:
        if os.path.exists(evid_path):
            os.unlink(evid_path)
    except OSError:
        pass
    try:
        return _check(prop, tier, jobs, verbose, seed, t0, evid_path)
    except SystemExit:
        raise
    except Exception:
        traceback.print_exc()
        print("CHECKER-FAULT property=%s (see traceback)" % prop)
        return EXIT_FAULT


def _check(prop, tier, jobs, verbose, seed, t0, evid_path):
    from . import spec as S

    modname = "contracts." + prop.lower()
    try:
        pym = importlib.import_module(modname)
    except ModuleNotFoundError as e:
        print("no contracts for %s: %s" % (prop, e))
        return EXIT_FAULT
    units = D.plan_units(prop, modname, tier)
    extra = getattr(pym, "EXTRA_CHECKS", [])
    if not units and not extra:
        print("CHECKER-FAULT property=%s: zero obligations planned" % prop)
        return EXIT_FAULT
    results = D.run_units(prop, modname, units, tier, jobs) if units else []
    kf = load_known_findings()

    # ---- aggregate -----------------------------------------------------------------
    faults = []
    unb = {}  # obligation name -> aggregate (unbounded mode)
    bnd = {}  # obligation name -> aggregate (bounded mode)
    refuted = []  # (unit result, obligation dict)
    functions = {}
    notes = set()
    degraded = {}
    backends = {}
    solver_time = 0.0
    n_queries = 0
    canaries = {"refuted": 0, "other": 0}
    covers = {}
    for r in results:
        c = S.CONTRACTS[r["key"]]
        mode = r["mode"]
        if r["error"]:
            if "target not found" in str(r["error"]):
                degraded.setdefault(r["key"], []).append("target not found: " + str(r["error"]))
            else:
                faults.append("%s shape=%s: %s" % (r["key"], r["shape"], r["error"]))
            continue
        functions.update(r["functions"])
        notes.update(r["notes"])
        if r["unsupported"]:
            if mode == "unbounded":
                degraded.setdefault(r["key"], []).extend(r["unsupported"])
            else:
                degraded.setdefault(r["key"] + "@bounded%s" % (r["shape"],), []).extend(r["unsupported"])
        cv = covers.setdefault(r["key"], {"normal": 0, "raise": 0, "paths": 0})
        cv["normal"] += r["normal_paths"]
        cv["raise"] += r["raise_paths"]
        cv["paths"] += r["paths"]
        if r.get("canary") == "refuted":
            canaries["refuted"] += 1
        elif r.get("canary") == "proved":
            # ``False`` follows from the assumptions of a reachable obligation: contradictory contract
            canaries["other"] += 1
        elif r.get("canary") == "unknown":
            canaries["inconclusive"] = canaries.get("inconclusive", 0) + 1
        for ob in r["obligations"]:
            n_queries += 1
            solver_time += ob["time"]
            backends.setdefault(ob["backend"], {"queries": 0, "seconds": 0.0})
            backends[ob["backend"]]["queries"] += 1
            backends[ob["backend"]]["seconds"] += ob["time"]
            tbl = unb if mode == "unbounded" else bnd
            ag = tbl.setdefault(ob["name"], {"queries": 0, "proved": 0, "refuted": 0, "unknown": 0, "skipped": 0, "time": 0.0, "kind": ob["kind"], "contract": r["key"], "partial": False})
            ag["queries"] += 1
            ag[ob["status"]] += 1
            ag["time"] += ob["time"]
            if ob["status"] == "refuted":
                refuted.append((r, ob))
        if mode == "unbounded" and r["unsupported"]:
            for ob in r["obligations"]:
                unb[ob["name"]]["partial"] = True

    # contracts whose unbounded run left the subset: all their obligations are only bounded
    # vacuity: every contract must have reached at least one normal end (unless it says otherwise)
    for key, cv in covers.items():
        c = S.CONTRACTS[key]
        has_refuted = any(r["key"] == key for r, ob in refuted)
        if cv["normal"] == 0 and not getattr(c, "expect_no_normal_exit", False) and key not in degraded and not has_refuted:
            faults.append("vacuity: contract %s reached no normal exit (contradictory requires?)" % key)
    if canaries["other"]:
        faults.append("vacuity canary: in %d unit(s) False is provable from the assumptions (contradictory contract)" % canaries["other"])

    # ---- extra (non-pyvc) checks registered by the contract module -------------------
    extra_results = []
    for fn in extra:
        try:
            er = fn(tier=tier, seed=seed, repo=REPO_ROOT)
        except Exception as e:
            faults.append("extra check %s crashed: %s\n%s" % (getattr(fn, "__name__", fn), e, traceback.format_exc()))
            continue
        extra_results.append(er)

    # ---- violations -------------------------------------------------------------------
    violations = []  # (obligation name, replay path, reproduced, text)
    known = []
    seen_names = set()
    # prefer small bounded witnesses
    def _shape_size(sh):
        tot = 0
        for v in (sh or {}).values():
            if isinstance(v, (list, tuple)):
                p = 1
                for x in v:
                    p *= max(int(x), 1)
                tot += p
            elif isinstance(v, int):
                tot += v
        return tot

    refuted.sort(key=lambda ro: (ro[0]["mode"] == "unbounded", _shape_size(ro[0]["shape"])))
    replay_dir = os.path.join(os.environ.get("PYVC_OUT_DIR", VERIF), "replays", prop)
    for r, ob in refuted:
        if ob["name"] in seen_names:
            continue
        seen_names.add(ob["name"])
        path, nat = D.native_replay(prop, modname, r["key"], r["shape"], ob, replay_dir)
        f = kf_match(kf, prop, ob["name"])
        ent = {"obligation": ob["name"], "replay": path, "reproduced": bool(nat.get("reproduced")), "native": nat, "mode": "%s%s" % (r["mode"], r["shape"] or "")}
        if f is not None:
            ent["finding"] = f.get("id")
            known.append(ent)
        else:
            violations.append(ent)
    for er in extra_results:
        for v in er.get("violations", []):
            f = kf_match(kf, prop, v["obligation"])
            if f is not None:
                v["finding"] = f.get("id")
                known.append(v)
            else:
                violations.append(v)
        faults.extend(er.get("faults", []))

    # ---- verdict -------------------------------------------------------------------------
    known_names = {k["obligation"] for k in known}
    viol_names = {v["obligation"] for v in violations}
    ob_total = {n: a for n, a in unb.items() if n not in known_names}
    discharged = {n: a for n, a in ob_total.items() if a["refuted"] == 0 and a["unknown"] == 0 and not a["partial"]}
    undecided = {n: a for n, a in ob_total.items() if a["unknown"] > 0 and a["refuted"] == 0}
    bounded_total = {n: a for n, a in bnd.items() if n not in known_names}
    bounded_ok = {n: a for n, a in bounded_total.items() if a["refuted"] == 0 and a["unknown"] == 0}
    bounded_undecided = {n: a for n, a in bounded_total.items() if a["unknown"] > 0 and a["refuted"] == 0}
    for er in extra_results:
        for n, st in er.get("obligations", {}).items():
            if n in known_names:
                continue
            tgt = ob_total if er.get("counts_as") == "proof" else bounded_total
            tgt[n] = {"queries": 1, "proved": int(st == "proved"), "refuted": int(st == "refuted"), "unknown": int(st == "unknown"), "time": 0.0, "kind": er.get("kind", "extra"), "contract": er.get("name", "extra"), "partial": False}
            if st == "proved":
                (discharged if er.get("counts_as") == "proof" else bounded_ok)[n] = tgt[n]
            elif st == "unknown":
                (undecided if er.get("counts_as") == "proof" else bounded_undecided)[n] = tgt[n]

    for k in known:
        print("KNOWN-FINDING: property=%s %s -- %s" % (prop, k["obligation"], (kf_match(kf, prop, k["obligation"]) or {}).get("text", "")))
    for v in violations:
        tail = "" if v.get("reproduced") else " no-failing-input-found"
        print("  failing obligation: %s" % v["obligation"])
        print("VIOLATION property=%s replay=%s%s" % (prop, v["replay"], tail))

    level = getattr(pym, "LEVEL", "proof")
    wall = time.time() - t0
    samples = []
    for n, a in list(ob_total.items())[:6]:
        samples.append({"obligation": n, "mode": "unbounded", "queries": a["queries"], "status": "discharged" if n in discharged else "open", "solver_s": round(a["time"], 3)})
    for n, a in list(bounded_total.items())[:4]:
        samples.append({"obligation": n, "mode": "bounded", "queries": a["queries"], "status": "ok" if n in bounded_ok else "open", "solver_s": round(a["time"], 3)})
    shapes_used = sorted({json.dumps(r["shape"], sort_keys=True) for r in results if r["mode"] == "bounded"})
    proof_dims = sorted({"%s: %s" % (r["key"].split(":")[1], json.dumps(r["shape"], sort_keys=True)) for r in results if r["mode"] == "unbounded" and r["shape"]})
    from . import lib as L

    trusted = sorted(n for n in notes if n.startswith("lib:") or n.startswith("A-"))
    assumptions = sorted(notes) + list(getattr(pym, "ASSUMPTIONS", []))
    for er in extra_results:
        assumptions.extend(er.get("assumptions", []))
    only_bounded = sorted(set(bounded_total) - set(ob_total))
    cov = {
        "obligations": len(ob_total),
        "discharged": len(discharged),
        "checker_cmd": "./vf check %s --tier %s" % (prop, tier),
        "trusted_base": trusted + ["pyvc encoding of the Python subset (DESIGN 2.2)", "z3 4.x/5.x, cvc5 1.0 CLI"],
        "evaluations": n_queries + sum(er.get("evaluations", 0) for er in extra_results),
        "distinct_nontrivial": len(ob_total) + len(bounded_total) + sum(er.get("distinct_nontrivial", 0) for er in extra_results),
        "rule": "one evaluation = one solver query (path condition => named clause) or one native case of an extra check; distinct = distinct obligation names (function/clause), counted once per mode; a query is non-trivial when its path condition was found satisfiable (feasible path)",
        "samples": samples + [s for er in extra_results for s in er.get("samples", [])][:6],
        "functions_under_contract": functions,
        "backends": {k: {"queries": v["queries"], "seconds": round(v["seconds"], 3)} for k, v in backends.items()},
        "solver_seconds": round(solver_time, 3),
        "bounded": {
            "obligations": len(bounded_total),
            "ok": len(bounded_ok),
            "shapes": shapes_used,
            "note": "same contracts, concrete collection shapes, symbolic contents; stand-in, not counted in discharged",
            "only_bounded": only_bounded[:200],
        },
        "proof_units_with_concrete_dimensions": proof_dims,
        "undecided": sorted(undecided)[:100],
        "degraded_to_bounded": degraded,
        "vacuity": {"covers": covers, "canaries_refuted": canaries["refuted"], "canaries_failed": canaries["other"]},
        "known_findings": [{"obligation": k["obligation"], "finding": k.get("finding"), "reproduced": k.get("reproduced"), "replay": k.get("replay")} for k in known],
        "extra_checks": [{k: v for k, v in er.items() if k in ("name", "kind", "counts_as", "evaluations", "distinct_nontrivial", "summary", "bound")} for er in extra_results],
        "dropped_by_extraction": "docstrings, annotations, comments, logger/warnings/print calls, assertion messages (DESIGN 2.1)",
        "explanation": getattr(pym, "EXPLANATION", ""),
    }
    if level == "proof" and (len(ob_total) == 0 or len(discharged) != len(ob_total)):
        # an honest downgrade: not every unbounded obligation is discharged in this run
        level_out = "exploration" if cov["distinct_nontrivial"] >= 2 and cov["evaluations"] >= 1 else "other"
    else:
        level_out = level
    evid = {
        "property_id": prop,
        "tier": tier,
        "seed": seed,
        "level": level_out,
        "coverage": cov,
        "assumptions": assumptions,
        "wall_s": round(wall, 2),
        "violations": len(violations),
    }
    with open(evid_path, "w") as fh:
        json.dump(evid, fh, indent=1, default=str)

    print(
        "%s tier=%s: unbounded obligations %d discharged %d | bounded %d ok %d | known findings %d | violations %d | undecided %d | degraded %d | %.1fs"
        % (prop, tier, len(ob_total), len(discharged), len(bounded_total), len(bounded_ok), len(known), len(violations), len(undecided) + len(bounded_undecided), len(degraded), wall)
    )
    if verbose or faults or undecided or degraded:
        for f in faults:
            print("  FAULT:", f)
        for n in sorted(undecided):
            print("  UNDECIDED:", n)
        for n in sorted(bounded_undecided):
            print("  UNDECIDED(bounded):", n)
        for k, v in degraded.items():
            print("  DEGRADED:", k, "->", "; ".join(sorted(set(v)))[:400])
    if verbose:
        for n, a in sorted(ob_total.items()):
            print("  %-90s %s q=%d %.2fs" % (n, "ok" if n in discharged else "OPEN", a["queries"], a["time"]))
    if violations:
        return EXIT_VIOLATION
    if faults:
        return EXIT_FAULT
    if undecided or bounded_undecided:
        return EXIT_UNDECIDED
    if any("@bounded" in k for k in degraded):
        # a bounded unit left the verified subset on some path: those paths produced no obligations, so "held" cannot
        # be claimed (on the unchanged tree no unit is degraded)
        print("  UNDECIDED: %d bounded unit(s) left the verified subset" % sum(1 for k in degraded if "@bounded" in k))
        return EXIT_UNDECIDED
    strict = getattr(pym, "REQUIRE_UNBOUNDED", [])
    for key in strict:
        if key in degraded:
            print("  UNDECIDED: contract %s left the verified subset" % key)
            return EXIT_UNDECIDED
    return EXIT_HELD
