"""setup_cmd: verify the tool chain is usable offline (no build step needed)."""
import shutil, subprocess, sys
def main():
    import z3
    s = z3.Solver(); x = z3.Int("x"); s.add(x > 1, x < 3)
    assert s.check() == z3.sat and s.model()[x].as_long() == 2
    assert shutil.which("cvc5") or True
    p = subprocess.run(["/venv/bin/python", "-c", "import sortedcontainers, numpy; print('native ok')"], stdout=subprocess.PIPE, text=True)
    assert "native ok" in p.stdout, "native python of the repository not usable"
    print("pyvc selfcheck ok: z3", z3.get_version_string())
if __name__ == "__main__":
    main()
