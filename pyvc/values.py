"""Symbolic values of the pyvc executor.

Concrete Python values are used wherever a value is concrete:
  int, bool, str, None, fractions.Fraction (for float literals: A-REAL), tuple.
Symbolic scalars are ``Sym``; everything mutable is a wrapper object so that
Python reference semantics (aliasing) is inherited from object identity.
"""
from fractions import Fraction
import z3


class Unsupported(Exception):
    """construct outside the verified subset -> obligation undecided"""

    def __init__(self, why, node=None):
        Exception.__init__(self, why)
        self.why = why
        self.node = node

    def __str__(self):
        ln = getattr(self.node, "lineno", None)
        return "%s%s" % (self.why, (" @line %s" % ln) if ln else "")


class Sym:
    """symbolic scalar: z3 term + kind in {int, real, bool, str}"""

    __slots__ = ("t", "k")

    def __init__(self, t, k):
        self.t = t
        self.k = k

    def __repr__(self):
        return "Sym<%s:%s>" % (self.k, self.t)


class NanReal:
    """float that may be NaN: NaN when ``isnan`` (z3 Bool | python bool) else the real ``val``"""

    __slots__ = ("isnan", "val")

    def __init__(self, isnan, val):
        self.isnan = isnan
        self.val = val

    def __repr__(self):
        return "NanReal<%s ? nan : %r>" % (self.isnan, self.val)


class SOpt:
    """Optional[...]: None when ``isnone`` else ``val``"""

    __slots__ = ("isnone", "val")

    def __init__(self, isnone, val):
        self.isnone = isnone
        self.val = val

    def __repr__(self):
        return "SOpt<%s ? None : %r>" % (self.isnone, self.val)


class SObj:
    """instance of a (repo or declared) class"""

    def __init__(self, cls, fields=None, declname=None):
        self.cls = cls  # ClassInfo or None
        self.fields = fields if fields is not None else {}
        self.declname = declname
        self.owner = None  # (container, index, version) for write-through views
        self.tag = None
        self.from_decl = False  # symbolic input built from a class declaration (only declared fields exist)

    def __repr__(self):
        return "SObj<%s %s>" % (self.clsname(), list(self.fields))

    def clsname(self):
        if self.cls is not None:
            return self.cls.name
        return self.declname or "?"


class SList:
    """list of concrete shape (python list of values)"""

    def __init__(self, items=None):
        self.items = list(items) if items is not None else []

    def __repr__(self):
        return "SList%r" % (self.items,)


class SymList:
    """list of symbolic length: ``length`` (z3 Int) and ``getter(i) -> value``.
    Mutations replace ``length``/``getter`` (functional update)."""

    def __init__(self, etype, length, getter):
        self.etype = etype
        self.length = length
        self.getter = getter
        self.version = 0

    def __repr__(self):
        return "SymList<len=%s>" % (self.length,)


class SDict:
    """dict with concrete (literal) keys, insertion ordered"""

    def __init__(self, d=None):
        self.d = dict(d) if d is not None else {}

    def __repr__(self):
        return "SDict%r" % (self.d,)


class SADict:
    """dict of concrete size whose keys may be symbolic scalars (pairwise distinct by construction);
    insertion ordered association list"""

    def __init__(self, keys=None, vals=None):
        self.keys = list(keys or [])
        self.vals = list(vals or [])

    def __repr__(self):
        return "SADict<%d>" % len(self.keys)


class SymMap:
    """dict with symbolic scalar keys: has(k) -> z3 Bool, get(k) -> value,
    card: z3 Int (number of keys).  ``vtype`` is a type descriptor or None
    (then inferred at the first store)."""

    def __init__(self, ktype, vtype, has, get, card):
        self.ktype = ktype
        self.vtype = vtype
        self.has = has
        self.get = get
        self.card = card
        self.version = 0
        self.keyseq = None  # optional ghost SymList of keys (insertion order)

    def __repr__(self):
        return "SymMap<%r->%r>" % (self.ktype, self.vtype)


class SymSet:
    """set with symbolic scalar members: has(k) -> z3 Bool, card"""

    def __init__(self, ktype, has, card):
        self.ktype = ktype
        self.has = has
        self.card = card

    def __repr__(self):
        return "SymSet<%r>" % (self.ktype,)


class SSet:
    """set of concrete keys"""

    def __init__(self, items=()):
        self.s = list(dict.fromkeys(items))

    def __repr__(self):
        return "SSet%r" % (self.s,)


class SSorted:
    """sortedcontainers.SortedList model: ``inner`` list kept sorted by key"""

    def __init__(self, inner, key):
        self.inner = inner  # SList | SymList
        self.key = key  # callable(value) -> value  (python callable in the engine)

    def __repr__(self):
        return "SSorted<%r>" % (self.inner,)


class SRange:
    def __init__(self, lo, hi, step=1):
        self.lo, self.hi, self.step = lo, hi, step


class SEnumerate:
    def __init__(self, seq, start=0):
        self.seq = seq
        self.start = start


class SZip:
    def __init__(self, seqs):
        self.seqs = seqs


class SReversed:
    def __init__(self, seq):
        self.seq = seq


class Func:
    """a python function of the verified program (AST closure)"""

    def __init__(self, node, module, closure=(), defcls=None, qual=None):
        self.node = node
        self.module = module
        self.closure = list(closure)
        self.defcls = defcls
        self.qual = qual or getattr(node, "name", "<lambda>")
        self.is_static = False
        self.is_classmethod = False
        self.is_property = False

    def __repr__(self):
        return "Func<%s>" % self.qual


class BoundMethod:
    def __init__(self, func, selfv):
        self.func = func
        self.selfv = selfv

    def __repr__(self):
        return "BoundMethod<%s>" % (self.func,)


class NativeFn:
    """engine-implemented callable (builtins, library stubs, bound helpers)"""

    def __init__(self, name, fn, pure=True):
        self.name = name
        self.fn = fn

    def __repr__(self):
        return "NativeFn<%s>" % self.name


class ExtRef:
    """reference into a library that is not under verification"""

    def __init__(self, dotted):
        self.dotted = dotted

    def __repr__(self):
        return "ExtRef<%s>" % self.dotted


class ExtObj:
    """opaque library object (logger, ...) whose methods are ignored or stubbed"""

    def __init__(self, kind, data=None):
        self.kind = kind
        self.data = data or {}

    def __repr__(self):
        return "ExtObj<%s>" % self.kind


class ClassRef:
    def __init__(self, info):
        self.info = info

    def __repr__(self):
        return "ClassRef<%s>" % self.info.name


class ModRef:
    def __init__(self, modname):
        self.modname = modname


class AbstractObj:
    """abstract collaborator: method calls resolved through interface contracts"""

    def __init__(self, iface, name):
        self.iface = iface
        self.name = name
        self.fields = {}

    def __repr__(self):
        return "Abstract<%s>" % self.iface


class Namespace:
    """attribute bag used to pass states to contract functions"""

    def __init__(self, d=None):
        self.__dict__["d"] = dict(d or {})

    def __repr__(self):
        return "NS%r" % (list(self.d),)


# ---------------------------------------------------------------------------
# string <-> int codes (strings are Ints in z3; see DESIGN 2.2)
# ---------------------------------------------------------------------------

_LIT_CODES = {}
_LIT_BY_CODE = {}


def str_code(s):
    """injective code of a literal string: decimal numerals n>=0 -> n,
    '-n' -> 2*(-n) (even negative), every other literal -> odd negative"""
    if s in _LIT_CODES:
        return _LIT_CODES[s]
    c = None
    if s.isdigit() and (s == "0" or not s.startswith("0")) and s.isascii():
        c = int(s)
    elif s.startswith("-") and s[1:].isdigit() and not s[1:].startswith("0") and s.isascii():
        c = 2 * int(s)
    else:
        c = -(2 * (len([k for k in _LIT_CODES if _LIT_CODES[k] % 2 == 1 and _LIT_CODES[k] < 0])) + 1)
    _LIT_CODES[s] = c
    _LIT_BY_CODE[c] = s
    return c


def str_from_code(c):
    if c in _LIT_BY_CODE:
        return _LIT_BY_CODE[c]
    if c >= 0:
        return str(c)
    if c % 2 == 0:
        return str(c // 2)
    return "s%d" % (-c)


def is_concrete_scalar(v):
    return v is None or isinstance(v, (int, bool, str, Fraction))
