"""Analytic back end: obligations about derivatives and closed forms of real-analytic expressions.

The symbolic executor produces z3 real terms in which transcendental library functions are uninterpreted
(``np_exp``, ``np_log``, ``np_sqrt``, ``sp_erfc``, ``norm_cdf``, ``norm_pdf``, ``np_pow``, ``np_expm1``, ``np_log1p``,
constant ``const_pi``).  Two uninterpreted *predicates* mark what has to be shown:

  an_is_deriv(v, x, c)   "c equals the partial derivative of the term v with respect to the input constant x"
  an_eq(a, b)            "a and b are the same real-analytic function of the inputs"

z3 cannot decide either (for z3 they are free predicates), so goals that contain them never reach z3: they are decided
here by exact symbolic computation (sympy): the terms are translated 1:1 into sympy expressions with the real meaning of
the library functions, differentiated by the rule table of sympy, and ``lhs - rhs`` is brought to normal form.  Normal
form 0 => proved.  Otherwise the difference is evaluated with 30-digit arithmetic at points that satisfy the path
condition; a point where it is clearly non-zero is a counter-example (refuted, with a z3 model of that point for the
witness decoder); no such point => unknown.  ``If`` terms are resolved with z3 against the path condition, or split.

Trusted: sympy's differentiation and simplification, the translation table below, A-REAL.
"""
import itertools
import random
import time
from fractions import Fraction

import z3

PRED_DERIV = "an_is_deriv"
PRED_EQ = "an_eq"

_R = z3.RealSort()
_B = z3.BoolSort()
_PREDS = {}


def pred_deriv():
    if PRED_DERIV not in _PREDS:
        _PREDS[PRED_DERIV] = z3.Function(PRED_DERIV, _R, _R, _R, _B)
    return _PREDS[PRED_DERIV]


def pred_eq():
    if PRED_EQ not in _PREDS:
        _PREDS[PRED_EQ] = z3.Function(PRED_EQ, _R, _R, _B)
    return _PREDS[PRED_EQ]


def _plain(pc):
    """the part of a path condition that the auxiliary z3 queries of this module use: no analytic predicates, no
    quantified library axioms (they only slow these small queries down)"""
    return [p for p in pc if not z3.is_quantifier(p) and not contains_analytic(p)]


def contains_analytic(goal):
    seen = set()
    stack = [goal]
    while stack:
        t = stack.pop()
        if t.get_id() in seen:
            continue
        seen.add(t.get_id())
        if z3.is_app(t):
            if t.decl().name() in (PRED_DERIV, PRED_EQ):
                return True
            stack.extend(t.children())
        elif z3.is_quantifier(t):
            stack.append(t.body())
    return False


class NotAnalytic(Exception):
    pass


def _sym_table():
    import sympy as sp

    return {
        "np_exp": lambda x: sp.exp(x),
        "np_log": lambda x: sp.log(x),
        "np_sqrt": lambda x: sp.sqrt(x),
        "sp_erfc": lambda x: sp.erfc(x),
        "sp_erf": lambda x: sp.erf(x),
        "norm_cdf": lambda x: (1 + sp.erf(x / sp.sqrt(2))) / 2,
        "norm_pdf": lambda x: sp.exp(-x * x / 2) / sp.sqrt(2 * sp.pi),
        "np_pow": lambda x, y: x**y,
        "np_expm1": lambda x: sp.exp(x) - 1,
        "np_log1p": lambda x: sp.log(1 + x),
    }


class Translator:
    """z3 real term -> sympy expression; ``If`` conditions are decided against ``pc`` (or recorded as a case split)"""

    def __init__(self, pc, positives=()):
        import sympy as sp

        self.sp = sp
        self.pc = list(pc)
        self.symbols = {}
        self.consts = {}
        self.case = {}  # id of condition -> chosen truth value for the current case
        self.open_conditions = []
        self.table = _sym_table()
        self.positive_cache = {}
        self.cache = {}

    def is_positive(self, c):
        k = c.get_id()
        if k not in self.positive_cache:
            s = z3.Solver()
            s.set("timeout", 1000)
            for p in _plain(self.pc):
                s.add(p)
            s.add(c <= 0)
            self.positive_cache[k] = s.check() == z3.unsat
        return self.positive_cache[k]

    def symbol(self, c):
        nm = c.decl().name()
        if nm not in self.symbols:
            if nm == "const_pi":
                self.symbols[nm] = self.sp.pi
            else:
                self.symbols[nm] = self.sp.Symbol(nm.replace("!", "_"), real=True, positive=True) if self.is_positive(c) else self.sp.Symbol(nm.replace("!", "_"), real=True)
                self.consts[nm] = c
        return self.symbols[nm]

    def decide(self, cond):
        """True / False if the path condition (and the current case) settles ``cond``, else None"""
        k = cond.get_id()
        if k in self.case:
            return self.case[k]
        s = z3.Solver()
        s.set("timeout", 2000)
        for p in _plain(self.pc):
            s.add(p)
        for kk, (c, v) in self.case_terms.items():
            s.add(c if v else z3.Not(c))
        s.push()
        s.add(z3.Not(cond))
        if s.check() == z3.unsat:
            return True
        s.pop()
        s.add(cond)
        if s.check() == z3.unsat:
            return False
        return self.decide_by_normal_form(cond)

    # -- conditions z3 cannot settle (equal rational functions written differently): compare exact normal forms ------------

    def _cmp(self, t):
        """comparison atom -> (e, strict) meaning  e > 0  (strict) or  e >= 0 ; None if ``t`` is not a comparison"""
        neg = False
        while z3.is_not(t):
            neg = not neg
            t = t.children()[0]
        if not z3.is_app(t) or len(t.children()) != 2:
            return None
        k = t.decl().kind()
        a, b = t.children()
        if a.sort() != _R and a.sort() != z3.IntSort():
            return None
        try:
            if k == z3.Z3_OP_GE:
                e, strict = self.tr(a) - self.tr(b), False
            elif k == z3.Z3_OP_GT:
                e, strict = self.tr(a) - self.tr(b), True
            elif k == z3.Z3_OP_LE:
                e, strict = self.tr(b) - self.tr(a), False
            elif k == z3.Z3_OP_LT:
                e, strict = self.tr(b) - self.tr(a), True
            else:
                return None
        except (NotAnalytic, _NeedSplit):
            return None
        if neg:  # not (e >= 0)  ==  -e > 0
            e, strict = -e, not strict
        return e, strict

    def decide_by_normal_form(self, cond):
        if getattr(self, "_in_nf", False):
            return None  # no nested normal-form reasoning (conditions inside conditions)
        key = (cond.get_id(), tuple(sorted((k, v) for k, (c_, v) in self.case_terms.items())))
        memo = self.__dict__.setdefault("_nf_memo", {})
        if key in memo:
            return memo[key]
        self._in_nf = True
        try:
            r = self._decide_by_normal_form(cond)
        finally:
            self._in_nf = False
        memo[key] = r
        return r

    def _decide_by_normal_form(self, cond):
        c = self._cmp(cond)
        if c is None:
            return None
        e, strict = c
        facts = [p for p in _plain(self.pc)] + [(cc if vv else z3.Not(cc)) for kk, (cc, vv) in self.case_terms.items()]
        for p in facts:
            f = self._cmp(p)
            if f is None:
                continue
            fe, fstrict = f
            if _zero_test(self.sp, e - fe):
                # known: fe (>|>=) 0 ; asked: e (>|>=) 0 with e == fe
                if fstrict or not strict:
                    return True
            elif _zero_test(self.sp, e + fe):
                # known: -e (>|>=) 0 ; asked e (>|>=) 0
                if fstrict or strict:
                    return False
        return None

    case_terms = {}

    def tr(self, t):
        sp = self.sp
        k = t.get_id()
        if k in self.cache:
            return self.cache[k]
        r = self._tr(t)
        self.cache[k] = r
        return r

    def _tr(self, t):
        sp = self.sp
        if z3.is_rational_value(t):
            return sp.Rational(t.numerator_as_long(), t.denominator_as_long())
        if z3.is_int_value(t):
            return sp.Integer(t.as_long())
        if z3.is_algebraic_value(t):
            raise NotAnalytic("algebraic number")
        if not z3.is_app(t):
            raise NotAnalytic("non-application term")
        d = t.decl()
        kind = d.kind()
        ch = t.children()
        if kind == z3.Z3_OP_UNINTERPRETED:
            if not ch:
                if t.sort() == _R or t.sort() == z3.IntSort():
                    return self.symbol(t)
                raise NotAnalytic("non-real constant %s" % t)
            nm = d.name()
            if nm in self.table:
                return self.table[nm](*[self.tr(c) for c in ch])
            raise NotAnalytic("uninterpreted function %s" % nm)
        if kind == z3.Z3_OP_ADD:
            return sp.Add(*[self.tr(c) for c in ch])
        if kind == z3.Z3_OP_MUL:
            return sp.Mul(*[self.tr(c) for c in ch])
        if kind == z3.Z3_OP_SUB:
            a = self.tr(ch[0])
            for c in ch[1:]:
                a = a - self.tr(c)
            return a
        if kind == z3.Z3_OP_UMINUS:
            return -self.tr(ch[0])
        if kind in (z3.Z3_OP_DIV, z3.Z3_OP_IDIV) and t.sort() == _R:
            return self.tr(ch[0]) / self.tr(ch[1])
        if kind == z3.Z3_OP_POWER:
            return self.tr(ch[0]) ** self.tr(ch[1])
        if kind == z3.Z3_OP_TO_REAL:
            return self.tr(ch[0])
        if kind == z3.Z3_OP_ITE:
            v = self.decide(ch[0])
            if v is None:
                self.open_conditions.append(ch[0])
                raise _NeedSplit(ch[0])
            return self.tr(ch[1] if v else ch[2])
        raise NotAnalytic("operator %s" % d.name())


class _NeedSplit(Exception):
    def __init__(self, cond):
        self.cond = cond


class _Budget(BaseException):
    pass


def _with_alarm(seconds, fn, *args):
    """run ``fn`` under a wall-clock limit (SIGALRM; workers are single-threaded processes).  Exact simplification has no
    useful complexity bound: a normaliser that does not finish in time simply does not decide the claim."""
    import signal

    if not hasattr(signal, "SIGALRM"):
        return fn(*args)

    def _raise(signum, frame):
        raise _Budget()

    try:
        old = signal.signal(signal.SIGALRM, _raise)
    except ValueError:  # not in the main thread
        return fn(*args)
    signal.alarm(max(1, int(seconds)))
    try:
        return fn(*args)
    finally:
        signal.alarm(0)
        signal.signal(signal.SIGALRM, old)


def _zero_test(sp, e):
    """exact: True iff the normal form of ``e`` is 0"""
    if e == 0:
        return True
    try:
        return _with_alarm(45, _zero_test_unlimited, sp, e)
    except _Budget:
        return False


def _zero_test_unlimited(sp, e):
    for f in (lambda x: sp.expand(sp.fraction(sp.together(x))[0]), lambda x: sp.expand(x), lambda x: sp.expand(sp.expand_log(x)), lambda x: sp.expand(sp.expand_log(sp.together(x), force=False)), lambda x: sp.simplify(x), lambda x: sp.simplify(sp.expand(sp.together(x))), lambda x: sp.simplify(x.rewrite(sp.erf))):
        try:
            r = f(e)
        except Exception:
            continue
        if r == 0:
            return True
    return False


def _numeric_point(tr, pc, rng, attempt):
    """a point of the input space that satisfies the (analytic-free part of the) path condition"""
    s = z3.Solver()
    s.set("timeout", 3000)
    for p in _plain(pc):
        s.add(p)
    for kk, (c, v) in tr.case_terms.items():
        s.add(c if v else z3.Not(c))
    # spread the points: ask for each symbol near a random target
    for nm, c in tr.consts.items():
        if attempt > 0:
            tgt = Fraction(rng.randint(-3000, 3000), 1000)
            w = Fraction(1, 2)
            s.push()
            s.add(c >= float(tgt - w), c <= float(tgt + w))
            if s.check() != z3.sat:
                s.pop()
    if s.check() != z3.sat:
        return None, None
    mdl = s.model()
    pt = {}
    for nm, c in tr.consts.items():
        v = mdl.eval(c, model_completion=True)
        if z3.is_rational_value(v):
            pt[nm] = Fraction(v.numerator_as_long(), v.denominator_as_long())
        elif z3.is_algebraic_value(v):
            pt[nm] = Fraction(v.approx(20).numerator_as_long(), v.approx(20).denominator_as_long())
        else:
            return None, None
    return pt, mdl


def _eval(sp, e, tr, pt):
    subs = {tr.symbols[nm]: sp.Rational(v.numerator, v.denominator) for nm, v in pt.items() if nm in tr.symbols and nm != "const_pi"}
    return sp.N(e.subs(subs), 30)


def _decide_atom(pc, atom, budget_s, seed):
    """one an_is_deriv / an_eq atom -> (status, model|None, info)"""
    import sympy as sp

    t0 = time.time()
    nm = atom.decl().name()
    ch = atom.children()
    tr = Translator(pc)
    tr.case_terms = {}
    pending = [dict()]
    rng = random.Random(seed)
    all_proved = True
    info = []
    while pending:
        case = pending.pop()
        tr.case_terms = case
        tr.case = {k: v for k, (c, v) in case.items()}
        tr.cache = {}
        try:
            if nm == PRED_DERIV:
                v = tr.tr(ch[0])
                x = tr.tr(ch[1])
                c = tr.tr(ch[2])
                if not isinstance(x, sp.Symbol):
                    return "unknown", None, "differentiation variable is not an input constant"
                lhs = _with_alarm(45, sp.diff, v, x)
                rhs = c
            else:
                lhs = tr.tr(ch[0])
                rhs = tr.tr(ch[1])
        except _NeedSplit as ns:
            if len(case) >= 6:
                return "unknown", None, "too many case splits"
            for val in (True, False):
                c2 = dict(case)
                c2[ns.cond.get_id()] = (ns.cond, val)
                # keep only feasible cases
                s = z3.Solver()
                s.set("timeout", 2000)
                for p in _plain(pc):
                    s.add(p)
                for kk, (cc, vv) in c2.items():
                    s.add(cc if vv else z3.Not(cc))
                if s.check() != z3.unsat:
                    pending.append(c2)
            continue
        except NotAnalytic as e:
            return "unknown", None, "outside the analytic fragment: %s" % e
        except _Budget:
            return "unknown", None, "symbolic differentiation did not finish within its budget"
        diff = lhs - rhs
        if _zero_test(sp, diff):
            info.append("normal form 0")
            continue
        # not identically zero as far as the normaliser can tell: look for a numeric counter-example
        all_proved = False
        found = None
        for attempt in range(12):
            pt, mdl = _numeric_point(tr, pc, rng, attempt)
            if pt is None:
                continue
            try:
                dv, lv, rv = _with_alarm(20, lambda: (_eval(sp, diff, tr, pt), _eval(sp, lhs, tr, pt), _eval(sp, rhs, tr, pt)))
            except _Budget:
                continue
            except Exception:
                continue
            if not (dv.is_number and dv.is_real):
                continue
            scale = 1 + abs(float(lv)) + abs(float(rv))
            if abs(float(dv)) > 1e-9 * scale:
                found = (pt, mdl, float(lv), float(rv))
                break
        if found is not None:
            pt, mdl, lv, rv = found
            what = "d/d%s of the value = %.12g, coded gradient = %.12g" % (ch[1].decl().name(), lv, rv) if nm == PRED_DERIV else "lhs = %.12g, rhs = %.12g" % (lv, rv)
            return "refuted", mdl, what + " at " + ", ".join("%s=%s" % (k, float(v)) for k, v in sorted(pt.items()))
        return "unknown", None, "normal form not 0, and no numeric difference found"
    return ("proved" if all_proved else "unknown"), None, "; ".join(info[:3])


def solve(pc, goal, timeout_ms, seed=0):
    """decide a goal built from an_is_deriv / an_eq atoms with And / Implies; -> (status, model, seconds, backend, info)"""
    t0 = time.time()
    import sys

    if sys.getrecursionlimit() < 20000:
        sys.setrecursionlimit(20000)
    atoms = []

    def flatten(g, hyps):
        if z3.is_and(g):
            for c in g.children():
                flatten(c, hyps)
        elif z3.is_implies(g):
            flatten(g.children()[1], hyps + [g.children()[0]])
        elif z3.is_true(g):
            pass
        elif z3.is_app(g) and g.decl().name() in (PRED_DERIV, PRED_EQ):
            atoms.append((hyps, g))
        else:
            raise NotAnalytic("goal mixes analytic atoms with other connectives")

    try:
        flatten(goal, [])
    except NotAnalytic as e:
        return "unknown", None, time.time() - t0, "sympy", str(e)
    infos = []
    for hyps, a in atoms:
        st, mdl, info = _decide_atom(list(pc) + hyps, a, timeout_ms / 1000.0, seed)
        infos.append(info)
        if st != "proved":
            return st, mdl, time.time() - t0, "sympy", info
    return "proved", None, time.time() - t0, "sympy", "; ".join(i for i in infos if i)[:200]
