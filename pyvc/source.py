"""Extraction: read the real source text under the repository root on every
run and hand out AST nodes.  Nothing is rewritten or copied."""
import ast
import hashlib
import os

REPO = os.environ.get("PYVC_REPO", "/repo")


class SourceError(Exception):
    pass


class ModuleCtx:
    """One parsed module: top-level functions, classes, constants, imports."""

    def __init__(self, name, path, tree, src):
        self.name = name
        self.path = path
        self.tree = tree
        self.src = src
        self.functions = {}
        self.classes = {}
        self.assigns = {}  # name -> ast expr (last top-level assignment)
        self.imports = {}  # local name -> ("module", modname) | ("from", modname, attr)
        self.star_imports = []
        self._scan(tree.body)

    def _scan(self, body):
        for st in body:
            if isinstance(st, ast.FunctionDef):
                self.functions[st.name] = st
            elif isinstance(st, ast.ClassDef):
                self.classes[st.name] = st
            elif isinstance(st, ast.Assign):
                for tg in st.targets:
                    if isinstance(tg, ast.Name):
                        self.assigns[tg.id] = st.value
            elif isinstance(st, ast.AnnAssign) and st.value is not None:
                if isinstance(st.target, ast.Name):
                    self.assigns[st.target.id] = st.value
            elif isinstance(st, ast.Import):
                for a in st.names:
                    local = a.asname or a.name.split(".")[0]
                    target = a.name if a.asname else a.name.split(".")[0]
                    self.imports[local] = ("module", target)
            elif isinstance(st, ast.ImportFrom):
                mod = st.module or ""
                if st.level:
                    base = self.name.split(".")
                    # a module file: drop the last component, then level-1 more
                    base = base[: len(base) - st.level]
                    mod = ".".join(base + ([mod] if mod else []))
                for a in st.names:
                    if a.name == "*":
                        self.star_imports.append(mod)
                        continue
                    self.imports[a.asname or a.name] = ("from", mod, a.name)
            elif isinstance(st, (ast.If, ast.Try)):
                # conditional imports / definitions: scan all arms
                for sub in ("body", "orelse", "finalbody"):
                    self._scan(getattr(st, sub, []) or [])
                for h in getattr(st, "handlers", []) or []:
                    # fallbacks in ``except ImportError`` never override what the try body defines
                    saved = (dict(self.functions), dict(self.classes), dict(self.assigns), dict(self.imports))
                    self._scan(h.body)
                    for cur, old in zip((self.functions, self.classes, self.assigns, self.imports), saved):
                        cur.update(old)


class Repo:
    """Loader with a cache; ``root`` is the tree being verified."""

    def __init__(self, root=None, extra_roots=()):
        self.root = root or REPO
        self.extra_roots = list(extra_roots)
        self.cache = {}
        self.used_files = {}

    def module_path(self, modname):
        rel = modname.replace(".", "/")
        for root in [self.root] + self.extra_roots:
            for cand in (os.path.join(root, rel + ".py"), os.path.join(root, rel, "__init__.py")):
                if os.path.isfile(cand):
                    return cand
        return None

    def is_repo_module(self, modname):
        return self.module_path(modname) is not None

    def module(self, modname):
        if modname in self.cache:
            return self.cache[modname]
        path = self.module_path(modname)
        if path is None:
            raise SourceError("module %s not found under %s" % (modname, self.root))
        src = open(path, encoding="utf-8").read()
        tree = ast.parse(src, filename=path)
        m = ModuleCtx(modname, path, tree, src)
        self.cache[modname] = m
        return m

    # -- qualified lookup ---------------------------------------------------

    def find(self, target):
        """``pkg.mod:Class.method`` / ``pkg.mod:func`` / ``pkg.mod:Outer.Inner.m``
        -> (ModuleCtx, [ClassDef...], FunctionDef|ClassDef)"""
        modname, qual = target.split(":")
        m = self.module(modname)
        parts = qual.split(".")
        classes = []
        scope_funcs, scope_classes = m.functions, m.classes
        node = None
        for i, p in enumerate(parts):
            if p in scope_classes:
                node = scope_classes[p]
                classes.append(node)
                scope_funcs = {s.name: s for s in node.body if isinstance(s, ast.FunctionDef)}
                scope_classes = {s.name: s for s in node.body if isinstance(s, ast.ClassDef)}
            elif p in scope_funcs:
                node = scope_funcs[p]
                if i != len(parts) - 1:
                    raise SourceError("cannot descend into function %s" % target)
            else:
                raise SourceError("%s: component %r not found" % (target, p))
        return m, classes, node

    def resolve_import(self, m, name, _depth=0):
        """Follow ``name`` imported in module ``m`` to its definition.
        Returns ("class", ModuleCtx, ClassDef) | ("func", ModuleCtx, FunctionDef)
        | ("const", ModuleCtx, expr) | ("module", modname) | ("external", dotted)"""
        if _depth > 12:
            raise SourceError("import cycle resolving %s" % name)
        if name in m.classes:
            return ("class", m, m.classes[name])
        if name in m.functions:
            return ("func", m, m.functions[name])
        if name in m.assigns:
            return ("const", m, m.assigns[name])
        if name in m.imports:
            imp = m.imports[name]
            if imp[0] == "module":
                if self.is_repo_module(imp[1]):
                    return ("module", imp[1])
                return ("external", imp[1])
            _, mod, attr = imp
            if self.is_repo_module(mod + "." + attr):
                return ("module", mod + "." + attr)
            if self.is_repo_module(mod):
                m2 = self.module(mod)
                r = self.resolve_import(m2, attr, _depth + 1)
                if r is not None:
                    return r
                return None
            return ("external", mod + "." + attr)
        for mod in m.star_imports:
            if self.is_repo_module(mod):
                r = self.resolve_import(self.module(mod), name, _depth + 1)
                if r is not None:
                    return r
        return None


def fn_fingerprint(node):
    txt = ast.unparse(node)
    return hashlib.sha256(txt.encode()).hexdigest()[:16]


def strip_docstring(body):
    if body and isinstance(body[0], ast.Expr) and isinstance(body[0].value, ast.Constant) and isinstance(body[0].value.value, str):
        return body[1:]
    return body
