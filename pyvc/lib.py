"""Trusted contracts of third-party libraries (DESIGN 2.3).  Everything in this
file is *assumed*, not proved; each stub registers a note that is copied into
the evidence under ``trusted_base``."""
import ast
from fractions import Fraction

import z3

from . import spec as S
from .values import *  # noqa
from .engine import PyRaise, Unsupported

EXTERNAL = {}
TRUSTED_NOTES = {}
REPO_STUBS = {}  # "module:function" -> engine model of a repository function that only wraps a native library
REPO_STUB_NOTES = {}


def ext(name, note=None):
    def deco(fn):
        EXTERNAL[name] = fn
        if note:
            TRUSTED_NOTES[name] = note
        return fn

    return deco


def call_external(m, dotted, args, kw, node):
    from . import npmodel  # noqa: F401  (registers the array model)

    fn = EXTERNAL.get(dotted)
    if fn is None:
        # typing constructs etc.
        if dotted.startswith("typing."):
            return ExtObj("typing")
        raise Unsupported("library function %s has no contract" % dotted, node)
    if dotted in TRUSTED_NOTES:
        m.assumption_notes.add("lib:%s -- %s" % (dotted, TRUSTED_NOTES[dotted]))
    return fn(m, args, kw, node)


def extobj_attr(m, o, name, node):
    if o.kind == "super":
        cls = o.data["cls"]
        selfv = o.data["self"]
        info = selfv.cls if isinstance(selfv, SObj) else cls
        c, meth = info.find_method(name, after=cls)
        if meth is None:
            if name == "__init__":
                return NativeFn("object.__init__", lambda mach, a, k, n: None)
            raise PyRaise("AttributeError", node, msg="super().%s" % name)
        f = m.func_of_method(c, meth)
        if f.is_static:
            return f
        return BoundMethod(f, selfv)
    if o.kind == "logger":
        return NativeFn("logger." + name, lambda mach, a, k, n: None)
    if o.kind == "exception":
        if name == "args":
            return tuple(o.data.get("args", ()))
        raise Unsupported("attribute %s of exception" % name, node)
    if o.kind == "rng":
        return NativeFn("RandomState." + name, lambda mach, a, k, n, name=name, o=o: rng_method(mach, o, name, a, k, n))
    if o.kind == "typing":
        return ExtObj("typing")
    if o.kind in ("datetime", "timedelta"):
        if name in ("seconds", "days", "microseconds"):
            r = m.fresh_scalar("int", "dt." + name)
            m.assume(r.t >= 0)
            return r
        if name == "total_seconds":
            return NativeFn("total_seconds", lambda mach, a, k, n: mach.fresh_scalar("real", "dt.total"))
        if name == "replace":
            return NativeFn("replace", lambda mach, a, k, n: ExtObj("datetime"))
    raise Unsupported("attribute %s of library object %s" % (name, o.kind), node)


def _to_native(v):
    if isinstance(v, ExtObj) and v.kind == "specdata":
        return v.data["value"]
    if isinstance(v, (int, str, bool)) or v is None:
        return v
    if isinstance(v, tuple):
        return tuple(_to_native(x) for x in v)
    raise Unsupported("specification data must be concrete (%r)" % (v,))


def call_extobj(m, o, args, kw, node):
    if o.kind == "typing":
        return ExtObj("typing")
    if o.kind == "specdata":
        # type descriptors and other plain data of pyvc.spec are built natively
        fn = o.data["value"]
        return ExtObj("specdata", {"value": fn(*[_to_native(a) for a in args], **{k: _to_native(v) for k, v in kw.items()})})
    if o.kind == "pytype":
        from .builtins import BUILTINS

        return BUILTINS[o.data["name"]].fn(m, args, kw, node)
    if o.kind == "exception":
        return ExtObj("exception", dict(o.data, args=args))
    raise Unsupported("call of library object %s" % o.kind, node)


# -- logging / misc --------------------------------------------------------------


@ext("logging.getLogger")
def _getlogger(m, args, kw, node):
    return ExtObj("logger")


@ext("copy.copy", "shallow copy of list/dict/object")
def _copy(m, args, kw, node):
    v = m.force(args[0], node)
    if isinstance(v, SList):
        return SList(v.items)
    if isinstance(v, SDict):
        return SDict(v.d)
    if isinstance(v, SObj):
        return SObj(v.cls, dict(v.fields), v.declname)
    if isinstance(v, (SymList, SymMap, SymSet)):
        return m.snapshot(v)
    return v


@ext("copy.deepcopy", "deep copy of the reachable object graph")
def _deepcopy(m, args, kw, node):
    return m.snapshot(m.force(args[0], node))


@ext("sortedcontainers.SortedList", "SortedList keeps its items sorted by key; add() inserts after equal keys (bisect_right)")
def _sortedlist(m, args, kw, node):
    it = kw.get("iterable", args[0] if args else None)
    key = kw.get("key", args[1] if len(args) > 1 else None)
    if key is None:
        keyfn = lambda x: x
    else:
        keyfn = lambda x, key=key: m.call(key, [x], {}, node)
    items = []
    if it is not None:
        it = m.force(it, node)
        if isinstance(it, SymList):
            raise Unsupported("SortedList from an unbounded iterable", node)
        items = m.iter_concrete(it, node)
    o = SSorted(SList([]), keyfn)
    from .builtins import _so_add

    for x in items:
        _so_add(m, o, [x], {}, node)
    return o


# -- numpy scalar functions (A-TRANSC) ---------------------------------------------------

_UF = {}


def ufun(name, *sorts):
    if name not in _UF:
        _UF[name] = z3.Function(name, *sorts)
    return _UF[name]


class _ArrayArg(Exception):
    def __init__(self, arr):
        self.arr = arr


def _real_arg(m, a, node):
    a = m.force(a, node)
    if type(a).__name__ == "SArr":
        raise _ArrayArg(a)
    if isinstance(a, (SList, SymList, tuple)):
        raise Unsupported("numpy array argument", node)
    return a


def elementwise1(fn):
    """lift a scalar library function to arrays of concrete shape (first argument); NaN in, NaN out"""

    def wrapped(m, args, kw, node):
        try:
            if args and isinstance(args[0], NanReal) and getattr(fn, "__name__", "") not in ("np_isnan", "np_maximum", "np_minimum"):
                a = args[0]
                r = fn(m, [a.val] + list(args[1:]), kw, node)
                if isinstance(r, NanReal):
                    return m.mknan(m.disj([a.isnan, r.isnan]), r.val)
                return m.mknan(a.isnan, r)
            return fn(m, args, kw, node)
        except _ArrayArg as e:
            from . import npmodel

            a = e.arr
            if not any(x is a for x in args[:1]) and m.force(args[0], node) is not a:
                raise Unsupported("array in a non-leading argument", node)
            out = [wrapped(m, [x] + list(args[1:]), kw, node) for x in a.data]
            return npmodel.SArr(a.shape, out, "real")

    return wrapped


def _exp_axioms(m):
    if getattr(m, "_exp_ax", False):
        return
    m._exp_ax = True
    R = z3.RealSort()
    exp = ufun("np_exp", R, R)
    log = ufun("np_log", R, R)
    x = z3.Real("ax_x")
    y = z3.Real("ax_y")
    axs = [
        z3.ForAll([x], exp(x) > 0),
        z3.ForAll([x], log(exp(x)) == x),
        z3.ForAll([x], z3.Implies(x > 0, exp(log(x)) == x)),
        z3.ForAll([x, y], z3.Implies(x < y, exp(x) < exp(y))),
        z3.ForAll([x, y], z3.Implies(z3.And(0 < x, x < y), log(x) < log(y))),
        exp(0) == 1,
        log(1) == 0,
    ]
    for a in axs:
        m.axioms.append(a)
        m.add_axiom(a)
    m.assumption_notes.add("A-TRANSC: exp/log are uninterpreted, strictly monotone, mutually inverse")


@ext("numpy.exp", "A-TRANSC")
def np_exp(m, args, kw, node):
    a = _real_arg(m, args[0], node)
    if isinstance(a, (int, Fraction)) and a == 0:
        return Fraction(1)
    if getattr(m, "calculus", False):
        # analytic mode: only the instance fact exp(a) > 0 (the quantified axioms make every feasibility query slow)
        r = m.mk(ufun("np_exp", z3.RealSort(), z3.RealSort())(m.z(a, "real")), "real")
        m.assume(r.t > 0)
        return r
    _exp_axioms(m)
    return m.mk(ufun("np_exp", z3.RealSort(), z3.RealSort())(m.z(a, "real")), "real")


@ext("numpy.log", "A-TRANSC")
def np_log(m, args, kw, node):
    a = _real_arg(m, args[0], node)
    if isinstance(a, (int, Fraction)) and a == 1:
        return Fraction(0)
    if not getattr(m, "calculus", False):
        _exp_axioms(m)
    return m.mk(ufun("np_log", z3.RealSort(), z3.RealSort())(m.z(a, "real")), "real")


EXTERNAL["math.exp"] = np_exp
EXTERNAL["math.log"] = np_log
EXTERNAL["autograd.numpy.exp"] = np_exp
EXTERNAL["autograd.numpy.log"] = np_log


@ext("numpy.power", "A-TRANSC: power(a,b) for a>0 is uninterpreted, monotone in b for a>1")
def np_power(m, args, kw, node):
    a = _real_arg(m, args[0], node)
    b = _real_arg(m, args[1], node)
    if isinstance(b, int) and not isinstance(b, bool) and 0 <= b <= 6:
        return m.binop(ast.Pow(), a, b, node)
    R = z3.RealSort()
    pw = ufun("np_pow", R, R, R)
    if getattr(m, "calculus", False):
        r = m.mk(pw(m.z(a, "real"), m.z(b, "real")), "real")
        m.assume(z3.Implies(m.z(a, "real") > 0, r.t > 0))
        return r
    if not getattr(m, "_pow_ax", False):
        m._pow_ax = True
        x, y, w = z3.Reals("pw_x pw_y pw_w")
        axs = [
            z3.ForAll([x, y], z3.Implies(x > 0, pw(x, y) > 0)),
            z3.ForAll([x], pw(x, 0) == 1),
            z3.ForAll([x], pw(x, 1) == x),
            z3.ForAll([x, y, w], z3.Implies(z3.And(x > 1, y < w), pw(x, y) < pw(x, w))),
            z3.ForAll([x, y], z3.Implies(z3.And(x > 1, y > 0), pw(x, y) > 1)),
        ]
        for ax in axs:
            m.axioms.append(ax)
            m.add_axiom(ax)
        m.assumption_notes.add("A-TRANSC: power is uninterpreted with positivity and monotonicity axioms")
    return m.mk(pw(m.z(a, "real"), m.z(b, "real")), "real")


@ext("numpy.sqrt", "A-TRANSC: sqrt(x)^2 == x, sqrt(x) >= 0 for x >= 0")
def np_sqrt(m, args, kw, node):
    a = _real_arg(m, args[0], node)
    if getattr(m, "calculus", False):
        # analytic mode: sqrt is a function symbol (so that terms can be differentiated and normalised exactly)
        az = m.z(a, "real")
        r = m.mk(ufun("np_sqrt", z3.RealSort(), z3.RealSort())(az), "real")
        m.assume(z3.And(r.t >= 0, r.t * r.t == az))
        return r
    r = m.fresh_scalar("real", "sqrt")
    m.assume(z3.And(r.t >= 0, r.t * r.t == m.z(a, "real")))
    return r


EXTERNAL["math.sqrt"] = np_sqrt


@ext("numpy.ceil", "ceil of a real")
def np_ceil(m, args, kw, node):
    a = _real_arg(m, args[0], node)
    if isinstance(a, (int, Fraction)):
        import math

        return Fraction(math.ceil(a))
    if a.k == "int":
        return m.mk(z3.ToReal(a.t), "real")
    return m.mk(z3.ToReal(-z3.ToInt(-a.t)), "real")


@ext("numpy.floor", "floor of a real")
def np_floor(m, args, kw, node):
    a = _real_arg(m, args[0], node)
    if isinstance(a, (int, Fraction)):
        import math

        return Fraction(math.floor(a))
    if a.k == "int":
        return m.mk(z3.ToReal(a.t), "real")
    return m.mk(z3.ToReal(z3.ToInt(a.t)), "real")


@ext("math.ceil", "ceil of a real (int result)")
def math_ceil(m, args, kw, node):
    a = _real_arg(m, args[0], node)
    if isinstance(a, (int, Fraction)):
        import math

        return math.ceil(a)
    if a.k == "int":
        return a
    return m.mk(-z3.ToInt(-a.t), "int")


@ext("math.floor", "floor of a real (int result)")
def math_floor(m, args, kw, node):
    a = _real_arg(m, args[0], node)
    if isinstance(a, (int, Fraction)):
        import math

        return math.floor(a)
    if a.k == "int":
        return a
    return m.mk(z3.ToInt(a.t), "int")


@ext("numpy.round", "round half to even (result float)")
def np_round(m, args, kw, node):
    from .builtins import round_half_even

    a = _real_arg(m, args[0], node)
    if len(args) > 1 or kw:
        raise Unsupported("np.round with decimals", node)
    if isinstance(a, (int, Fraction)):
        return Fraction(round(a))
    if a.k == "int":
        return m.mk(z3.ToReal(a.t), "real")
    return m.mk(z3.ToReal(round_half_even(a.t)), "real")


EXTERNAL["numpy.rint"] = np_round
EXTERNAL["numpy.around"] = np_round


@ext("numpy.clip", "clip(x, lo, hi) == min(max(x, lo), hi)")
def np_clip(m, args, kw, node):
    a = _real_arg(m, args[0], node)
    lo = args[1] if len(args) > 1 else kw.get("a_min")
    hi = args[2] if len(args) > 2 else kw.get("a_max")
    r = a
    if lo is not None:
        r = m.maxv(r, _real_arg(m, lo, node))
    if hi is not None:
        r = m.minv(r, _real_arg(m, hi, node))
    return r


@ext("numpy.isnan", "A-REAL: reals are never NaN unless declared NanRealT")
def np_isnan(m, args, kw, node):
    a = m.force(args[0], node)
    if type(a).__name__ == "SArr":
        from . import npmodel

        return npmodel.SArr(a.shape, [np_isnan(m, [x], kw, node) for x in a.data], "bool")
    if isinstance(a, NanReal):
        return a.isnan if isinstance(a.isnan, bool) else m.mk(a.isnan, "bool")
    if a is None:
        raise PyRaise("TypeError", node)
    return False


EXTERNAL["math.isnan"] = np_isnan


@ext("numpy.isfinite", "A-REAL: reals are always finite")
def np_isfinite(m, args, kw, node):
    return True


@ext("numpy.abs", "absolute value")
def np_abs(m, args, kw, node):
    from .builtins import b_abs

    _real_arg(m, args[0], node)  # arrays: lifted element-wise by the wrapper
    return b_abs(m, args, kw, node)


@ext("numpy.maximum", "scalar maximum")
def np_maximum(m, args, kw, node):
    return m.maxv(_real_arg(m, args[0], node), _real_arg(m, args[1], node))


@ext("numpy.minimum", "scalar minimum")
def np_minimum(m, args, kw, node):
    return m.minv(_real_arg(m, args[0], node), _real_arg(m, args[1], node))


# numpy scalar constructors are identities under A-REAL / mathematical integers
for _nm in ("numpy.float64", "numpy.float32", "numpy.float_"):

    @ext(_nm)
    def _np_float(m, args, kw, node):
        from .builtins import b_float

        return b_float(m, args, kw, node)


for _nm in ("numpy.int64", "numpy.int32", "numpy.int_"):

    @ext(_nm)
    def _np_int(m, args, kw, node):
        from .builtins import b_int

        return b_int(m, args, kw, node)


# -- random number generators -----------------------------------------------------------


def rng_method(m, o, name, args, kw, node):
    """np.random.RandomState methods: arbitrary value in the documented range.
    Every call returns a fresh value (the stream is not modelled here)."""
    m.assumption_notes.add("lib:numpy.random.RandomState.%s -- returns an arbitrary value in its documented range" % name)
    calls = o.data.setdefault("calls", [])
    if name == "uniform":
        lo = args[0] if args else kw.get("low", Fraction(0))
        hi = args[1] if len(args) > 1 else kw.get("high", Fraction(1))
        size = kw.get("size", args[2] if len(args) > 2 else None)
        if size is not None:
            size = m.force(size, node)
            if not isinstance(size, int):
                raise Unsupported("rng.uniform with symbolic size", node)
            from . import npmodel

            return npmodel.SArr((size,), [rng_method(m, o, "uniform", [lo, hi], {}, node) for _ in range(size)], "real")
        r = m.fresh_scalar("real", "rng.uniform")
        m.assume(z3.And(r.t >= m.z(m.force(lo), "real"), r.t < z3.If(m.z(m.force(hi), "real") > m.z(m.force(lo), "real"), m.z(m.force(hi), "real"), m.z(m.force(lo), "real") + 1)))
        # numpy: low == high returns low
        m.assume(z3.Implies(m.z(m.force(hi), "real") == m.z(m.force(lo), "real"), r.t == m.z(m.force(lo), "real")))
        calls.append(("uniform", r))
        m.abstract_returns.append(("rng", "uniform", r))
        return r
    if name == "randint":
        lo = args[0] if args else kw.get("low")
        hi = args[1] if len(args) > 1 else kw.get("high")
        if hi is None:
            lo, hi = 0, lo
        size = kw.get("size", args[2] if len(args) > 2 else None)
        if size is not None:
            size = m.force(size, node)
            if not isinstance(size, int):
                raise Unsupported("rng.randint with symbolic size", node)
            from . import npmodel

            return npmodel.SArr((size,), [rng_method(m, o, "randint", [lo, hi], {}, node) for _ in range(size)], "int")
        lo_t, hi_t = m.z(m.force(lo), "int"), m.z(m.force(hi), "int")
        if m.branch(lo_t >= hi_t, node):
            raise PyRaise("ValueError", node)
        r = m.fresh_scalar("int", "rng.randint")
        m.assume(z3.And(r.t >= lo_t, r.t < hi_t))
        calls.append(("randint", r))
        m.abstract_returns.append(("rng", "randint", r))
        return r
    if name in ("rand", "random", "random_sample"):
        if args or kw:
            raise Unsupported("rng.%s with size" % name, node)
        r = m.fresh_scalar("real", "rng.rand")
        m.assume(z3.And(r.t >= 0, r.t < 1))
        calls.append(("rand", r))
        m.abstract_returns.append(("rng", "rand", r))
        return r
    if name == "choice":
        seq = m.force(args[0], node)
        size = kw.get("size", args[1] if len(args) > 1 else None)
        if size is not None:
            size = m.force(size, node)
            if not isinstance(size, int) or kw.get("p") is not None:
                raise Unsupported("rng.choice with symbolic size / p", node)
            from . import npmodel

            return npmodel.SArr((size,), [rng_method(m, o, "choice", [seq], {}, node) for _ in range(size)], "int")
        if isinstance(seq, (int, Sym)):
            n_t = m.z(seq, "int")
            r = m.fresh_scalar("int", "rng.choice")
            m.assume(z3.And(r.t >= 0, r.t < n_t))
            m.abstract_returns.append(("rng", "choice", r))
            return r
        n = m.length(seq, node)
        if isinstance(n, int) and n == 0:
            raise PyRaise("ValueError", node)
        r = m.fresh_scalar("int", "rng.choice")
        m.assume(z3.And(r.t >= 0, r.t < m.z(n, "int")))
        calls.append(("choice", r))
        m.abstract_returns.append(("rng", "choice", r))
        return m.getitem(seq, r, node)
    if name == "normal":
        r = m.fresh_scalar("real", "rng.normal")
        return r
    raise Unsupported("RandomState.%s has no contract" % name, node)


# module-level constants of libraries.  numpy >= 2 (installed: 2.x) has no NAN / NaN / Inf aliases:
# touching them raises AttributeError, which is modelled faithfully.
def inf_value(m):
    """numpy.inf: a symbolic constant INF; every NanRealT / metric value v is assumed to satisfy -INF < v < INF
    where a contract says so (``infinity()`` in specifications)"""
    if getattr(m, "_inf", None) is None:
        m._inf = Sym(z3.Real("INF"), "real")
    m.assume(m._inf.t > 1000000)
    m.assumption_notes.add("numpy.inf is modelled as a constant above every finite value mentioned by the contract")
    return m._inf


def _pi(m):
    if getattr(m, "calculus", False):
        c = z3.Real("const_pi")
        m.assume(z3.And(c > Fraction("3.14159265358979"), c < Fraction("3.14159265358980")))
        return Sym(c, "real")
    return Fraction("3.141592653589793")


CONSTANTS = {
    "numpy.inf": inf_value,
    "math.inf": inf_value,
    "numpy.nan": lambda m: NanReal(True, Fraction(0)),
    "math.nan": lambda m: NanReal(True, Fraction(0)),
    "numpy.pi": lambda m: _pi(m),
    "autograd.numpy.pi": lambda m: _pi(m),
}
REMOVED_IN_NUMPY2 = {"numpy.NAN", "numpy.NaN", "numpy.Inf", "numpy.infty", "numpy.float_", "numpy.PINF", "numpy.NINF"}


@ext("operator.itemgetter", "itemgetter(i)(x) == x[i]")
def op_itemgetter(m, args, kw, node):
    idx = args[0]
    return NativeFn("itemgetter", lambda mach, a, k, n, idx=idx: mach.getitem(a[0], idx, n))


@ext("numpy.random.choice", "GLOBAL numpy RNG: arbitrary index in range (ambient randomness, cf. C11)")
def np_random_choice(m, args, kw, node):
    a = m.force(args[0], node)
    m.assumption_notes.add("ambient:numpy.random.choice -- reads the process-global generator")
    m.path_ambient.append("numpy.random.choice")
    if isinstance(a, (int, Sym)):
        n_t = m.z(a, "int")
        r = m.fresh_scalar("int", "np.random.choice")
        m.assume(z3.And(r.t >= 0, r.t < n_t))
        return r
    raise Unsupported("np.random.choice over a sequence", node)


# -- heapq: faithful port of CPython's pure-python heapq (binary heap on a list) --------------------


def _heap_lt(m, x, y, node):
    c = m.compare(ast.Lt(), x, y, node)
    return c if isinstance(c, bool) else m.branch(c.t, node)


def _siftdown(m, heap, startpos, pos, node):
    newitem = heap[pos]
    while pos > startpos:
        parentpos = (pos - 1) >> 1
        parent = heap[parentpos]
        if _heap_lt(m, newitem, parent, node):
            heap[pos] = parent
            pos = parentpos
            continue
        break
    heap[pos] = newitem


def _siftup(m, heap, pos, node):
    endpos = len(heap)
    startpos = pos
    newitem = heap[pos]
    childpos = 2 * pos + 1
    while childpos < endpos:
        rightpos = childpos + 1
        if rightpos < endpos and not _heap_lt(m, heap[childpos], heap[rightpos], node):
            childpos = rightpos
        heap[pos] = heap[childpos]
        pos = childpos
        childpos = 2 * pos + 1
    heap[pos] = newitem
    _siftdown(m, heap, startpos, pos, node)


def _heap_list(m, v, node):
    v = m.force(v, node)
    if not isinstance(v, SList):
        raise Unsupported("heapq on a list of symbolic length", node)
    return v


@ext("heapq.heappush", "CPython heapq.heappush (ported verbatim; binary heap on a list)")
def heapq_heappush(m, args, kw, node):
    h = _heap_list(m, args[0], node)
    m.note_write(h)
    h.items.append(args[1])
    _siftdown(m, h.items, 0, len(h.items) - 1, node)


@ext("heapq.heappop", "CPython heapq.heappop (ported verbatim)")
def heapq_heappop(m, args, kw, node):
    h = _heap_list(m, args[0], node)
    m.note_write(h)
    if not h.items:
        raise PyRaise("IndexError", node)
    lastelt = h.items.pop()
    if h.items:
        returnitem = h.items[0]
        h.items[0] = lastelt
        _siftup(m, h.items, 0, node)
        return returnitem
    return lastelt


@ext("heapq.heapify", "CPython heapq.heapify (ported verbatim)")
def heapq_heapify(m, args, kw, node):
    h = _heap_list(m, args[0], node)
    m.note_write(h)
    n = len(h.items)
    for i in reversed(range(n // 2)):
        _siftup(m, h.items, i, node)


# -- time / datetime: opaque, only monotonicity of time.time() is modelled ----------------------------


@ext("time.time", "real clock: every call returns a value >= the previous one (arbitrary otherwise)")
def time_time(m, args, kw, node):
    prev = getattr(m, "_clock", None)
    r = m.fresh_scalar("real", "time.time")
    if prev is not None:
        m.assume(r.t >= prev.t)
    else:
        m.assume(r.t >= 0)
    m._clock = r
    m.assumption_notes.add("ambient:time.time -- wall clock, monotone non-decreasing")
    return r


@ext("datetime.datetime.now", "opaque time stamp")
def dt_now(m, args, kw, node):
    return ExtObj("datetime")


@ext("datetime.timedelta", "opaque duration")
def dt_delta(m, args, kw, node):
    return ExtObj("timedelta", {"seconds": kw.get("seconds", args[0] if args else 0)})


@ext("datetime.datetime", "opaque time stamp")
def dt_ctor(m, args, kw, node):
    return ExtObj("datetime")


@ext("collections.defaultdict", "dict that creates missing values with the factory")
def coll_defaultdict(m, args, kw, node):
    d = SDict()
    d.default_factory = args[0] if args else None
    return d


@ext("numpy.random.randint", "GLOBAL numpy RNG: arbitrary integer in [low, high) (ambient randomness, cf. C11)")
def np_random_randint(m, args, kw, node):
    lo = args[0] if args else kw.get("low")
    hi = args[1] if len(args) > 1 else kw.get("high")
    if hi is None:
        lo, hi = 0, lo
    m.assumption_notes.add("ambient:numpy.random.randint -- reads the process-global generator")
    m.path_ambient.append("numpy.random.randint")
    lo_t, hi_t = m.z(m.force(lo), "int"), m.z(m.force(hi), "int")
    if m.branch(lo_t >= hi_t, node):
        raise PyRaise("ValueError", node)
    r = m.fresh_scalar("int", "np.random.randint")
    m.assume(z3.And(r.t >= lo_t, r.t < hi_t))
    return r


@ext("time.sleep", "no effect on program state")
def time_sleep(m, args, kw, node):
    return None


@ext("collections.OrderedDict", "insertion-ordered dict (python dicts are ordered)")
def coll_ordereddict(m, args, kw, node):
    from .builtins import BUILTINS

    return BUILTINS["dict"].fn(m, args, kw, node)


@ext("collections.deque", "double-ended queue used as a stack (append / pop)")
def coll_deque(m, args, kw, node):
    if args:
        return SList(m.iter_concrete(args[0], node))
    return SList()


@ext("time.perf_counter", "monotone clock")
def time_perf_counter(m, args, kw, node):
    return time_time(m, args, kw, node)


for _k in ("numpy.exp", "numpy.log", "numpy.round", "numpy.rint", "numpy.around", "numpy.ceil", "numpy.floor", "numpy.clip", "numpy.abs", "numpy.sqrt"):
    if _k in EXTERNAL:
        EXTERNAL[_k] = elementwise1(EXTERNAL[_k])


@ext("numpy.divide", "true division")
def np_divide(m, args, kw, node):
    a, b = m.force(args[0], node), m.force(args[1], node)
    if getattr(m, "total_ops", False) and not m.in_spec and isinstance(b, (Sym, int, Fraction)) and not isinstance(b, bool):
        # numpy semantics made visible: x / 0 is not an exception but inf / nan; the result carries a "not finite" flag
        bz = m.z(b, "real")
        d = m.fresh_scalar("real", "quot")
        m.assume(z3.Implies(bz != 0, d.t * bz == m.z(a.val if isinstance(a, NanReal) else a, "real")))
        flag = bz == 0
        if isinstance(a, NanReal):
            flag = m.disj([a.isnan, flag])
        return m.mknan(flag, d)
    return m.binop(ast.Div(), a, b, node)


@ext("numpy.log1p", "A-TRANSC: log1p(x) == log(1 + x)")
def np_log1p(m, args, kw, node):
    return EXTERNAL["numpy.log"](m, [m.binop(ast.Add(), 1, args[0], node)], {}, node)


@ext("numpy.expm1", "A-TRANSC: expm1(x) == exp(x) - 1")
def np_expm1(m, args, kw, node):
    return m.binop(ast.Sub(), EXTERNAL["numpy.exp"](m, [args[0]], {}, node), 1, node)


@ext("numpy.random.RandomState", "a private generator; its stream is determined by the seed (uninterpreted)")
def np_randomstate(m, args, kw, node):
    seed = args[0] if args else kw.get("seed")
    return ExtObj("rng", {"seed": m.force(seed, node) if seed is not None else None})


EXTERNAL["numpy.random.mtrand.RandomState"] = np_randomstate


@ext("json.dumps", "serialises its argument to one line of text (opaque string); the argument is recorded")
def json_dumps(m, args, kw, node):
    x = m.snapshot(m.force(args[0], node))
    r = m.fresh_scalar("str", "json")
    m.output_log.append(("json.dumps", x, r))
    if getattr(m, "json_raises", False) and m.choose(2) == 1:
        raise PyRaise("TypeError", node)
    return r


@ext("sys.getsizeof", "size of an object in bytes: an unknown but deterministic function of the object")
def sys_getsizeof(m, args, kw, node):
    x = m.force(args[0], node)
    if isinstance(x, Sym) and x.k == "str":
        f = z3.Function("uf_sizeof", z3.IntSort(), z3.IntSort())
        return Sym(f(x.t), "int")
    return m.fresh_scalar("int", "sizeof")


@ext("sys.stdout.flush", "no effect on program state")
def sys_flush(m, args, kw, node):
    return None


def _uf1(name, note, extra=None):
    def fn(m, args, kw, node):
        a = _real_arg(m, args[0], node)
        az = m.z(a, "real")
        r = m.mk(ufun(name, z3.RealSort(), z3.RealSort())(az), "real")
        if extra is not None:
            m.assume(extra(r.t, az))
        return r

    fn.__name__ = name
    return fn


_ANALYTIC_NOTE = "analytic function symbol: meaning given by the translation table of pyvc/analytic.py (sympy)"
for _dotted, _nm, _extra in (
    ("scipy.special.erfc", "sp_erfc", lambda r, a: z3.And(r > 0, r < 2)),
    ("scipy.special.erf", "sp_erf", lambda r, a: z3.And(r > -1, r < 1)),
    ("scipy.stats.norm.cdf", "norm_cdf", lambda r, a: z3.And(r > 0, r < 1)),
    ("scipy.stats.norm.pdf", "norm_pdf", lambda r, a: r > 0),
    ("numpy.expm1", "np_expm1", lambda r, a: r > -1),
    ("numpy.log1p", "np_log1p", None),
):
    if _dotted not in EXTERNAL:  # expm1 / log1p keep their earlier definition through exp / log
        EXTERNAL[_dotted] = elementwise1(_uf1(_nm, _ANALYTIC_NOTE, _extra))
        TRUSTED_NOTES[_dotted] = _ANALYTIC_NOTE


@ext("numpy.multiply", "product")
def np_multiply(m, args, kw, node):
    return m.binop(ast.Mult(), m.force(args[0], node), m.force(args[1], node), node)


@ext("numpy.square", "square")
def np_square(m, args, kw, node):
    a = m.force(args[0], node)
    return m.binop(ast.Mult(), a, a, node)


for _k in ("numpy.power", "numpy.maximum", "numpy.minimum", "numpy.isnan", "numpy.divide", "numpy.multiply", "numpy.square"):
    if _k in EXTERNAL:
        EXTERNAL[_k] = elementwise1(EXTERNAL[_k])
for _k in list(EXTERNAL):
    if _k.startswith("numpy."):
        EXTERNAL["autograd." + _k] = EXTERNAL[_k]
