"""Python builtins, methods of builtin containers, and the specification
vocabulary (``pyvc.spec``) as seen by the symbolic executor."""
import ast
from fractions import Fraction

import z3

from . import spec as S
from .values import *  # noqa
from .engine import PyRaise, Unsupported, PathInfeasible


def N(name):
    def deco(fn):
        return NativeFn(name, fn)

    return deco


BUILTINS = {}
SPEC_BUILTINS = {}


def builtin(name):
    def deco(fn):
        BUILTINS[name] = NativeFn(name, fn)
        return fn

    return deco


def specfn(name):
    def deco(fn):
        SPEC_BUILTINS[name] = NativeFn(name, fn)
        return fn

    return deco


# ---------------------------------------------------------------------------
# builtins
# ---------------------------------------------------------------------------


@builtin("len")
def b_len(m, args, kw, node):
    return m.length(args[0], node)


@builtin("range")
def b_range(m, args, kw, node):
    args = [m.force(a, node) for a in args]
    if len(args) == 1:
        return SRange(0, args[0], 1)
    if len(args) == 2:
        return SRange(args[0], args[1], 1)
    return SRange(args[0], args[1], args[2])


@builtin("enumerate")
def b_enumerate(m, args, kw, node):
    start = kw.get("start", args[1] if len(args) > 1 else 0)
    return SEnumerate(m.force(args[0], node), start)


@builtin("zip")
def b_zip(m, args, kw, node):
    return SZip([m.force(a, node) for a in args])


@builtin("reversed")
def b_reversed(m, args, kw, node):
    a = m.force(args[0], node)
    try:
        return SList(list(reversed(m.iter_concrete(a, node))))
    except Unsupported:
        src = m.unbounded_source(a)
        if src is None:
            raise
        n = src.length
        return SymList(src.etype, n, lambda i: m.index_nocheck(src, n - 1 - i))


@builtin("list")
def b_list(m, args, kw, node):
    if not args:
        return SList()
    a = m.force(args[0], node)
    try:
        return SList(m.iter_concrete(a, node))
    except Unsupported:
        src = m.unbounded_source(a)
        if src is None:
            raise
        return SymList(src.etype, src.length, src.getter)


@builtin("tuple")
def b_tuple(m, args, kw, node):
    if not args:
        return ()
    return tuple(m.iter_concrete(args[0], node))


@builtin("dict")
def b_dict(m, args, kw, node):
    d = SDict()
    if args:
        a = m.force(args[0], node)
        if isinstance(a, SDict):
            d.d.update(a.d)
        elif isinstance(a, SymMap):
            if kw:
                raise Unsupported("dict(map, **kw)", node)
            return m.snapshot(a)
        else:
            for kv in m.iter_concrete(a, node):
                k, v = m.iter_concrete(kv, node)
                k = m.force(k, node)
                if not (is_concrete_scalar(k) or isinstance(k, tuple)):
                    raise Unsupported("dict() with symbolic key", node)
                d.d[m.dict_key(k)] = v
    for k, v in kw.items():
        d.d[k] = v
    return d


@builtin("set")
def b_set(m, args, kw, node):
    if not args:
        return SSet()
    a = m.force(args[0], node)
    if isinstance(a, (SymSet,)):
        return SymSet(a.ktype, a.has, a.card)
    if isinstance(a, SymMap):
        return SymSet(a.ktype, a.has, a.card)
    try:
        return m.make_set(m.iter_concrete(a, node), node)
    except Unsupported:
        src = m.unbounded_source(a)
        if src is None:
            raise
        return m.symset_of_list(src, node)


@builtin("filter")
def b_filter(m, args, kw, node):
    pred, seq = args[0], m.force(args[1], node)
    src = m.unbounded_source(seq)
    if src is not None:
        src = SymList(src.etype, src.length, src.getter)  # snapshot: later mutations of the list do not show

        def elem(i):
            x = m.index_nocheck(src, i)
            m.nofork += 1
            try:
                c = m.as_bool_term(m.call(pred, [x], {}, node) if pred is not None else x, node)
            finally:
                m.nofork -= 1
            return x, [c]

        return m.filtered_symlist(src, elem, node)
    out = []
    for x in m.iter_concrete(seq, node):
        t = m.truth(m.call(pred, [x], {}, node) if pred is not None else x, node)
        if t if isinstance(t, bool) else m.branch(t, node):
            out.append(x)
    return SList(out)


@builtin("frozenset")
def b_frozenset(m, args, kw, node):
    return b_set(m, args, kw, node)


@builtin("sorted")
def b_sorted(m, args, kw, node):
    return m.sort_values(args[0], kw.get("key"), kw.get("reverse", False), node)


@builtin("sum")
def b_sum(m, args, kw, node):
    acc = args[1] if len(args) > 1 else kw.get("start", 0)
    a = m.force(args[0], node)
    try:
        items = m.iter_concrete(a, node)
    except Unsupported:
        src = m.unbounded_source(a)
        if src is None:
            raise
        return m.sum_unbounded(src, node)
    for x in items:
        acc = m.binop(ast.Add(), acc, x, node)
    return acc


@builtin("min")
def b_min(m, args, kw, node):
    return _minmax(m, args, kw, node, True)


@builtin("max")
def b_max(m, args, kw, node):
    return _minmax(m, args, kw, node, False)


def _minmax(m, args, kw, node, is_min):
    if len(args) == 1:
        items = m.iter_concrete(args[0], node)
    else:
        items = list(args)
    key = kw.get("key")
    if not items:
        if "default" in kw:
            return kw["default"]
        raise PyRaise("ValueError", node)
    best = items[0]
    bk = m.call(key, [best], {}, node) if key is not None else best
    for x in items[1:]:
        xk = m.call(key, [x], {}, node) if key is not None else x
        c = m.compare(ast.Lt() if is_min else ast.Gt(), xk, bk, node)
        ct = c.t if isinstance(c, Sym) else c
        best = m.ite(ct, x, best, node)
        bk = m.ite(ct, xk, bk, node)
    return best


@builtin("abs")
def b_abs(m, args, kw, node):
    a = m.force(args[0], node)
    if isinstance(a, (int, Fraction)) and not isinstance(a, bool):
        return abs(a)
    c = m.compare(ast.GtE(), a, 0, node)
    return m.ite(c.t if isinstance(c, Sym) else c, a, m.unaryop(ast.USub(), a, node), node)


@builtin("any")
def b_any(m, args, kw, node):
    a = m.force(args[0], node)
    try:
        items = m.iter_concrete(a, node)
    except Unsupported:
        src = m.unbounded_source(a)
        if src is None:
            raise
        i = z3.Int(m.fresh_name("i"))
        m.nofork += 1
        try:
            t = m.as_bool_term(m.index_nocheck(src, i), node)
        finally:
            m.nofork -= 1
        return m.mk(z3.Exists([i], z3.And(0 <= i, i < src.length, t)), "bool")
    r = m.disj([m.truth(x, node) for x in items])
    return r if isinstance(r, bool) else m.mk(r, "bool")


@builtin("all")
def b_all(m, args, kw, node):
    a = m.force(args[0], node)
    try:
        items = m.iter_concrete(a, node)
    except Unsupported:
        src = m.unbounded_source(a)
        if src is None:
            raise
        i = z3.Int(m.fresh_name("i"))
        m.nofork += 1
        try:
            t = m.as_bool_term(m.index_nocheck(src, i), node)
        finally:
            m.nofork -= 1
        return m.mk(z3.ForAll([i], z3.Implies(z3.And(0 <= i, i < src.length), t)), "bool")
    r = m.conj([m.truth(x, node) for x in items])
    return r if isinstance(r, bool) else m.mk(r, "bool")


@builtin("int")
def b_int(m, args, kw, node):
    if not args:
        return 0
    a = m.force(args[0], node)
    if isinstance(a, bool):
        return int(a)
    if isinstance(a, int):
        return a
    if isinstance(a, Fraction):
        return int(a)
    if isinstance(a, str):
        try:
            return int(a)
        except ValueError:
            raise PyRaise("ValueError", node)
    if isinstance(a, Sym):
        if a.k == "int":
            return a
        if a.k == "bool":
            return m.mk(m.z(a, "int"), "int")
        if a.k == "real":
            t = a.t
            return m.mk(z3.If(t >= 0, z3.ToInt(t), -z3.ToInt(-t)), "int")
        if a.k == "str":
            # int(str(n)) == n under the string coding (decimal numerals are their value)
            m.assumption_notes.add("int(<symbolic str>) inverts the str(int) coding; non-numeral strings not modelled")
            return m.mk(z3.If(a.t >= 0, a.t, a.t / 2), "int")
    if a is None:
        raise PyRaise("TypeError", node)
    raise Unsupported("int(%r)" % (a,), node)


@builtin("float")
def b_float(m, args, kw, node):
    a = m.force(args[0], node)
    if isinstance(a, NanReal):
        return a
    if isinstance(a, bool):
        return Fraction(int(a))
    if isinstance(a, (int, Fraction)):
        return Fraction(a)
    if isinstance(a, Sym) and a.k in ("int", "bool"):
        return m.mk(m.z(a, "real"), "real")
    if isinstance(a, Sym) and a.k == "real":
        return a
    if isinstance(a, str):
        from . import lib

        if a in ("inf", "+inf", "Infinity"):
            return lib.inf_value(m)
        if a in ("-inf", "-Infinity"):
            return m.unaryop(ast.USub(), lib.inf_value(m), node)
        if a == "nan":
            return NanReal(True, Fraction(0))
        return Fraction(a)
    raise Unsupported("float(%r)" % (a,), node)


@builtin("bool")
def b_bool(m, args, kw, node):
    t = m.truth(args[0], node) if args else False
    return t if isinstance(t, bool) else m.mk(t, "bool")


@builtin("str")
def b_str(m, args, kw, node):
    a = m.force(args[0], node) if args else ""
    if isinstance(a, str):
        return a
    if isinstance(a, bool):
        return str(a)
    if isinstance(a, int):
        return str(a)
    if isinstance(a, Sym) and a.k == "int":
        return Sym(z3.If(a.t >= 0, a.t, 2 * a.t), "str")
    if isinstance(a, Sym) and a.k == "str":
        return a
    return m.fresh_scalar("str", "str")


@builtin("repr")
def b_repr(m, args, kw, node):
    return m.fresh_scalar("str", "repr")


@builtin("round")
def b_round(m, args, kw, node):
    a = m.force(args[0], node)
    if len(args) > 1 or "ndigits" in kw:
        nd = args[1] if len(args) > 1 else kw["ndigits"]
        if isinstance(a, (int, Fraction)) and isinstance(nd, int):
            return Fraction(round(a, nd))
        raise Unsupported("round with ndigits on symbolic", node)
    if isinstance(a, bool):
        return int(a)
    if isinstance(a, int):
        return a
    if isinstance(a, Fraction):
        return round(a)
    if isinstance(a, Sym) and a.k == "int":
        return a
    if isinstance(a, Sym) and a.k == "real":
        return m.mk(round_half_even(a.t), "int")
    raise Unsupported("round(%r)" % (a,), node)


def round_half_even(t):
    fl = z3.ToInt(t)
    fr = t - z3.ToReal(fl)
    half = z3.RealVal("1/2")
    return z3.If(fr < half, fl, z3.If(fr > half, fl + 1, z3.If(fl % 2 == 0, fl, fl + 1)))


@builtin("isinstance")
def b_isinstance(m, args, kw, node):
    v = args[0]
    spec = args[1]
    specs = list(spec) if isinstance(spec, tuple) else [spec]
    res = []
    for sp in specs:
        res.append(m.isinstance_one(v, sp, node))
    r = m.disj(res)
    return r if isinstance(r, bool) else m.mk(r, "bool")


@builtin("issubclass")
def b_issubclass(m, args, kw, node):
    a, b = args
    if isinstance(a, ClassRef) and isinstance(b, ClassRef):
        return b.info in a.info.mro()
    raise Unsupported("issubclass", node)


@builtin("hasattr")
def b_hasattr(m, args, kw, node):
    o = m.force(args[0], node)
    name = args[1]
    if isinstance(o, SObj):
        if name in o.fields:
            return True
        if o.cls is not None:
            return o.cls.find_method(name)[1] is not None or o.cls.find_class_attr(name)[1] is not None
        return False
    raise Unsupported("hasattr on %r" % (o,), node)


@builtin("getattr")
def b_getattr(m, args, kw, node):
    try:
        return m.getattr(args[0], args[1], node)
    except PyRaise as e:
        if e.cls == "AttributeError" and len(args) > 2:
            return args[2]
        raise


@builtin("setattr")
def b_setattr(m, args, kw, node):
    m.setattr(args[0], args[1], args[2], node)


@builtin("callable")
def b_callable(m, args, kw, node):
    return isinstance(args[0], (Func, BoundMethod, NativeFn, ClassRef))


@builtin("next")
def b_next(m, args, kw, node):
    a = m.force(args[0], node)
    try:
        items = m.iter_concrete(a, node)
    except Unsupported:
        src = m.unbounded_source(a)
        if src is None:
            raise
        if len(args) > 1:
            return m.ite(src.length > 0, m.index_nocheck(src, 0), args[1], node)
        if not m.branch(src.length > 0, node):
            raise PyRaise("StopIteration", node)
        return m.index_nocheck(src, 0)
    if items:
        return items[0]
    if len(args) > 1:
        return args[1]
    raise PyRaise("StopIteration", node)


@builtin("iter")
def b_iter(m, args, kw, node):
    return args[0]


@builtin("id")
def b_id(m, args, kw, node):
    raise Unsupported("id()", node)


@builtin("type")
def b_type(m, args, kw, node):
    o = m.force(args[0], node)
    if isinstance(o, SObj) and o.cls is not None:
        return ClassRef(o.cls)
    if isinstance(o, ExtObj) and o.kind == "exception":
        return ExtObj("exception", o.data)
    k = m.kind_of(o)
    if k in ("int", "real", "str", "bool"):
        return ExtObj("pytype", {"name": {"int": "int", "real": "float", "str": "str", "bool": "bool"}[k]})
    raise Unsupported("type(%r)" % (o,), node)


for _n in ("int", "float", "str", "bool", "list", "dict", "tuple", "set"):
    BUILTINS[_n].pytype = _n

for _e in list(__import__("pyvc.engine", fromlist=["EXC_PARENTS"]).EXC_PARENTS) + ["BaseException"]:
    BUILTINS[_e] = NativeFn(_e, (lambda name: (lambda m, args, kw, node: ExtObj("exception", {"cls": name, "args": args})))(_e))
    BUILTINS[_e].exc_name = _e

BUILTINS["True"] = True
BUILTINS["False"] = False
BUILTINS["None"] = None
BUILTINS["NotImplemented"] = ExtObj("NotImplemented")
BUILTINS["object"] = ExtObj("pytype", {"name": "object"})
BUILTINS["Ellipsis"] = None


# ---------------------------------------------------------------------------
# specification vocabulary
# ---------------------------------------------------------------------------


@specfn("implies")
def s_implies(m, args, kw, node):
    a = m.truth(args[0], node)
    b = m.truth(args[1], node)
    if isinstance(a, bool):
        return True if not a else (b if isinstance(b, bool) else m.mk(b, "bool"))
    bz = z3.BoolVal(b) if isinstance(b, bool) else b
    return m.mk(z3.Implies(a, bz), "bool")


@specfn("iff")
def s_iff(m, args, kw, node):
    a = m.as_bool_term(args[0], node)
    b = m.as_bool_term(args[1], node)
    return m.mk(a == b, "bool")


@specfn("ite")
def s_ite(m, args, kw, node):
    c = m.truth(args[0], node)
    return m.ite(c, args[1], args[2], node)


def _quant(m, args, node, universal):
    rng = m.force(args[0], node)
    pred = args[1]
    # concrete ranges / collections: finite conjunction
    try:
        items = m.iter_concrete(rng, node)
    except Unsupported:
        items = None
    if items is not None:
        ts = [m.truth(m.call(pred, [x], {}, node), node) for x in items]
        r = m.conj(ts) if universal else m.disj(ts)
        return r if isinstance(r, bool) else m.mk(r, "bool")
    i = z3.Int(m.fresh_name("q"))
    if isinstance(rng, SRange):
        if rng.step != 1:
            raise Unsupported("quantifier over stepped range", node)
        guard = z3.And(m.z(rng.lo, "int") <= i, i < m.z(rng.hi, "int"))
        x = Sym(i, "int")
    else:
        src = m.unbounded_source(rng)
        if src is None:
            raise Unsupported("quantifier over %r" % (rng,), node)
        guard = z3.And(0 <= i, i < src.length)
        x = m.index_nocheck(src, i)
    m.nofork += 1
    try:
        body = m.as_bool_term(m.call(pred, [x], {}, node), node)
    finally:
        m.nofork -= 1
    if universal:
        return m.mk(z3.ForAll([i], z3.Implies(guard, body)), "bool")
    return m.mk(z3.Exists([i], z3.And(guard, body)), "bool")


@specfn("forall")
def s_forall(m, args, kw, node):
    return _quant(m, args, node, True)


@specfn("exists")
def s_exists(m, args, kw, node):
    return _quant(m, args, node, False)


@specfn("count")
def s_count(m, args, kw, node):
    items = m.iter_concrete(args[0], node)
    acc = 0
    m.nofork += 1
    try:
        for x in items:
            t = m.truth(m.call(args[1], [x], {}, node), node)
            acc = m.binop(ast.Add(), acc, m.ite(t, 1, 0, node), node)
    finally:
        m.nofork -= 1
    return acc


@specfn("is_none")
def s_is_none(m, args, kw, node):
    r = m.identical(args[0], None, node)
    return r if isinstance(r, bool) else m.mk(r, "bool")


@specfn("same_object")
def s_same_object(m, args, kw, node):
    a = m.force(args[0], node)
    b = m.force(args[1], node)
    return a is b


@specfn("real")
def s_real(m, args, kw, node):
    return b_float(m, args, kw, node)


@specfn("floor_int")
def s_floor_int(m, args, kw, node):
    a = m.force(args[0], node)
    if isinstance(a, (int, Fraction)):
        import math

        return math.floor(a)
    if a.k == "int":
        return a
    return m.mk(z3.ToInt(a.t), "int")


@specfn("ceil_int")
def s_ceil_int(m, args, kw, node):
    a = m.force(args[0], node)
    if isinstance(a, (int, Fraction)):
        import math

        return math.ceil(a)
    if a.k == "int":
        return a
    return m.mk(-z3.ToInt(-a.t), "int")


@specfn("seq_eq")
def s_seq_eq(m, args, kw, node):
    a = m.force(args[0], node)
    b = m.force(args[1], node)
    if isinstance(a, SSorted):
        a = a.inner
    if isinstance(b, SSorted):
        b = b.inner
    if isinstance(a, tuple):
        a = SList(list(a))
    if isinstance(b, tuple):
        b = SList(list(b))
    m.in_spec += 1
    try:
        r = m.equal(a, b, node)
    finally:
        m.in_spec -= 1
    return r if isinstance(r, bool) else m.mk(r, "bool")


@specfn("ghost")
def s_ghost(m, args, kw, node):
    g = getattr(m, "ghost_state", None)
    if g is None or args[0] not in g:
        raise Unsupported("ghost variable %r" % (args[0],), node)
    return g[args[0]]


@specfn("is_nan")
def s_is_nan(m, args, kw, node):
    a = m.force(args[0], node)
    if isinstance(a, NanReal):
        return a.isnan if isinstance(a.isnan, bool) else m.mk(a.isnan, "bool")
    return False


@specfn("str_of_int")
def s_str_of_int(m, args, kw, node):
    return b_str(m, args, kw, node)


@specfn("unconstrained")
def s_unconstrained(m, args, kw, node):
    return True


# ---------------------------------------------------------------------------
# methods of builtin values
# ---------------------------------------------------------------------------


def builtin_method(m, o, name, node):
    tbl = None
    if isinstance(o, SList):
        tbl = LIST_METHODS
    elif isinstance(o, SymList):
        tbl = SYMLIST_METHODS
    elif isinstance(o, SDict):
        tbl = DICT_METHODS
    elif isinstance(o, SADict):
        tbl = ADICT_METHODS
    elif isinstance(o, SymMap):
        tbl = SYMMAP_METHODS
    elif isinstance(o, (SSet,)):
        tbl = SET_METHODS
    elif isinstance(o, SymSet):
        tbl = SYMSET_METHODS
    elif isinstance(o, SSorted):
        tbl = SORTED_METHODS
    elif isinstance(o, str):
        tbl = STR_METHODS
    elif isinstance(o, tuple):
        tbl = TUPLE_METHODS
    elif isinstance(o, Sym) and o.k == "str":
        tbl = SYMSTR_METHODS
    elif isinstance(o, (Fraction,)) or (isinstance(o, Sym) and o.k == "real"):
        tbl = FLOAT_METHODS
    if tbl is None or name not in tbl:
        return None
    fn = tbl[name]
    return NativeFn("%s.%s" % (type(o).__name__, name), lambda mach, args, kw, nd, o=o, fn=fn: fn(mach, o, args, kw, nd))


def _l_append(m, o, args, kw, node):
    m.note_write(o)
    o.items.append(args[0])


def _l_extend(m, o, args, kw, node):
    m.note_write(o)
    o.items.extend(m.iter_concrete(args[0], node))


def _l_pop(m, o, args, kw, node):
    m.note_write(o)
    if not o.items:
        raise PyRaise("IndexError", node)
    i = m.force(args[0], node) if args else -1
    if isinstance(i, int):
        if -len(o.items) <= i < len(o.items):
            return o.items.pop(i)
        raise PyRaise("IndexError", node)
    if isinstance(i, Sym):
        n = len(o.items)
        if not m.branch(z3.And(i.t >= 0, i.t < n), node):
            raise PyRaise("IndexError", node)
        # fork over the position (concrete shape afterwards)
        for j in range(n):
            if j == n - 1 or m.branch(i.t == j, node):
                return o.items.pop(j)
    raise Unsupported("list.pop index", node)


def _l_insert(m, o, args, kw, node):
    m.note_write(o)
    i = m.force(args[0], node)
    if isinstance(i, int):
        o.items.insert(i, args[1])
        return
    raise Unsupported("list.insert symbolic index", node)


def _l_remove(m, o, args, kw, node):
    m.note_write(o)
    for j, y in enumerate(o.items):
        e = m.equal(args[0], y, node)
        if e if isinstance(e, bool) else m.branch(e, node):
            del o.items[j]
            return
    raise PyRaise("ValueError", node)


def _l_index(m, o, args, kw, node):
    for j, y in enumerate(o.items):
        e = m.equal(args[0], y, node)
        if e if isinstance(e, bool) else m.branch(e, node):
            return j
    raise PyRaise("ValueError", node)


def _l_count(m, o, args, kw, node):
    acc = 0
    for y in o.items:
        e = m.equal(args[0], y, node)
        acc = m.binop(ast.Add(), acc, m.ite(e, 1, 0, node), node)
    return acc


def _l_copy(m, o, args, kw, node):
    return SList(o.items)


def _l_clear(m, o, args, kw, node):
    m.note_write(o)
    o.items = []


def _l_sort(m, o, args, kw, node):
    m.note_write(o)
    r = m.sort_values(o, kw.get("key"), kw.get("reverse", False), node)
    o.items = r.items


def _l_reverse(m, o, args, kw, node):
    m.note_write(o)
    o.items.reverse()


LIST_METHODS = {
    "append": _l_append,
    "extend": _l_extend,
    "pop": _l_pop,
    "insert": _l_insert,
    "remove": _l_remove,
    "index": _l_index,
    "count": _l_count,
    "copy": _l_copy,
    "clear": _l_clear,
    "sort": _l_sort,
    "reverse": _l_reverse,
}


def _sl_append(m, o, args, kw, node):
    m.note_write(o)
    n = o.length
    v = args[0]
    og = o.getter
    o.getter = lambda i, og=og, n=n, v=v: m.ite(i == n, v, og(i))
    o.length = n + 1
    o.version += 1


def _sl_pop(m, o, args, kw, node):
    m.note_write(o)
    if not m.branch(o.length > 0, node):
        raise PyRaise("IndexError", node)
    if not args:
        v = m.index_nocheck(o, o.length - 1)
        o.length = o.length - 1
        o.version += 1
        return v
    i = m.force(args[0], node)
    it = m.z(i, "int")
    if isinstance(i, int) and i < 0:
        it = o.length + i
    if not m.branch(z3.And(it >= 0, it < o.length), node):
        raise PyRaise("IndexError", node)
    v = m.index_nocheck(o, it)
    if isinstance(v, SObj):
        v = m.shallow_copy(v)
    og = o.getter
    o.getter = lambda j, og=og, it=it: m.ite(j < it, og(j), og(j + 1))
    o.length = o.length - 1
    o.version += 1
    return v


def _sl_copy(m, o, args, kw, node):
    return SymList(o.etype, o.length, o.getter)


def _sl_extend(m, o, args, kw, node):
    m.note_write(o)
    other = m.force(args[0], node)
    src = m.unbounded_source(other)
    if src is None:
        for x in m.iter_concrete(other, node):
            _sl_append(m, o, [x], {}, node)
        return
    n0, og = o.length, o.getter
    o.getter = lambda i, og=og, n0=n0, src=src: m.ite(i < n0, og(i), m.index_nocheck(src, i - n0))
    o.length = n0 + src.length
    o.version += 1


SYMLIST_METHODS = {"append": _sl_append, "pop": _sl_pop, "copy": _sl_copy, "extend": _sl_extend}


def _d_get(m, o, args, kw, node):
    k = m.force(args[0], node)
    default = args[1] if len(args) > 1 else kw.get("default")
    if is_concrete_scalar(k) or isinstance(k, tuple):
        return o.d.get(m.dict_key(k), default)
    for kk, vv in o.d.items():
        e = m.equal(k, kk, node)
        if e if isinstance(e, bool) else m.branch(e, node):
            return vv
    return default


def _d_items(m, o, args, kw, node):
    return SList([(k, v) for k, v in o.d.items()])


def _d_keys(m, o, args, kw, node):
    return SList(list(o.d.keys()))


def _d_values(m, o, args, kw, node):
    return SList(list(o.d.values()))


def _d_update(m, o, args, kw, node):
    m.note_write(o)
    if args:
        a = m.force(args[0], node)
        if isinstance(a, SDict):
            o.d.update(a.d)
        elif isinstance(a, SADict):
            for k, v in zip(a.keys, a.vals):
                m.setitem(o, k, v, node)
            return
        else:
            for kv in m.iter_concrete(a, node):
                k, v = m.iter_concrete(kv, node)
                o.d[m.dict_key(m.force(k, node))] = v
    for k, v in kw.items():
        o.d[k] = v
    m.writeback(o)


def _d_pop(m, o, args, kw, node):
    m.note_write(o)
    k = m.dict_key(m.force(args[0], node))
    if not (is_concrete_scalar(k) or isinstance(k, tuple)):
        raise Unsupported("dict.pop symbolic key", node)
    if k in o.d:
        v = o.d.pop(k)
        m.writeback(o)
        return v
    if len(args) > 1:
        return args[1]
    raise PyRaise("KeyError", node)


def _d_copy(m, o, args, kw, node):
    return SDict(o.d)


def _d_setdefault(m, o, args, kw, node):
    k = m.dict_key(m.force(args[0], node))
    if not (is_concrete_scalar(k) or isinstance(k, tuple)):
        raise Unsupported("dict.setdefault symbolic key", node)
    if k not in o.d:
        m.note_write(o)
        o.d[k] = args[1] if len(args) > 1 else None
    return o.d[k]


def _d_clear(m, o, args, kw, node):
    m.note_write(o)
    o.d.clear()


DICT_METHODS = {
    "get": _d_get,
    "items": _d_items,
    "keys": _d_keys,
    "values": _d_values,
    "update": _d_update,
    "pop": _d_pop,
    "copy": _d_copy,
    "setdefault": _d_setdefault,
    "clear": _d_clear,
}


def _m_get(m, o, args, kw, node):
    k = m.force(args[0], node)
    default = args[1] if len(args) > 1 else kw.get("default")
    if k is None:
        return default
    kt = m.z(k)
    if m.nofork or m.in_spec:
        return m.ite(o.has(kt), o.get(kt), default, node)
    if m.branch(o.has(kt), node):
        return m.getitem(o, k, node)
    return default


def _m_pop(m, o, args, kw, node):
    k = m.force(args[0], node)
    kt = m.z(k)
    m.note_write(o)
    if m.branch(o.has(kt), node):
        v = o.get(kt)
        m.symmap_delete(o, kt, node)
        return v
    if len(args) > 1:
        return args[1]
    raise PyRaise("KeyError", node)


def _m_copy(m, o, args, kw, node):
    return m.snapshot(o)


def _m_keys(m, o, args, kw, node):
    if o.keyseq is not None:
        return o.keyseq
    raise Unsupported("keys() of an unbounded map (no ghost key sequence)", node)


def _ad_get(m, o, args, kw, node):
    default = args[1] if len(args) > 1 else kw.get("default")
    k = m.force(args[0], node)
    for kk, vv in zip(o.keys, o.vals):
        e = m.equal(k, kk, node)
        if e if isinstance(e, bool) else m.branch(e, node):
            return vv
    return default


def _ad_pop(m, o, args, kw, node):
    k = m.force(args[0], node)
    for i, kk in enumerate(o.keys):
        e = m.equal(k, kk, node)
        if e if isinstance(e, bool) else m.branch(e, node):
            m.note_write(o)
            del o.keys[i]
            return o.vals.pop(i)
    if len(args) > 1:
        return args[1]
    raise PyRaise("KeyError", node)


def _ad_update(m, o, args, kw, node):
    m.note_write(o)
    if args:
        a = m.force(args[0], node)
        if isinstance(a, SADict):
            pairs = list(zip(a.keys, a.vals))
        elif isinstance(a, SDict):
            pairs = list(a.d.items())
        else:
            pairs = [tuple(m.iter_concrete(kv, node)) for kv in m.iter_concrete(a, node)]
        for k, v in pairs:
            m.setitem(o, k, v, node)
    for k, v in kw.items():
        m.setitem(o, k, v, node)


ADICT_METHODS = {
    "update": _ad_update,
    "get": _ad_get,
    "pop": _ad_pop,
    "values": lambda m, o, args, kw, node: SList(list(o.vals)),
    "keys": lambda m, o, args, kw, node: SList(list(o.keys)),
    "items": lambda m, o, args, kw, node: SList([(k, v) for k, v in zip(o.keys, o.vals)]),
    "copy": lambda m, o, args, kw, node: SADict(o.keys, o.vals),
}

SYMMAP_METHODS = {"get": _m_get, "pop": _m_pop, "copy": _m_copy, "keys": _m_keys}


def _s_add(m, o, args, kw, node):
    m.note_write(o)
    x = m.force(args[0], node)
    if _deep_concrete(x) and all(_deep_concrete(y) for y in o.s):
        if x not in o.s:
            o.s.append(x)
        return
    if isinstance(x, tuple):
        # tuples with symbolic components: membership decided on this path
        if _s_find(m, o, x, node) is None:
            o.s.append(x)
        return
    if isinstance(x, Sym) and x.k in ("int", "str") and all(m.kind_of(y) in ("int", "str") for y in o.s):
        # continue as a set with symbolic members
        zs = [m.z(y) for y in o.s]
        n0 = len(o.s)
        o.__class__ = SymSet
        o.__dict__.pop("s", None)
        o.ktype = S.Str if x.k == "str" else S.Int
        o.has = (lambda k, zs=zs: z3.Or(*[k == y for y in zs])) if zs else (lambda k: z3.BoolVal(False))
        o.card = z3.IntVal(n0)
        return _ss_add(m, o, [x], kw, node)
    raise Unsupported("symbolic element added to a concrete set (declare the field as SetT)", node)


def _deep_concrete(x):
    if isinstance(x, tuple):
        return all(_deep_concrete(y) for y in x)
    return is_concrete_scalar(x)


def _s_find(m, o, x, node):
    """position of x in a concrete set (decided on this path when x is symbolic), else None"""
    if _deep_concrete(x) and all(_deep_concrete(y) for y in o.s):
        return o.s.index(x) if x in o.s else None
    for i, y in enumerate(o.s):
        e = m.equal(x, y, node)
        if e if isinstance(e, bool) else m.branch(e, node):
            return i
    return None


def _s_remove(m, o, args, kw, node):
    m.note_write(o)
    x = m.force(args[0], node)
    i = _s_find(m, o, x, node)
    if i is not None:
        del o.s[i]
        return
    raise PyRaise("KeyError", node)


def _s_discard(m, o, args, kw, node):
    m.note_write(o)
    x = m.force(args[0], node)
    i = _s_find(m, o, x, node)
    if i is not None:
        del o.s[i]


def _s_union(m, o, args, kw, node):
    r = list(o.s)
    for a in args:
        for x in m.iter_concrete(a, node):
            if x not in r:
                r.append(x)
    return SSet(r)


def _s_copy(m, o, args, kw, node):
    return SSet(o.s)


def _s_update(m, o, args, kw, node):
    m.note_write(o)
    for a in args:
        for x in m.iter_concrete(a, node):
            if x not in o.s:
                o.s.append(x)


def _s_difference(m, o, args, kw, node):
    other = []
    for a in args:
        other.extend(m.iter_concrete(a, node))
    return SSet([x for x in o.s if x not in other])


def _s_intersection(m, o, args, kw, node):
    r = list(o.s)
    for a in args:
        items = m.iter_concrete(a, node)
        r = [x for x in r if x in items]
    return SSet(r)


def _s_issubset(m, o, args, kw, node):
    items = m.iter_concrete(args[0], node)
    return all(x in items for x in o.s)


def _s_difference_update(m, o, args, kw, node):
    m.note_write(o)
    for a in args:
        for x in m.iter_concrete(a, node):
            i = _s_find(m, o, m.force(x, node), node)
            if i is not None:
                del o.s[i]


SET_METHODS = {
    "difference_update": _s_difference_update,
    "add": _s_add,
    "remove": _s_remove,
    "discard": _s_discard,
    "union": _s_union,
    "copy": _s_copy,
    "update": _s_update,
    "difference": _s_difference,
    "intersection": _s_intersection,
    "issubset": _s_issubset,
}


def _ss_add(m, o, args, kw, node):
    m.note_write(o)
    x = m.force(args[0], node)
    xt = m.z(x)
    oh, oc = o.has, o.card
    o.card = z3.If(oh(xt), oc, oc + 1)
    o.has = lambda k, oh=oh, xt=xt: z3.Or(k == xt, oh(k))


def _ss_remove(m, o, args, kw, node):
    m.note_write(o)
    x = m.force(args[0], node)
    xt = m.z(x)
    if not m.branch(o.has(xt), node):
        raise PyRaise("KeyError", node)
    oh, oc = o.has, o.card
    o.card = oc - 1
    o.has = lambda k, oh=oh, xt=xt: z3.And(k != xt, oh(k))


def _ss_discard(m, o, args, kw, node):
    m.note_write(o)
    x = m.force(args[0], node)
    xt = m.z(x)
    oh, oc = o.has, o.card
    o.card = z3.If(oh(xt), oc - 1, oc)
    o.has = lambda k, oh=oh, xt=xt: z3.And(k != xt, oh(k))


def _ss_copy(m, o, args, kw, node):
    return SymSet(o.ktype, o.has, o.card)


def _ss_update(m, o, args, kw, node):
    for a in args:
        for x in m.iter_concrete(a, node):
            _ss_add(m, o, [x], {}, node)


def _ss_difference_update(m, o, args, kw, node):
    for a in args:
        for x in m.iter_concrete(a, node):
            _ss_discard(m, o, [x], {}, node)


SYMSET_METHODS = {"add": _ss_add, "remove": _ss_remove, "discard": _ss_discard, "copy": _ss_copy, "update": _ss_update, "difference_update": _ss_difference_update}


# -- SortedList (trusted library contract) ------------------------------------------


def sorted_insert_pos(m, o, keyv, node):
    """position of ``bisect_right`` insertion for key value ``keyv``: after equal keys"""
    inner = o.inner
    if isinstance(inner, SList):
        n = len(inner.items)
        # choose the position p with key[p-1] <= keyv < key[p]
        for p in range(n):
            kp = o.key(inner.items[p])
            c = m.compare(ast.Lt(), keyv, kp, node)
            if c if isinstance(c, bool) else m.branch(c.t, node):
                return p
        return n
    # unbounded: existential position constrained by sortedness
    p = z3.Int(m.fresh_name("ins.pos"))
    n = inner.length
    m.assume(z3.And(p >= 0, p <= n))
    j = z3.Int(m.fresh_name("j"))
    m.nofork += 1
    try:
        kj = o.key(m.index_nocheck(inner, j))
        le = m.as_bool_term(m.compare(ast.LtE(), kj, keyv, node))
        gt = m.as_bool_term(m.compare(ast.Gt(), kj, keyv, node))
    finally:
        m.nofork -= 1
    m.assume(z3.ForAll([j], z3.Implies(z3.And(0 <= j, j < p), le)))
    m.assume(z3.ForAll([j], z3.Implies(z3.And(p <= j, j < n), gt)))
    return p


def _so_add(m, o, args, kw, node):
    e = args[0]
    m.note_write(o)
    m.note_write(o.inner)
    keyv = o.key(e)
    p = sorted_insert_pos(m, o, keyv, node)
    inner = o.inner
    if isinstance(inner, SList):
        inner.items.insert(p, e)
        return
    og = inner.getter
    inner.getter = lambda i, og=og, p=p, e=e: m.ite(i < p, og(i), m.ite(i == p, e, og(i - 1)))
    inner.length = inner.length + 1
    inner.version += 1


def _so_pop(m, o, args, kw, node):
    m.note_write(o)
    if isinstance(o.inner, SList):
        return _l_pop(m, o.inner, args, kw, node)
    return _sl_pop(m, o.inner, args, kw, node)


def _so_islice(m, o, args, kw, node):
    lo = args[0] if args else kw.get("start")
    hi = args[1] if len(args) > 1 else kw.get("stop")
    return m.getslice(o.inner, slice(lo, hi, None), node)


def _so_copy(m, o, args, kw, node):
    return SSorted(m.snapshot(o.inner), o.key)


def _so_index(m, o, args, kw, node):
    if isinstance(o.inner, SList):
        return _l_index(m, o.inner, args, kw, node)
    raise Unsupported("SortedList.index unbounded", node)


def _so_remove(m, o, args, kw, node):
    if isinstance(o.inner, SList):
        return _l_remove(m, o.inner, args, kw, node)
    raise Unsupported("SortedList.remove unbounded", node)


SORTED_METHODS = {"add": _so_add, "pop": _so_pop, "islice": _so_islice, "copy": _so_copy, "index": _so_index, "remove": _so_remove}


def _str_method(name):
    def fn(m, o, args, kw, node):
        if all(isinstance(a, (str, int, tuple)) for a in args):
            r = getattr(o, name)(*args)
            if isinstance(r, list):
                return SList(r)
            return r
        raise Unsupported("str.%s with symbolic argument" % name, node)

    return fn


def _str_format(m, o, args, kw, node):
    return m.fresh_scalar("str", "fmt")


def _str_join(m, o, args, kw, node):
    items = m.iter_concrete(args[0], node)
    if all(isinstance(x, str) for x in items):
        return o.join(items)
    return m.fresh_scalar("str", "join")


STR_METHODS = {k: _str_method(k) for k in ("startswith", "endswith", "split", "strip", "lower", "upper", "replace", "rstrip", "lstrip", "find", "isdigit")}
STR_METHODS["format"] = _str_format
STR_METHODS["join"] = _str_join
SYMSTR_METHODS = {"format": _str_format}

TUPLE_METHODS = {
    "index": lambda m, o, args, kw, node: _l_index(m, SList(list(o)), args, kw, node),
    "count": lambda m, o, args, kw, node: _l_count(m, SList(list(o)), args, kw, node),
}

FLOAT_METHODS = {
    "is_integer": lambda m, o, args, kw, node: (o.denominator == 1) if isinstance(o, Fraction) else m.mk(z3.ToReal(z3.ToInt(o.t)) == o.t, "bool"),
}


@specfn("req")
def s_req(m, args, kw, node):
    r = m.equal(args[0], args[1], node)
    return r if isinstance(r, bool) else m.mk(r, "bool")


@specfn("unchanged")
def s_unchanged(m, args, kw, node):
    m.in_spec += 1
    try:
        r = m.equal(args[0], args[1], node)
    finally:
        m.in_spec -= 1
    return r if isinstance(r, bool) else m.mk(r, "bool")


@specfn("forall_keys_kept")
def s_forall_keys_kept(m, args, kw, node):
    new, old, rk = m.force(args[0], node), m.force(args[1], node), m.force(args[2], node)
    if not (isinstance(new, SymMap) and isinstance(old, SymMap)):
        raise Unsupported("forall_keys_kept on %r" % (new,), node)
    k = z3.Int(m.fresh_name("key"))
    m.nofork += 1
    m.in_spec += 1
    try:
        ev = m.equal(new.get(k), old.get(k), node)
    finally:
        m.nofork -= 1
        m.in_spec -= 1
    ev = z3.BoolVal(ev) if isinstance(ev, bool) else ev
    body = z3.Implies(k != m.z(rk), z3.And(new.has(k) == old.has(k), z3.Implies(old.has(k), ev)))
    return m.mk(z3.ForAll([k], body), "bool")


@specfn("check")
def s_check(m, args, kw, node):
    name = args[0]
    t = m.truth(args[1], node)
    pref = getattr(m, "check_prefix", "")
    m.check("%s/check[%s]" % (pref, name), t, "check")
    # after a check the property is assumed (standard assert-then-assume), so that one
    # failure is not reported again by every later check on the same path
    m.assume(t)
    return True


@specfn("assume")
def s_assume(m, args, kw, node):
    m.assume(m.truth(args[0], node))
    return True


@specfn("arbitrary")
def s_arbitrary(m, args, kw, node):
    """arbitrary(name, T): a fresh value of type T chosen by the environment (recorded for native replay)"""
    name = args[0]
    t = args[1]
    if isinstance(t, ExtObj) and t.kind == "specdata":
        t = t.data["value"]
    v = m.fresh(t, "arb." + str(name), getattr(m, "shape", None))
    m.abstract_returns.append(("arbitrary", str(name), v))
    return v


@specfn("infinity")
def s_infinity(m, args, kw, node):
    from . import lib

    return lib.inf_value(m)


@specfn("uf")
def s_uf(m, args, kw, node):
    """uf(name, *scalars): application of an uninterpreted function (a deterministic but unknown map)"""
    name = args[0]
    zs = [m.z(m.force(a, node)) for a in args[1:]]
    sorts = [z.sort() for z in zs]
    f = z3.Function("uf_" + str(name), *(sorts + [z3.IntSort()]))
    return Sym(f(*zs), "str" if kw.get("kind") == "str" else "int")


@specfn("const_map")
def s_const_map(m, args, kw, node):
    """const_map(v): a total map that sends every key to v (resets a ghost map)"""
    v = args[0]
    return SymMap(S.Int, None, lambda k: z3.BoolVal(True), lambda k, v=v: v, z3.IntVal(0))


@specfn("ambient_reads")
def s_ambient_reads(m, args, kw, node):
    """number of reads of process-global nondeterminism (global RNGs) on this path"""
    return len(m.path_ambient)


@specfn("seed_of")
def s_seed_of(m, args, kw, node):
    o = m.force(args[0], node)
    if isinstance(o, ExtObj) and o.kind == "rng":
        return o.data.get("seed")
    raise Unsupported("seed_of(%r)" % (o,), node)


@specfn("outputs")
def s_outputs(m, args, kw, node):
    """what the function handed to serialisation / output functions, in order: [(function, argument, text)]"""
    return SList([tuple(e) for e in m.output_log])


@specfn("size_of_text")
def s_size_of_text(m, args, kw, node):
    x = m.force(args[0], node)
    f = z3.Function("uf_sizeof", z3.IntSort(), z3.IntSort())
    return Sym(f(m.z(x)), "int")


def _flat_reals(m, v, node):
    v = m.force(v, node)
    if type(v).__name__ == "SArr":
        return list(v.data)
    if isinstance(v, (SList, tuple)):
        out = []
        for x in (v.items if isinstance(v, SList) else v):
            out.extend(_flat_reals(m, x, node))
        return out
    return [v]


@specfn("is_gradient")
def s_is_gradient(m, args, kw, node):
    """is_gradient(f, x, g): g[j] is the partial derivative of f(x) with respect to x[j], for every j.
    f is evaluated once, symbolically, on the input array x (whose elements must be input constants); the claim is
    handed to the analytic back end (pyvc/analytic.py)."""
    from . import analytic

    f, x, g = args[0], m.force(args[1], node), m.force(args[2], node)
    val = m.call_function(f, [x], {}, node)
    vals = _flat_reals(m, val, node)
    if len(vals) != 1:
        raise Unsupported("is_gradient: value is not a scalar", node)
    xs = _flat_reals(m, x, node)
    gs = _flat_reals(m, g, node)
    if len(xs) != len(gs):
        return False
    vz = m.z(vals[0], "real")
    out = []
    for xj, gj in zip(xs, gs):
        if not (isinstance(xj, Sym) and z3.is_const(xj.t) and xj.t.decl().kind() == z3.Z3_OP_UNINTERPRETED):
            raise Unsupported("is_gradient: differentiation variable is not a symbolic input", node)
        out.append(analytic.pred_deriv()(vz, xj.t, m.z(gj, "real")))
    return m.mk(z3.And(*out) if len(out) != 1 else out[0], "bool")


@specfn("analytic_eq")
def s_analytic_eq(m, args, kw, node):
    """the two real-analytic expressions are identical as functions of the inputs (decided by the analytic back end)"""
    from . import analytic

    a = _flat_reals(m, args[0], node)
    b = _flat_reals(m, args[1], node)
    if len(a) != len(b):
        return False
    out = [analytic.pred_eq()(m.z(x, "real"), m.z(y, "real")) for x, y in zip(a, b)]
    return m.mk(z3.And(*out) if len(out) != 1 else out[0], "bool")


def _spec_uf(name):
    def fn(m, args, kw, node):
        from . import lib

        return lib.EXTERNAL[name](m, args, kw, node)

    return fn


SPEC_BUILTINS["std_normal_cdf"] = NativeFn("std_normal_cdf", _spec_uf("scipy.stats.norm.cdf"))
SPEC_BUILTINS["std_normal_pdf"] = NativeFn("std_normal_pdf", _spec_uf("scipy.stats.norm.pdf"))
SPEC_BUILTINS["real_exp"] = NativeFn("real_exp", _spec_uf("numpy.exp"))
SPEC_BUILTINS["real_log"] = NativeFn("real_log", _spec_uf("numpy.log"))
SPEC_BUILTINS["real_sqrt"] = NativeFn("real_sqrt", _spec_uf("numpy.sqrt"))
SPEC_BUILTINS["real_pow"] = NativeFn("real_pow", _spec_uf("numpy.power"))
SPEC_BUILTINS["real_expm1"] = NativeFn("real_expm1", _spec_uf("numpy.expm1"))


@specfn("is_finite")
def s_is_finite(m, args, kw, node):
    """the float is neither NaN nor infinite (A-REAL: every real is finite; only flagged values are not)"""
    v = m.force(args[0], node)
    if isinstance(v, NanReal):
        f = v.isnan
        return (not f) if isinstance(f, bool) else m.mk(z3.Not(f), "bool")
    return True


@specfn("joint_jitter")
def s_joint_jitter(m, args, kw, node):
    """the total diagonal term (initial value + jitter found by the search) of the last AddJitterOp call"""
    if not m.ghost_jitter:
        raise Unsupported("joint_jitter: no AddJitterOp call on this path", node)
    return m.ghost_jitter[-1]


@specfn("analytic_eq_mod")
def s_analytic_eq_mod(m, args, kw, node):
    """analytic_eq modulo the defining equations F F^T = A of the Cholesky factors created on this path: if ``got`` is (as a
    polynomial) an entry of some F F^T, the claim becomes  A_ij == want  for the analytic back end; otherwise the plain
    equality is left to z3 (which can refute it with a counter-model)"""
    from . import analytic

    got = m.z(m.force(args[0], node), "real")
    want = m.z(m.force(args[1], node), "real")
    for P, a in m.path_cache.get("chol_defs", []):
        s = z3.Solver()
        s.set("timeout", 1000)
        s.add(got != P)
        if s.check() == z3.unsat:
            return m.mk(analytic.pred_eq()(a, want), "bool")
    return m.mk(got == want, "bool")


@specfn("real_pi")
def s_real_pi(m, args, kw, node):
    from . import lib

    return lib.CONSTANTS["numpy.pi"](m)
