"""Specification vocabulary shared by the symbolic and the native side.

Contract files (``/verif/contracts/*.py``) import only this module.  When a
contract is *natively* executed (replay of a counter-model, run-time
monitoring under /venv/bin/python) the definitions below are what runs.  When
it is *symbolically* executed by pyvc, calls to these names are intercepted by
the engine (see ``engine.SPEC_BUILTINS``) and turned into z3 terms; the Python
bodies here are then not used.

Also contains the *type descriptors* used to declare the shape of symbolic
inputs.  They are plain data and are only interpreted by the engine.
"""
from fractions import Fraction
import math

# --------------------------------------------------------------------------
# logical vocabulary (native meaning)
# --------------------------------------------------------------------------


def implies(a, b):
    return (not a) or bool(b)


def iff(a, b):
    return bool(a) == bool(b)


def forall(rng, pred):
    return all(pred(x) for x in rng)


def exists(rng, pred):
    return any(pred(x) for x in rng)


def ite(c, a, b):
    return a if c else b


def count(rng, pred):
    """number of x in rng with pred(x) (rng must be concrete when symbolic)"""
    return sum(1 for x in rng if pred(x))


def is_none(x):
    return x is None


def same_object(a, b):
    return a is b


def real(x):
    return x


def floor_int(x):
    return math.floor(x)


def ceil_int(x):
    return math.ceil(x)


def seq_eq(a, b):
    """element-wise equality of two sequences (same length, equal items)"""
    a = list(a)
    b = list(b)
    return len(a) == len(b) and all(x == y for x, y in zip(a, b))


def ghost(name, default=None):
    """value of a ghost variable of the native monitor (none natively)"""
    return default


def is_nan(x):
    try:
        return x != x
    except Exception:
        return False


def str_of_int(i):
    return str(i)


def unconstrained():
    """placeholder for 'no constraint' clauses"""
    return True


# --------------------------------------------------------------------------
# type descriptors (data only)
# --------------------------------------------------------------------------


class T:
    kind = "?"

    def __repr__(self):
        return self.kind


class _Scalar(T):
    def __init__(self, kind):
        self.kind = kind


class _NanRealT(T):
    kind = "nanreal"


NanRealT = _NanRealT()  # float or NaN

Int = _Scalar("int")
Real = _Scalar("real")
Bool = _Scalar("bool")
Str = _Scalar("str")
NoneT = _Scalar("none")


class Enum(T):
    """a string (or int) out of a closed vocabulary of literals"""

    kind = "enum"

    def __init__(self, *values):
        self.values = list(values)

    def __repr__(self):
        return "Enum%r" % (tuple(self.values),)


class Lit(T):
    """a fixed literal value (e.g. the concrete name of a metric attribute)"""

    kind = "lit"

    def __init__(self, value):
        self.value = value

    def __repr__(self):
        return "Lit(%r)" % (self.value,)


class Opt(T):
    kind = "opt"

    def __init__(self, t):
        self.t = t

    def __repr__(self):
        return "Opt(%r)" % (self.t,)


class Tup(T):
    kind = "tuple"

    def __init__(self, *ts):
        self.ts = list(ts)

    def __repr__(self):
        return "Tup%r" % (tuple(self.ts),)


class Obj(T):
    """instance of a class declared with ``declare_class`` (by short name)"""

    kind = "obj"

    def __init__(self, name):
        self.name = name

    def __repr__(self):
        return "Obj(%s)" % self.name


class List(T):
    """list; ``max_len`` only matters in bounded mode (None: use the run's bound)"""

    kind = "list"

    def __init__(self, t, sorted_key=None, owner_key=None, concrete_len=None):
        self.t = t
        self.sorted_key = sorted_key  # name of a spec function key(owner, elem) for SortedList
        self.concrete_len = concrete_len

    def __repr__(self):
        return "List(%r)" % (self.t,)


class SortedListT(List):
    kind = "list"

    def __init__(self, t, key):
        List.__init__(self, t, sorted_key=key)


class Arr(T):
    """numpy ndarray of concrete shape (bounded mode only); shape fixed here or by the unit's shape dict"""

    kind = "arr"

    def __init__(self, t, shape=None):
        self.t = t
        self.shape = shape

    def __repr__(self):
        return "Arr(%r,%r)" % (self.t, self.shape)


class Rec(T):
    """dict with a fixed set of literal keys (a record)"""

    kind = "rec"

    def __init__(self, **fields):
        self.fields = dict(fields)
        self.open = False
        self.optional_keys = ()

    def optional(self, *keys):
        """keys that may be absent (both cases are explored)"""
        r = Rec(**self.fields)
        r.optional_keys = tuple(keys)
        return r

    def __repr__(self):
        return "Rec(%s)" % ", ".join("%s=%r" % kv for kv in self.fields.items())


class ADict(T):
    """dict with symbolic scalar keys and a concrete number of entries (bounded mode)"""

    kind = "adict"

    def __init__(self, k, v, size=None):
        self.k = k
        self.v = v
        self.size = size

    def __repr__(self):
        return "ADict(%r,%r)" % (self.k, self.v)


class Map(T):
    """dict with symbolic keys (unbounded): key sort scalar, homogeneous values"""

    kind = "map"

    def __init__(self, k, v, ordered=False):
        self.k = k
        self.v = v
        self.ordered = ordered

    def __repr__(self):
        return "Map(%r,%r)" % (self.k, self.v)


class TotalMap(Map):
    """ghost map defined on every key (no KeyError); natively a dict with a default"""

    kind = "map"

    def __init__(self, k, v, default=0):
        Map.__init__(self, k, v)
        self.total = True
        self.default = default


class SetT(T):
    kind = "set"

    def __init__(self, k):
        self.k = k

    def __repr__(self):
        return "SetT(%r)" % (self.k,)


class Abstract(T):
    """opaque collaborator; every method call needs a contract in ``iface``"""

    kind = "abstract"

    def __init__(self, name):
        self.name = name

    def __repr__(self):
        return "Abstract(%s)" % self.name


class _RngT(T):
    kind = "rng"


Rng = _RngT()  # a numpy RandomState: every draw is an arbitrary value of its documented range


class Func(T):
    """an uninterpreted pure function value (e.g. a user callable)"""

    kind = "func"

    def __init__(self, args, ret):
        self.args = list(args)
        self.ret = ret


# --------------------------------------------------------------------------
# registries filled by contract modules
# --------------------------------------------------------------------------

CLASSES = {}  # short name -> ClassDecl
CONTRACTS = {}  # "module:Qual.name" -> Contract class
LEMMAS = {}  # name -> Lemma class


class ClassDecl:
    def __init__(self, name, target, fields, inv=None, bases=(), builder=None):
        self.name = name
        self.target = target  # "pkg.module:ClassName"
        self.fields = fields  # name -> T
        self.inv = inv  # python function inv(o) -> bool / dict of clauses
        self.bases = bases
        self.builder = builder  # native builder name (replay side)


def declare_class(name, target, fields, inv=None, builder=None):
    d = ClassDecl(name, target, fields, inv, builder=builder)
    CLASSES[name] = d
    return d


def contract(target, **kw):
    """class decorator registering a contract for ``module:Qual.name``"""

    def deco(cls):
        cls.target = target
        for k, v in kw.items():
            setattr(cls, k, v)
        key = cls.__dict__.get("key") or (target + "#" + cls.__name__)  # never inherit the key of a base contract
        cls.key = key
        CONTRACTS[key] = cls
        return cls

    return deco


def lemma(name):
    def deco(cls):
        cls.name = name
        LEMMAS[name] = cls
        return cls

    return deco


def req(a, b, rel=1e-9, abs_tol=1e-12):
    """equality of two real-valued results: exact in the symbolic reading
    (A-REAL), tolerant to round-off when evaluated natively on floats"""
    if a is None or b is None:
        return a is None and b is None
    try:
        return math.isclose(a, b, rel_tol=rel, abs_tol=abs_tol)
    except TypeError:
        return a == b


def _struct(v, depth=0):
    """structural (value) view of a real object graph, for frame clauses"""
    if depth > 20:
        return "<deep>"
    if isinstance(v, (int, float, str, bool, Fraction)) or v is None:
        return v
    if isinstance(v, dict):
        return ("dict", tuple((repr(k), _struct(x, depth + 1)) for k, x in v.items()))
    if isinstance(v, (list, tuple)):
        return ("seq", tuple(_struct(x, depth + 1) for x in v))
    if isinstance(v, (set, frozenset)):
        return ("set", tuple(sorted(repr(x) for x in v)))
    tn = type(v).__name__
    if tn in ("SortedList", "SortedKeyList"):
        return ("seq", tuple(_struct(x, depth + 1) for x in v))
    if tn == "ndarray":
        return ("seq", tuple(_struct(x, depth + 1) for x in v.tolist()))
    if hasattr(v, "item") and hasattr(v, "dtype"):
        return v.item()
    if hasattr(v, "__dict__"):
        return (tn, tuple((k, _struct(x, depth + 1)) for k, x in sorted(vars(v).items())))
    return repr(v)


def unchanged(a, b):
    """frame clause: the two object graphs are structurally equal"""
    return _struct(a) == _struct(b)


def forall_keys_kept(new, old, removed_key):
    """frame of a map deletion: every key other than ``removed_key`` keeps presence and value"""
    for k in set(old) | set(new):
        if k == removed_key:
            continue
        if (k in old) != (k in new):
            return False
        if k in old and _struct(old[k]) != _struct(new[k]):
            return False
    return True


CHECK_FAILURES = []


def check(name, cond):
    """harness-level obligation: natively records a failure, symbolically becomes a proof obligation"""
    if not cond:
        CHECK_FAILURES.append(name)
    return bool(cond)


def assume(cond):
    """harness-level assumption; natively an inconsistent witness aborts the replay"""
    if not cond:
        raise AssumptionViolated()
    return True


class AssumptionViolated(Exception):
    pass


class NativeOnly:
    """placeholder for repository classes that cannot be imported in the tooling interpreter"""


ARBITRARY_SOURCE = None  # set by the native replay: callable(name, T) -> value


def arbitrary(name, t):
    """a value chosen by the environment; natively taken from the replayed counter-model"""
    if ARBITRARY_SOURCE is None:
        raise RuntimeError("arbitrary() outside a replay")
    return ARBITRARY_SOURCE(name, t)


def infinity():
    """the value of numpy.inf / math.inf (symbolically: a constant above every finite metric value)"""
    return float("inf")


def uf(name, *args, kind="int"):
    raise RuntimeError("uf() has no native meaning; use it only in interface contracts that are stubbed natively")


def const_map(v):
    from replay.stubs import GhostMap

    return GhostMap((), v)


def ambient_reads():
    return 0


def seed_of(rng):
    return getattr(rng, "_pyvc_seed", None)


OUTPUT_LOG = []  # filled by the native replay (json.dumps is wrapped)


def outputs():
    return list(OUTPUT_LOG)


def size_of_text(x):
    import sys as _sys

    return _sys.getsizeof(x)


# -- analytic clauses (pyvc/analytic.py decides them symbolically; natively: finite differences / tolerance) ----------


def _flat(x):
    import numpy as _np

    return _np.asarray(x, dtype=float).reshape(-1)


def is_gradient(f, x, g, rel=2e-5):
    """g[j] == d f(x) / d x[j]  (native meaning: Richardson-extrapolated central differences agree within ``rel``)"""
    import numpy as _np

    x0 = _np.array(x, dtype=float)
    gs = _flat(g)
    if gs.size != x0.size:
        return False
    flat = x0.reshape(-1)
    for j in range(flat.size):
        def at(h):
            xp = flat.copy()
            xp[j] += h
            xm = flat.copy()
            xm[j] -= h
            return (float(_flat(f(xp.reshape(x0.shape)))[0]) - float(_flat(f(xm.reshape(x0.shape)))[0])) / (2 * h)

        h = 1e-4 * max(1.0, abs(flat[j]))
        d = (4 * at(h / 2) - at(h)) / 3
        if not abs(d - gs[j]) <= rel * (1 + abs(d) + abs(gs[j])):
            return False
    return True


def analytic_eq(a, b, rel=1e-9):
    import numpy as _np

    a, b = _flat(a), _flat(b)
    return a.shape == b.shape and bool(_np.all(_np.abs(a - b) <= rel * (1 + _np.abs(a) + _np.abs(b))))


def std_normal_cdf(x):
    from scipy.stats import norm as _norm

    return _norm.cdf(x)


def std_normal_pdf(x):
    from scipy.stats import norm as _norm

    return _norm.pdf(x)


def real_exp(x):
    import numpy as _np

    return _np.exp(x)


def real_log(x):
    import numpy as _np

    return _np.log(x)


def real_sqrt(x):
    import numpy as _np

    return _np.sqrt(x)


def real_pow(x, y):
    import numpy as _np

    return _np.power(x, y)


def real_expm1(x):
    import numpy as _np

    return _np.expm1(x)


def is_finite(x):
    import numpy as _np

    return bool(_np.all(_np.isfinite(_np.asarray(x, dtype=float))))


def joint_jitter():
    return 1e-5


def analytic_eq_mod(a, b, rel=1e-6):
    return analytic_eq(a, b, rel)


def real_pi():
    import math

    return math.pi
