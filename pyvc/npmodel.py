"""Mini model of numpy ndarrays of CONCRETE shape with symbolic contents
(trusted library contract; used in bounded mode).  Row-major flat storage."""
import ast
import itertools
from fractions import Fraction

import z3

from .values import *  # noqa
from .engine import PyRaise, Unsupported
from . import lib


class SArr:
    def __init__(self, shape, data, dtype="real"):
        self.shape = tuple(shape)
        self.data = list(data)
        self.dtype = dtype
        self.order_only = False
        n = 1
        for s in self.shape:
            n *= s
        assert n == len(self.data), (self.shape, len(self.data))

    def __repr__(self):
        return "SArr%r" % (self.shape,)

    @property
    def ndim(self):
        return len(self.shape)

    def strides(self):
        st = []
        acc = 1
        for s in reversed(self.shape):
            st.append(acc)
            acc *= s
        return list(reversed(st))

    def at(self, idx):
        off = sum(i * s for i, s in zip(idx, self.strides()))
        return self.data[off]

    def nested(self):
        def rec(dim, off):
            if dim == len(self.shape):
                return self.data[off]
            st = self.strides()[dim]
            return [rec(dim + 1, off + i * st) for i in range(self.shape[dim])]

        if not self.shape:
            return self.data[0]
        return rec(0, 0)

    def row(self, i):
        """sub-array along axis 0"""
        if self.ndim == 1:
            return self.data[i]
        st = self.strides()[0]
        a = SArr(self.shape[1:], self.data[i * st : (i + 1) * st], self.dtype)
        a.order_only = self.order_only
        return a


def from_nested(m, v, node=None, dtype=None):
    """python nesting (SList / tuple / SArr / scalar) -> SArr"""
    v = m.force(v, node)
    if isinstance(v, SArr):
        return SArr(v.shape, v.data, dtype or v.dtype)

    def rec(x):
        x = m.force(x, node)
        if isinstance(x, SArr):
            return x.shape, list(x.data)
        if isinstance(x, (SList, tuple)):
            items = x.items if isinstance(x, SList) else list(x)
            if not items:
                return (0,), []
            subs = [rec(y) for y in items]
            sh = subs[0][0]
            for s2, _ in subs:
                if s2 != sh:
                    raise Unsupported("ragged array", node)
            flat = []
            for _, d in subs:
                flat.extend(d)
            return (len(items),) + sh, flat
        if isinstance(x, SSorted):
            return rec(x.inner)
        if isinstance(x, SymList):
            raise Unsupported("numpy array from an unbounded list", node)
        return (), [x]

    shape, flat = rec(v)
    return SArr(shape, flat, dtype or infer_dtype(m, flat))


def infer_dtype(m, flat):
    kinds = {m.kind_of(x) for x in flat if not isinstance(x, NanReal)}
    if any(isinstance(x, NanReal) for x in flat) or "real" in kinds:
        return "real"
    if kinds <= {"bool"} and flat:
        return "bool"
    if kinds <= {"int", "bool"}:
        return "int"
    return "object"


def broadcast_shapes(a, b):
    la, lb = len(a), len(b)
    n = max(la, lb)
    a2 = (1,) * (n - la) + tuple(a)
    b2 = (1,) * (n - lb) + tuple(b)
    out = []
    for x, y in zip(a2, b2):
        if x == y or x == 1 or y == 1:
            out.append(max(x, y) if (x != 0 and y != 0) else 0)
        else:
            raise PyRaise("ValueError", None, msg="operands could not be broadcast together %s %s" % (a, b))
    return tuple(out), a2, b2


def elementwise(m, f, a, b, node, dtype=None):
    """apply binary scalar function f with numpy broadcasting"""
    A = a if isinstance(a, SArr) else None
    B = b if isinstance(b, SArr) else None
    if A is None and isinstance(a, (SList, tuple)):
        A = from_nested(m, a, node)
    if B is None and isinstance(b, (SList, tuple)):
        B = from_nested(m, b, node)
    if (A is not None and A.order_only) or (B is not None and B.order_only):
        if dtype != "bool":
            raise Unsupported("arithmetic on an order-only abstraction (np.linalg.norm)", node)
    sa = A.shape if A is not None else ()
    sb = B.shape if B is not None else ()
    shape, a2, b2 = broadcast_shapes(sa, sb)
    out = []
    for idx in itertools.product(*[range(s) for s in shape]):
        if A is not None:
            ia = [i if d != 1 else 0 for i, d in zip(idx, a2)][len(shape) - len(sa) :]
            x = A.at(ia)
        else:
            x = a
        if B is not None:
            ib = [i if d != 1 else 0 for i, d in zip(idx, b2)][len(shape) - len(sb) :]
            y = B.at(ib)
        else:
            y = b
        out.append(f(x, y))
    return SArr(shape, out, dtype or infer_dtype(m, out))


def arr_binop(m, op, a, b, node):
    if isinstance(op, (ast.Mult, ast.BitAnd)) and all((x.dtype == "bool") if isinstance(x, SArr) else isinstance(x, bool) for x in (a, b)):
        return elementwise(m, lambda x, y: _and(m, x, y), a, b, node, "bool")
    if isinstance(op, ast.BitOr):
        return elementwise(m, lambda x, y: _or(m, x, y), a, b, node, "bool")
    r = elementwise(m, lambda x, y: m.binop(op, x, y, node), a, b, node)
    if isinstance(op, ast.Div):
        r.dtype = "real"
    return r


def _and(m, x, y):
    r = m.conj([m.truth(x), m.truth(y)])
    return r if isinstance(r, bool) else m.mk(r, "bool")


def _or(m, x, y):
    r = m.disj([m.truth(x), m.truth(y)])
    return r if isinstance(r, bool) else m.mk(r, "bool")


def arr_compare(m, op, a, b, node):
    def f(x, y):
        return m.compare(op, x, y, node)

    return elementwise(m, f, a, b, node, "bool")


def arr_unary(m, op, a, node):
    if isinstance(op, ast.Invert) or isinstance(op, ast.Not):
        return SArr(a.shape, [m.unaryop(ast.Not(), x, node) for x in a.data], "bool")
    return SArr(a.shape, [m.unaryop(op, x, node) for x in a.data], a.dtype)


def concretize_bool(m, v, node):
    t = m.truth(v, node)
    return t if isinstance(t, bool) else m.branch(t, node)


def concretize_int(m, v, lo, hi, node):
    v = m.force(v, node)
    if isinstance(v, bool):
        return int(v)
    if isinstance(v, int):
        return v
    if isinstance(v, Fraction) and v.denominator == 1:
        return int(v)
    if isinstance(v, Sym) and v.k == "int":
        for c in range(lo, hi):
            if c == hi - 1 or m.branch(v.t == c, node):
                return c
    raise Unsupported("cannot concretize index %r" % (v,), node)


def norm_index(i, n, node):
    if i < 0:
        i += n
    if not (0 <= i < n):
        raise PyRaise("IndexError", node)
    return i


def arr_getitem(m, a, k, node):
    if not isinstance(k, tuple):
        k = (k,)
    # boolean mask / integer array on axis 0
    if len(k) == 1:
        k0 = m.force(k[0], node)
        if isinstance(k0, (SList,)):
            k0 = from_nested(m, k0, node)
        if isinstance(k0, SArr):
            if k0.dtype == "bool":
                if k0.shape != a.shape[:1]:
                    raise PyRaise("IndexError", node)
                sel = [i for i in range(a.shape[0]) if concretize_bool(m, k0.data[i], node)]
            else:
                sel = [norm_index(concretize_int(m, x, -a.shape[0], a.shape[0], node), a.shape[0], node) for x in k0.data]
            return take_rows(a, sel)
    # basic indexing
    dims = []
    out_shape = []
    ki = 0
    ax = 0
    k = list(k)
    while ax < a.ndim or ki < len(k):
        if ki < len(k):
            kk = k[ki]
            kk = m.force(kk, node) if not isinstance(kk, slice) else kk
            ki += 1
            if kk is None:
                dims.append(("new",))
                out_shape.append(1)
                continue
            if ax >= a.ndim:
                raise PyRaise("IndexError", node)
            if isinstance(kk, slice):
                lo = None if kk.start is None else concretize_int(m, kk.start, -a.shape[ax] - 1, a.shape[ax] + 2, node)
                hi = None if kk.stop is None else concretize_int(m, kk.stop, -a.shape[ax] - 1, a.shape[ax] + 2, node)
                st = None if kk.step is None else concretize_int(m, kk.step, -2, 3, node)
                rng = list(range(a.shape[ax]))[slice(lo, hi, st)]
                dims.append(("rng", rng))
                out_shape.append(len(rng))
            else:
                i = norm_index(concretize_int(m, kk, -a.shape[ax], a.shape[ax], node), a.shape[ax], node)
                dims.append(("fix", i))
            ax += 1
        else:
            dims.append(("rng", list(range(a.shape[ax]))))
            out_shape.append(a.shape[ax])
            ax += 1
    real_dims = [d for d in dims if d[0] != "new"]
    ranges = [([d[1]] if d[0] == "fix" else d[1]) for d in real_dims]
    out = [a.at(idx) for idx in itertools.product(*ranges)]
    if not out_shape:
        return out[0]
    r = SArr(tuple(out_shape), out, a.dtype)
    r.order_only = a.order_only
    return r


def take_rows(a, sel):
    if a.ndim == 1:
        r = SArr((len(sel),), [a.data[i] for i in sel], a.dtype)
    else:
        st = a.strides()[0]
        data = []
        for i in sel:
            data.extend(a.data[i * st : (i + 1) * st])
        r = SArr((len(sel),) + a.shape[1:], data, a.dtype)
    r.order_only = a.order_only
    return r


def arr_setitem(m, a, k, v, node):
    m.note_write(a)
    k0 = m.force(k, node) if not isinstance(k, (tuple, slice)) else k
    if isinstance(k0, SArr) and k0.dtype == "bool":
        v = m.force(v, node)
        if a.ndim != 1 and k0.shape == a.shape and not isinstance(v, (SArr, SList, tuple)):
            for i in range(len(a.data)):
                if concretize_bool(m, k0.data[i], node):
                    a.data[i] = v
            return
        sel = [i for i in range(a.shape[0]) if concretize_bool(m, k0.data[i], node)]
        if isinstance(v, (SList, tuple)):
            v = from_nested(m, v, node)
        if a.ndim != 1:
            if k0.shape != a.shape or isinstance(v, SArr):
                raise Unsupported("masked assignment on n-d array", node)
            for i in range(len(a.data)):
                if concretize_bool(m, k0.data[i], node):
                    a.data[i] = v
            return
        if isinstance(v, SArr):
            if v.shape != (len(sel),):
                raise PyRaise("ValueError", node)
            for j, i in enumerate(sel):
                a.data[i] = v.data[j]
        else:
            for i in sel:
                a.data[i] = v
        return
    if isinstance(k0, (SList, SArr)) and a.ndim == 1:
        # integer fancy-index assignment a[idx_list] = values
        ka = from_nested(m, k0, node)
        idx = [norm_index(concretize_int(m, x, -a.shape[0], a.shape[0], node), a.shape[0], node) for x in ka.data]
        v = m.force(v, node)
        if isinstance(v, (SList, tuple)):
            v = from_nested(m, v, node)
        if isinstance(v, SArr):
            if len(v.data) != len(idx):
                raise PyRaise("ValueError", node)
            for j, i in enumerate(idx):
                a.data[i] = v.data[j]
        else:
            for i in idx:
                a.data[i] = v
        return
    if isinstance(k0, (int, Sym)) and a.ndim == 1:
        i = norm_index(concretize_int(m, k0, -a.shape[0], a.shape[0], node), a.shape[0], node)
        a.data[i] = m.force(v, node)
        return
    if isinstance(k0, (int, Sym)) and a.ndim == 2:
        i = norm_index(concretize_int(m, k0, -a.shape[0], a.shape[0], node), a.shape[0], node)
        v = from_nested(m, v, node)
        st = a.strides()[0]
        if v.shape != a.shape[1:]:
            raise PyRaise("ValueError", node)
        a.data[i * st : (i + 1) * st] = v.data
        return
    raise Unsupported("array store with index %r" % (k0,), node)


def reduce_axis(m, a, axis, f, node, dtype=None, init=None):
    """generic reduction along ``axis`` (None = all)"""
    if axis is None:
        if not a.data:
            if init is None:
                raise PyRaise("ValueError", node)
            return init
        acc = a.data[0] if init is None else f(init, a.data[0])
        for x in a.data[1:]:
            acc = f(acc, x)
        return acc
    axis = axis + a.ndim if axis < 0 else axis
    out_shape = a.shape[:axis] + a.shape[axis + 1 :]
    out = []
    for idx in itertools.product(*[range(s) for s in out_shape]):
        vals = [a.at(idx[:axis] + (j,) + idx[axis:]) for j in range(a.shape[axis])]
        if not vals:
            if init is None:
                raise PyRaise("ValueError", node)
            out.append(init)
            continue
        acc = vals[0] if init is None else f(init, vals[0])
        for x in vals[1:]:
            acc = f(acc, x)
        out.append(acc)
    if not out_shape:
        return out[0]
    r = SArr(out_shape, out, dtype or a.dtype)
    r.order_only = a.order_only
    return r


def arg_reduce(m, a, axis, is_min, node):
    """argmin/argmax: index of the FIRST extremal element, decided on this path"""

    def arg(vals):
        best = 0
        for j in range(1, len(vals)):
            c = m.compare(ast.Lt() if is_min else ast.Gt(), vals[j], vals[best], node)
            if c if isinstance(c, bool) else m.branch(c.t, node):
                best = j
        return best

    if axis is None:
        if not a.data:
            raise PyRaise("ValueError", node)
        return arg(a.data)
    axis = axis + a.ndim if axis < 0 else axis
    out_shape = a.shape[:axis] + a.shape[axis + 1 :]
    out = []
    for idx in itertools.product(*[range(s) for s in out_shape]):
        vals = [a.at(idx[:axis] + (j,) + idx[axis:]) for j in range(a.shape[axis])]
        if not vals:
            raise PyRaise("ValueError", node)
        out.append(arg(vals))
    if not out_shape:
        return out[0]
    return SArr(out_shape, out, "int")


def _axis(m, args, kw, pos, node):
    ax = kw.get("axis", args[pos] if len(args) > pos else None)
    if ax is None:
        return None
    return concretize_int(m, ax, -4, 4, node)


def np_all(m, args, kw, node):
    a = from_nested(m, args[0], node)
    return reduce_axis(m, a, _axis(m, args, kw, 1, node), lambda x, y: _and(m, x, y), node, "bool", init=True)


def np_any(m, args, kw, node):
    a = from_nested(m, args[0], node)
    return reduce_axis(m, a, _axis(m, args, kw, 1, node), lambda x, y: _or(m, x, y), node, "bool", init=False)


def np_sum(m, args, kw, node):
    a = from_nested(m, args[0], node)
    return reduce_axis(m, a, _axis(m, args, kw, 1, node), lambda x, y: m.binop(ast.Add(), x, y, node), node, None, init=0)


def np_mean(m, args, kw, node):
    a = from_nested(m, args[0], node)
    ax = _axis(m, args, kw, 1, node)
    s = reduce_axis(m, a, ax, lambda x, y: m.binop(ast.Add(), x, y, node), node, "real", init=0)
    n = len(a.data) if ax is None else a.shape[ax]
    if n == 0:
        raise Unsupported("mean of empty array (nan)", node)
    keep = m.lit_value(kw["keepdims"]) if "keepdims" in kw else False
    if isinstance(s, SArr):
        r = SArr(s.shape, [m.binop(ast.Div(), x, n, node) for x in s.data], "real")
        if keep:
            shp = list(a.shape)
            shp[ax] = 1
            r = SArr(shp, r.data, "real")
        return r
    r = m.binop(ast.Div(), s, n, node)
    if keep:
        return SArr((1,) * a.ndim, [r], "real")
    return r


def np_min(m, args, kw, node):
    a = from_nested(m, args[0], node)
    return reduce_axis(m, a, _axis(m, args, kw, 1, node), lambda x, y: m.minv(x, y), node)


def np_max(m, args, kw, node):
    a = from_nested(m, args[0], node)
    return reduce_axis(m, a, _axis(m, args, kw, 1, node), lambda x, y: m.maxv(x, y), node)


def np_argmin(m, args, kw, node):
    return arg_reduce(m, from_nested(m, args[0], node), _axis(m, args, kw, 1, node), True, node)


def np_argmax(m, args, kw, node):
    return arg_reduce(m, from_nested(m, args[0], node), _axis(m, args, kw, 1, node), False, node)


def _shape_arg(m, v, node):
    v = m.force(v, node)
    if isinstance(v, (tuple, SList)):
        items = v if isinstance(v, tuple) else v.items
        return tuple(concretize_int(m, x, 0, 9, node) for x in items)
    return (concretize_int(m, v, 0, 9, node),)


def _dtype_arg(kw, default):
    d = kw.get("dtype")
    if d is None:
        return default
    if isinstance(d, NativeFn):
        return {"bool": "bool", "int": "int", "float": "real"}.get(getattr(d, "pytype", None), default)
    if isinstance(d, ExtRef):
        n = d.dotted
        if "bool" in n:
            return "bool"
        if "int" in n:
            return "int"
        return "real"
    return default


def np_ones(m, args, kw, node):
    shape = _shape_arg(m, args[0], node)
    dt = _dtype_arg(kw, "real")
    one = {"bool": True, "int": 1, "real": Fraction(1)}[dt]
    n = 1
    for s in shape:
        n *= s
    return SArr(shape, [one] * n, dt)


def np_zeros(m, args, kw, node):
    shape = _shape_arg(m, args[0], node)
    dt = _dtype_arg(kw, "real")
    zero = {"bool": False, "int": 0, "real": Fraction(0)}[dt]
    n = 1
    for s in shape:
        n *= s
    return SArr(shape, [zero] * n, dt)


def np_full(m, args, kw, node):
    shape = _shape_arg(m, args[0], node)
    fill = m.force(args[1] if len(args) > 1 else kw["fill_value"], node)
    n = 1
    for d in shape:
        n *= d
    return SArr(shape, [fill] * n, infer_dtype(m, [fill]))


def np_empty(m, args, kw, node):
    shape = _shape_arg(m, args[0], node)
    dt = _dtype_arg(kw, "real")
    n = 1
    for s in shape:
        n *= s
    kind = {"bool": "bool", "int": "int", "real": "real"}[dt]
    return SArr(shape, [m.fresh_scalar(kind, "np.empty") for _ in range(n)], dt)


def np_arange(m, args, kw, node):
    vals = [concretize_int(m, a, -1, 12, node) for a in args]
    return SArr((len(range(*vals)),), list(range(*vals)), "int")


def np_array(m, args, kw, node):
    a = from_nested(m, args[0], node)
    return SArr(a.shape, a.data, _dtype_arg(kw, a.dtype))


def np_expand_dims(m, args, kw, node):
    a = from_nested(m, args[0], node)
    ax = concretize_int(m, kw.get("axis", args[1] if len(args) > 1 else 0), -4, 4, node)
    ax = ax + a.ndim + 1 if ax < 0 else ax
    return SArr(a.shape[:ax] + (1,) + a.shape[ax:], a.data, a.dtype)


def np_norm(m, args, kw, node):
    a = from_nested(m, args[0], node)
    ax = _axis(m, args, kw, 2, node)
    m.assumption_notes.add("lib:numpy.linalg.norm -- modelled by the squared norm (order-isomorphic); result usable for comparisons only")
    sq = SArr(a.shape, [m.binop(ast.Mult(), x, x, node) for x in a.data], "real")
    r = reduce_axis(m, sq, ax, lambda x, y: m.binop(ast.Add(), x, y, node), node, "real", init=0)
    if isinstance(r, SArr):
        r.order_only = True
    return r


def np_searchsorted(m, args, kw, node):
    srt = from_nested(m, args[0], node)
    vals = m.force(args[1], node)
    side = kw.get("side", "left")

    def cnt(v):
        acc = 0
        for s in srt.data:
            c = m.compare(ast.Lt() if side == "left" else ast.LtE(), s, v, node)
            acc = m.binop(ast.Add(), acc, m.ite(c.t if isinstance(c, Sym) else c, 1, 0, node), node)
        return acc

    m.assumption_notes.add("lib:numpy.searchsorted -- on a sorted sequence equals the count of elements < v (left) / <= v (right)")
    if isinstance(vals, (SArr, SList, tuple)):
        va = from_nested(m, vals, node)
        return SArr(va.shape, [cnt(v) for v in va.data], "int")
    return cnt(vals)


def np_repeat_method(m, a, args, kw, node):
    n = concretize_int(m, args[0], 0, 9, node)
    ax = _axis(m, args, kw, 1, node)
    if ax is None:
        raise Unsupported("repeat without axis", node)
    ax = ax + a.ndim if ax < 0 else ax
    out_shape = a.shape[:ax] + (a.shape[ax] * n,) + a.shape[ax + 1 :]
    out = []
    for idx in itertools.product(*[range(s) for s in out_shape]):
        src = idx[:ax] + (idx[ax] // n,) + idx[ax + 1 :]
        out.append(a.at(src))
    return SArr(out_shape, out, a.dtype)


def _reshape(m, a, shp, node):
    if len(shp) == 1 and isinstance(shp[0], (tuple, SList)):
        shp = shp[0]
    shp = [m.lit_value(x) for x in (shp.items if isinstance(shp, SList) else shp)]
    n = len(a.data)
    if -1 in shp:
        known = 1
        for x in shp:
            if x != -1:
                known *= x
        if known == 0 or n % known:
            raise PyRaise("ValueError", node)
        shp = [n // known if x == -1 else x for x in shp]
    k = 1
    for x in shp:
        k *= x
    if k != n:
        raise PyRaise("ValueError", node)
    r = SArr(shp, a.data, a.dtype)
    return r


def np_reshape(m, args, kw, node):
    a = from_nested(m, args[0], node)
    return _reshape(m, a, [m.force(args[1], node)], node)


def np_ones_like(m, args, kw, node):
    a = from_nested(m, args[0], node)
    return SArr(a.shape, [Fraction(1)] * len(a.data), "real")


def np_zeros_like(m, args, kw, node):
    a = from_nested(m, args[0], node)
    return SArr(a.shape, [Fraction(0)] * len(a.data), "real")


def np_where(m, args, kw, node):
    if len(args) != 3:
        raise Unsupported("np.where with one argument", node)
    c, x, y = [m.force(v, node) for v in args]

    def pick(cv, xv, yv):
        t = m.truth(cv, node)
        if isinstance(t, bool):
            return xv if t else yv
        return m.ite(t, xv, yv)

    shapes = [v.shape for v in (c, x, y) if isinstance(v, SArr)]
    if not shapes:
        return pick(c, x, y)
    shp = shapes[0]
    for sh in shapes[1:]:
        shp = broadcast_shapes(shp, sh)[0]

    def bc(v):
        if not isinstance(v, SArr):
            return lambda idx: v
        off = len(shp) - v.ndim

        def get(idx):
            return v.at(tuple(0 if v.shape[d] == 1 else idx[d + off] for d in range(v.ndim)))

        return get

    gc, gx, gy = bc(c), bc(x), bc(y)
    out = [pick(gc(idx), gx(idx), gy(idx)) for idx in itertools.product(*[range(k) for k in shp])]
    return SArr(shp, out, "real")


def arr_attr(m, a, name, node):
    if name == "shape":
        return tuple(a.shape)
    if name == "size":
        return len(a.data)
    if name == "ndim":
        return a.ndim
    if name == "T":
        if a.ndim != 2:
            return a
        r, c = a.shape
        return SArr((c, r), [a.at((i, j)) for j in range(c) for i in range(r)], a.dtype)
    meths = {
        "tolist": lambda mach, args, kw, nd: _tolist(a),
        "all": lambda mach, args, kw, nd: np_all(mach, [a] + list(args), kw, nd),
        "any": lambda mach, args, kw, nd: np_any(mach, [a] + list(args), kw, nd),
        "sum": lambda mach, args, kw, nd: np_sum(mach, [a] + list(args), kw, nd),
        "mean": lambda mach, args, kw, nd: np_mean(mach, [a] + list(args), kw, nd),
        "min": lambda mach, args, kw, nd: np_min(mach, [a] + list(args), kw, nd),
        "max": lambda mach, args, kw, nd: np_max(mach, [a] + list(args), kw, nd),
        "argmin": lambda mach, args, kw, nd: np_argmin(mach, [a] + list(args), kw, nd),
        "argmax": lambda mach, args, kw, nd: np_argmax(mach, [a] + list(args), kw, nd),
        "copy": lambda mach, args, kw, nd: SArr(a.shape, a.data, a.dtype),
        "astype": lambda mach, args, kw, nd: SArr(a.shape, a.data, a.dtype),
        "repeat": lambda mach, args, kw, nd: np_repeat_method(mach, a, args, kw, nd),
        "flatten": lambda mach, args, kw, nd: SArr((len(a.data),), a.data, a.dtype),
        "reshape": lambda mach, args, kw, nd: _reshape(mach, a, [mach.force(x, nd) for x in args], nd),
        "item": lambda mach, args, kw, nd: a.data[0],
    }
    if name in meths:
        return NativeFn("ndarray." + name, meths[name])
    raise Unsupported("ndarray.%s" % name, node)


def _tolist(a):
    def conv(x):
        if isinstance(x, list):
            return SList([conv(y) for y in x])
        return x

    return conv(a.nested())


def install():
    E = lib.EXTERNAL
    notes = lib.TRUSTED_NOTES
    table = {
        "numpy.all": np_all,
        "numpy.any": np_any,
        "numpy.sum": np_sum,
        "numpy.mean": np_mean,
        "numpy.min": np_min,
        "numpy.max": np_max,
        "numpy.amin": np_min,
        "numpy.amax": np_max,
        "numpy.argmin": np_argmin,
        "numpy.argmax": np_argmax,
        "numpy.ones": np_ones,
        "numpy.zeros": np_zeros,
        "numpy.empty": np_empty,
        "numpy.full": np_full,
        "numpy.arange": np_arange,
        "numpy.array": np_array,
        "numpy.asarray": np_array,
        "numpy.expand_dims": np_expand_dims,
        "numpy.linalg.norm": np_norm,
        "numpy.searchsorted": np_searchsorted,
        "numpy.reshape": np_reshape,
        "numpy.ones_like": np_ones_like,
        "numpy.zeros_like": np_zeros_like,
        "numpy.where": np_where,
    }
    for k, fn in table.items():
        E[k] = fn
        E["autograd." + k] = fn
        notes[k] = "mini-numpy model for arrays of concrete shape (pyvc/npmodel.py)"


install()


# ---------------------------------------------------------------------------------------------------------------------
# dense linear algebra on arrays of concrete shape (entries symbolic): exact formulas, no approximation
# ---------------------------------------------------------------------------------------------------------------------


def _as2d(m, v, node):
    a = from_nested(m, v, node) if not isinstance(v, SArr) else v
    return a


def _add(m, x, y, node):
    return m.binop(ast.Add(), x, y, node)


def _mul(m, x, y, node):
    return m.binop(ast.Mult(), x, y, node)


def _sub(m, x, y, node):
    return m.binop(ast.Sub(), x, y, node)


def _div(m, x, y, node):
    return m.binop(ast.Div(), x, y, node)


def _sumprod(m, xs, ys, node):
    acc = 0
    for x, y in zip(xs, ys):
        acc = _add(m, acc, _mul(m, x, y, node), node)
    return acc


def np_matmul(m, args, kw, node):
    a = _as2d(m, m.force(args[0], node), node)
    b = _as2d(m, m.force(args[1], node), node)
    if a.ndim == 1 and b.ndim == 1:
        if a.shape != b.shape:
            raise PyRaise("ValueError", node)
        return _sumprod(m, a.data, b.data, node)
    if a.ndim == 2 and b.ndim == 1:
        if a.shape[1] != b.shape[0]:
            raise PyRaise("ValueError", node)
        return SArr((a.shape[0],), [_sumprod(m, [a.at((i, k)) for k in range(a.shape[1])], b.data, node) for i in range(a.shape[0])], "real")
    if a.ndim == 1 and b.ndim == 2:
        if a.shape[0] != b.shape[0]:
            raise PyRaise("ValueError", node)
        return SArr((b.shape[1],), [_sumprod(m, a.data, [b.at((k, j)) for k in range(b.shape[0])], node) for j in range(b.shape[1])], "real")
    if a.ndim != 2 or b.ndim != 2:
        raise Unsupported("matmul of %d-d and %d-d arrays" % (a.ndim, b.ndim), node)
    if a.shape[1] != b.shape[0]:
        raise PyRaise("ValueError", node, msg="matmul shapes %s %s" % (a.shape, b.shape))
    out = []
    for i in range(a.shape[0]):
        for j in range(b.shape[1]):
            out.append(_sumprod(m, [a.at((i, k)) for k in range(a.shape[1])], [b.at((k, j)) for k in range(b.shape[0])], node))
    return SArr((a.shape[0], b.shape[1]), out, "real")


def np_transpose(m, args, kw, node):
    a = _as2d(m, m.force(args[0], node), node)
    if len(args) > 1 or kw:
        raise Unsupported("transpose with axes", node)
    return arr_attr(m, a, "T", node)


def np_concatenate(m, args, kw, node):
    parts = [_as2d(m, m.force(x, node), node) for x in m.iter_concrete(args[0], node)]
    ax = m.lit_value(kw["axis"]) if "axis" in kw else (m.lit_value(args[1]) if len(args) > 1 else 0)
    nd = parts[0].ndim
    if any(p.ndim != nd for p in parts):
        raise PyRaise("ValueError", node)
    if ax < 0:
        ax += nd
    shp = list(parts[0].shape)
    for p in parts[1:]:
        for d in range(nd):
            if d != ax and p.shape[d] != shp[d]:
                raise PyRaise("ValueError", node, msg="concatenate shapes")
    shp[ax] = sum(p.shape[ax] for p in parts)
    out = []
    for idx in itertools.product(*[range(k) for k in shp]):
        off = idx[ax]
        for p in parts:
            if off < p.shape[ax]:
                out.append(p.at(idx[:ax] + (off,) + idx[ax + 1 :]))
                break
            off -= p.shape[ax]
    return SArr(shp, out, parts[0].dtype)


def np_diag(m, args, kw, node):
    a = _as2d(m, m.force(args[0], node), node)
    if a.ndim == 2:
        k = min(a.shape)
        return SArr((k,), [a.at((i, i)) for i in range(k)], a.dtype)
    n = a.shape[0]
    return SArr((n, n), [a.data[i] if i == j else (Fraction(0) if a.dtype == "real" else 0) for i in range(n) for j in range(n)], a.dtype)


def np_eye(m, args, kw, node):
    n = m.lit_value(args[0])
    return SArr((n, n), [Fraction(1) if i == j else Fraction(0) for i in range(n) for j in range(n)], "real")


def solve_triangular(m, args, kw, node):
    """scipy.linalg.solve_triangular(L, B, lower=True): forward substitution (exact); a zero pivot is a LinAlgError"""
    L = _as2d(m, m.force(args[0], node), node)
    B = _as2d(m, m.force(args[1], node), node)
    lower = m.lit_value(kw.get("lower", False)) if "lower" in kw else False
    trans = m.lit_value(kw["trans"]) if "trans" in kw else 0
    if trans not in (0, "N"):
        raise Unsupported("solve_triangular with trans", node)
    if L.ndim != 2 or L.shape[0] != L.shape[1] or B.shape[0] != L.shape[0]:
        raise PyRaise("ValueError", node)
    n = L.shape[0]
    vec = B.ndim == 1
    cols = 1 if vec else B.shape[1]
    X = [[None] * cols for _ in range(n)]
    order = range(n) if lower else range(n - 1, -1, -1)
    for j in range(cols):
        for i in order:
            rhs = B.data[i] if vec else B.at((i, j))
            ks = range(i) if lower else range(i + 1, n)
            for k in ks:
                rhs = _sub(m, rhs, _mul(m, L.at((i, k)), X[k][j], node), node)
            piv = L.at((i, i))
            nz = m.truth(m.compare(ast.NotEq(), piv, 0, node), node)
            if nz is False or (not isinstance(nz, bool) and not m.branch(nz, node)):
                raise PyRaise("LinAlgError", node, msg="singular matrix")
            X[i][j] = _div(m, rhs, piv, node)
    if vec:
        return SArr((n,), [X[i][0] for i in range(n)], "real")
    return SArr((n, cols), [X[i][j] for i in range(n) for j in range(cols)], "real")


def _install_linalg():
    E = lib.EXTERNAL
    table = {
        "numpy.matmul": np_matmul,
        "numpy.dot": np_matmul,
        "numpy.transpose": np_transpose,
        "numpy.concatenate": np_concatenate,
        "numpy.diag": np_diag,
        "numpy.eye": np_eye,
        "scipy.linalg.solve_triangular": solve_triangular,
        "autograd.scipy.linalg.solve_triangular": solve_triangular,
    }
    for k, fn in table.items():
        E[k] = fn
        if k.startswith("numpy."):
            E["autograd." + k] = fn
        lib.TRUSTED_NOTES[k] = "exact dense linear algebra on arrays of concrete shape (pyvc/npmodel.py)"
    E["autograd.tracer.getval"] = lambda m, args, kw, node: args[0]
    lib.TRUSTED_NOTES["autograd.tracer.getval"] = "identity outside differentiation"


_install_linalg()


# -- repository functions that only wrap LAPACK (trusted stubs, enabled per contract) --------------------------------------

_CUSTOM_OP = "syne_tune.optimizer.schedulers.searchers.bayesopt.gpautograd.custom_op"


def _stub_flatten_and_concat(m, args, kw, node):
    x = _as2d(m, m.force(args[0], node), node)
    s = m.force(args[1], node)
    sv = s.data[0] if isinstance(s, SArr) else s
    return SArr((len(x.data) + 1,), list(x.data) + [sv], "real")


def _stub_add_jitter(m, args, kw, node):
    """AddJitterOp(flatten_and_concat(x, sigsq_init)) = x + (sigsq_init + jitter) I with jitter >= 0 (0 assumed to be
    tried first: jitter is left unconstrained above 0)"""
    v = _as2d(m, m.force(args[0], node), node)
    k = len(v.data) - 1
    n = int(round(k**0.5))
    if n * n != k:
        raise PyRaise("AssertionError", node)
    sig = v.data[-1]
    key = tuple(str(m.z(x, "real")) if isinstance(x, Sym) else repr(x) for x in v.data)
    cache = m.path_cache.setdefault("jitter", {})
    if key not in cache:  # deterministic: the same matrix gets the same jitter
        jit = m.fresh_scalar("real", "jitter")
        m.assume(jit.t >= 0)
        cache[key] = jit
    jit = cache[key]
    c = _add(m, sig, jit, node)
    m.ghost_jitter.append(c)
    return SArr((n, n), [(_add(m, v.data[i * n + j], c, node) if i == j else v.data[i * n + j]) for i in range(n) for j in range(n)], "real")


def _stub_cholesky(m, args, kw, node):
    """cholesky_factorization(A): some lower-triangular F with positive diagonal and F F^T = A (LAPACK potrf trusted);
    the same argument gives the same factor"""
    a = _as2d(m, m.force(args[0], node), node)
    n = a.shape[0]
    key = tuple(str(m.z(x, "real")) if isinstance(x, Sym) else repr(x) for x in a.data)
    cache = m.path_cache.setdefault("chol", {})
    if key in cache:
        return cache[key]
    F = []
    for i in range(n):
        for j in range(n):
            if j > i:
                F.append(Fraction(0))
            else:
                F.append(m.fresh_scalar("real", "chol[%d,%d]" % (i, j)))
    Fa = SArr((n, n), F, "real")
    for i in range(n):
        m.assume(m.z(Fa.at((i, i)), "real") > 0)
    P = np_matmul(m, [Fa, arr_attr(m, Fa, "T", node)], {}, node)
    defs = m.path_cache.setdefault("chol_defs", [])
    for i in range(n):
        for j in range(n):
            if j <= i:
                m.assume(m.z(P.at((i, j)), "real") == m.z(a.at((i, j)), "real"))
            defs.append((m.z(P.at((i, j)), "real"), m.z(a.at((i, j)), "real")))
    cache[key] = Fa
    return Fa


lib.REPO_STUBS[_CUSTOM_OP + ":flatten_and_concat"] = _stub_flatten_and_concat
lib.REPO_STUBS[_CUSTOM_OP + ":AddJitterOp"] = _stub_add_jitter
lib.REPO_STUBS[_CUSTOM_OP + ":cholesky_factorization"] = _stub_cholesky
lib.REPO_STUB_NOTES[_CUSTOM_OP + ":flatten_and_concat"] = "packs (matrix, scalar) into one vector"
lib.REPO_STUB_NOTES[_CUSTOM_OP + ":AddJitterOp"] = "returns x + (sigsq_init + jitter) I for some jitter >= 0 (the search loop over LAPACK failures is not modelled)"
lib.REPO_STUB_NOTES[_CUSTOM_OP + ":cholesky_factorization"] = "LAPACK potrf: a lower-triangular factor F, positive diagonal, F F^T = A; deterministic"


def np_linalg_solve(m, args, kw, node):
    """numpy.linalg.solve(A, B) for a matrix whose leading principal minors do not vanish (assumed: used for symmetric
    positive definite A only): Gaussian elimination without pivoting, exact"""
    A = _as2d(m, m.force(args[0], node), node)
    B = _as2d(m, m.force(args[1], node), node)
    n = A.shape[0]
    if A.ndim != 2 or A.shape[1] != n or B.shape[0] != n:
        raise PyRaise("ValueError", node)
    vec = B.ndim == 1
    cols = 1 if vec else B.shape[1]
    M = [[A.at((i, j)) for j in range(n)] + [(B.data[i] if vec else B.at((i, j))) for j in range(cols)] for i in range(n)]
    for k in range(n):
        piv = M[k][k]
        if isinstance(piv, Sym):
            m.assume(m.z(piv, "real") != 0)
        elif piv == 0:
            raise PyRaise("LinAlgError", node)
        for i in range(k + 1, n):
            f = _div(m, M[i][k], piv, node)
            M[i] = [_sub(m, M[i][j], _mul(m, f, M[k][j], node), node) for j in range(n + cols)]
    X = [[None] * cols for _ in range(n)]
    for j in range(cols):
        for i in range(n - 1, -1, -1):
            rhs = M[i][n + j]
            for k in range(i + 1, n):
                rhs = _sub(m, rhs, _mul(m, M[i][k], X[k][j], node), node)
            X[i][j] = _div(m, rhs, M[i][i], node)
    if vec:
        return SArr((n,), [X[i][0] for i in range(n)], "real")
    return SArr((n, cols), [X[i][j] for i in range(n) for j in range(cols)], "real")


lib.EXTERNAL["numpy.linalg.solve"] = np_linalg_solve
lib.TRUSTED_NOTES["numpy.linalg.solve"] = "exact Gaussian elimination (non-vanishing leading minors assumed: SPD arguments only)"
lib.EXTERNAL["autograd.builtins.isinstance"] = lambda m, args, kw, node: __import__("pyvc.builtins", fromlist=["x"]).BUILTINS["isinstance"].fn(m, args, kw, node)
