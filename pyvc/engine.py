"""Symbolic executor: Python AST -> paths -> obligations (z3 formulas).

Exploration is by *re-execution*: every path is run from the function entry
with a recorded list of decisions; at a new symbolic branch both sides are
tested for feasibility and the untaken side is queued.  Fresh symbols are
named by a deterministic counter so that re-executions agree.
"""
import ast
import itertools
from fractions import Fraction

import z3

from . import spec as S
from .source import Repo, strip_docstring, fn_fingerprint, SourceError
from .values import *  # noqa

FEAS_TIMEOUT_MS = 500
MAX_PATHS = 4000
MAX_CALL_DEPTH = 40


class PathInfeasible(Exception):
    pass


def _is_arr(v):
    return type(v).__name__ == "SArr"


class PathLimit(Exception):
    pass


class PyRaise(Exception):
    """a Python exception raised by the program under verification"""

    def __init__(self, cls, node=None, msg=None):
        Exception.__init__(self, cls)
        self.cls = cls
        self.node = node
        self.msg = msg


class _Return(Exception):
    def __init__(self, v):
        self.v = v


class _Break(Exception):
    pass


class _Continue(Exception):
    pass


class _LoopStepDone(Exception):
    """the arbitrary iteration of an invariant loop reached the loop end"""


EXC_PARENTS = {
    "AssertionError": "Exception",
    "KeyError": "LookupError",
    "IndexError": "LookupError",
    "LookupError": "Exception",
    "ValueError": "Exception",
    "TypeError": "Exception",
    "StopIteration": "Exception",
    "NotImplementedError": "RuntimeError",
    "RuntimeError": "Exception",
    "ZeroDivisionError": "ArithmeticError",
    "ArithmeticError": "Exception",
    "AttributeError": "Exception",
    "Exception": "BaseException",
    "OverflowError": "ArithmeticError",
}


def exc_isinstance(cls, handler):
    c = cls
    while c is not None:
        if c == handler:
            return True
        c = EXC_PARENTS.get(c)
    return False


# ---------------------------------------------------------------------------
# class information (from the AST)
# ---------------------------------------------------------------------------


class ClassInfo:
    def __init__(self, repo, module, node, qual=None):
        self.repo = repo
        self.module = module
        self.node = node
        self.name = node.name
        self.qual = qual or node.name
        self.methods = {}
        self.class_assigns = {}
        self.annotations = []  # dataclass-style fields in order: (name, default expr|None)
        self.inner = {}
        self.decorators = [ast.unparse(d) for d in node.decorator_list]
        self.is_dataclass = any(d.startswith("dataclass") for d in self.decorators)
        for st in node.body:
            if isinstance(st, ast.FunctionDef):
                self.methods[st.name] = st
            elif isinstance(st, ast.Assign):
                for tg in st.targets:
                    if isinstance(tg, ast.Name):
                        self.class_assigns[tg.id] = st.value
            elif isinstance(st, ast.AnnAssign) and isinstance(st.target, ast.Name):
                self.annotations.append((st.target.id, st.value))
                if st.value is not None:
                    self.class_assigns[st.target.id] = st.value
            elif isinstance(st, ast.ClassDef):
                self.inner[st.name] = st
        self._bases = None
        self._mro = None

    def bases(self):
        if self._bases is None:
            out = []
            for b in self.node.bases:
                if isinstance(b, ast.Name):
                    r = self.repo.resolve_import(self.module, b.id)
                    if r and r[0] == "class":
                        out.append(get_classinfo(self.repo, r[1], r[2]))
                    else:
                        out.append(b.id)  # external / builtin base: by name
                else:
                    out.append(ast.unparse(b))
            self._bases = out
        return self._bases

    def mro(self):
        if self._mro is None:
            # C3 is overkill here: depth-first, left-to-right, duplicates removed keeping the last
            seq = [self]
            for b in self.bases():
                if isinstance(b, ClassInfo):
                    seq.extend(b.mro())
            out = []
            for c in seq:
                if c in out:
                    out.remove(c)
                out.append(c)
            self._mro = out
        return self._mro

    def find_method(self, name, after=None):
        mro = self.mro()
        if after is not None:
            mro = mro[mro.index(after) + 1 :]
        for c in mro:
            if name in c.methods:
                return c, c.methods[name]
        return None, None

    def find_class_attr(self, name):
        for c in self.mro():
            if name in c.class_assigns:
                return c, c.class_assigns[name]
        return None, None

    def is_subclass_of(self, other_name):
        for c in self.mro():
            if c.name == other_name:
                return True
            for b in c.bases():
                if not isinstance(b, ClassInfo) and b == other_name:
                    return True
        return False

    def target(self):
        return "%s:%s" % (self.module.name, self.qual)

    def __repr__(self):
        return "ClassInfo<%s>" % self.name


_CI_CACHE = {}


def get_classinfo(repo, module, node, qual=None):
    key = (id(repo), module.name, node.lineno, node.name)
    if key not in _CI_CACHE:
        _CI_CACHE[key] = ClassInfo(repo, module, node, qual)
    return _CI_CACHE[key]


# ---------------------------------------------------------------------------
# environments
# ---------------------------------------------------------------------------


class Env:
    def __init__(self, module, locals_=None, parents=(), func=None, selfcls=None):
        self.module = module
        self.locals = locals_ if locals_ is not None else {}
        self.parents = list(parents)
        self.func = func
        self.selfcls = selfcls
        self.globals_decl = set()


class Obligation:
    def __init__(self, name, pc, goal, kind, info=None):
        self.name = name
        self.pc = list(pc)
        self.goal = goal
        self.kind = kind
        self.info = info or {}
        self.status = None
        self.model = None
        self.time = 0.0
        self.backend = None

    def __repr__(self):
        return "Obligation<%s %s>" % (self.name, self.status)


# ---------------------------------------------------------------------------
# the interpreter
# ---------------------------------------------------------------------------


class Interp:
    def __init__(self, repo=None, registry=None):
        self.repo = repo or Repo()
        self.registry = registry  # contracts registry (pyvc.contracts.Registry) or None
        self.reset_path([])
        self.worklist = []
        self.obligations = []
        self.unsupported = []
        self.stats = {"paths": 0, "feas_checks": 0, "infeasible": 0}
        self.bound = 3  # default bounded list length
        self.loop_inv = {}  # (func qual, ordinal) -> callable(interp, ns) -> value
        self.current_contract = None
        self.modular = True
        self.skip_contract_for = set()
        self.func_usage = {}  # target -> fingerprint info (evidence)
        self.assumption_notes = set()
        self.axioms = []

    # -- path bookkeeping -------------------------------------------------

    def reset_path(self, decisions):
        self.decisions = list(decisions)
        self.dpos = 0
        self.pc = []
        self.solver = z3.Solver()
        self.solver.set("timeout", FEAS_TIMEOUT_MS)
        self.fresh_ctr = itertools.count()
        self.nofork = 0
        self.depth = 0
        self.in_spec = 0
        self.writes = None  # write log (set of ids) when tracking heap writes
        self.path_notes = []
        self.abstract_returns = []
        self.path_ambient = []  # process-global sources of nondeterminism read on this path
        self.output_log = []  # what the program handed to output / serialisation functions on this path
        self.path_cache = {}  # per-path memo of deterministic library stubs
        self.ghost_jitter = []
        for ax in getattr(self, "axioms", []):
            self.solver.add(ax)

    def fresh_name(self, base):
        return "%s!%d" % (base, next(self.fresh_ctr))

    def assume(self, c):
        if isinstance(c, bool):
            if not c:
                raise PathInfeasible()
            return
        c = z3.simplify(c)
        if z3.is_true(c):
            return
        if z3.is_false(c):
            raise PathInfeasible()
        self.pc.append(c)
        self.solver.add(c)

    def add_axiom(self, ax):
        """global fact about uninterpreted library functions"""
        self.pc.append(ax)
        self.solver.add(ax)

    def feasible(self, c):
        self.stats["feas_checks"] += 1
        r = self.solver.check(c)
        return r != z3.unsat

    def pc_feasible(self):
        self.stats["feas_checks"] += 1
        return self.solver.check() != z3.unsat

    def branch(self, cond, node=None):
        """decide a (possibly symbolic) condition on this path"""
        if isinstance(cond, bool):
            return cond
        c = z3.simplify(cond)
        if z3.is_true(c):
            return True
        if z3.is_false(c):
            return False
        if self.nofork:
            raise Unsupported("symbolic branch inside a quantifier body", node)
        i = self.dpos
        self.dpos += 1
        if i < len(self.decisions):
            d = self.decisions[i]
        else:
            t_ok = self.feasible(c)
            f_ok = self.feasible(z3.Not(c))
            if t_ok and f_ok:
                self.worklist.append(self.decisions[:i] + [False])
                d = True
            elif t_ok:
                d = True
            elif f_ok:
                d = False
            else:
                raise PathInfeasible()
            self.decisions.append(d)
        self.assume(c if d else z3.Not(c))
        return d

    def choose(self, n, node=None):
        """non-deterministic choice among n alternatives (no solver involved)"""
        if n == 1:
            return 0
        if self.nofork:
            raise Unsupported("choice inside a quantifier body", node)
        i = self.dpos
        self.dpos += 1
        if i < len(self.decisions):
            return self.decisions[i]
        for alt in range(n - 1, 0, -1):
            self.worklist.append(self.decisions[:i] + [alt])
        self.decisions.append(0)
        return 0

    def check(self, name, goal, kind="post", info=None):
        """record a proof obligation: path condition ==> goal"""
        if isinstance(goal, bool):
            g = z3.BoolVal(goal)
        else:
            g = goal
        ob = Obligation(name, self.pc, g, kind, info)
        ob.decisions = list(self.decisions[: self.dpos])
        ob.abs_returns = list(getattr(self, "abstract_returns", []) or [])
        ob.ghost0 = getattr(self, "ghost_initial", None)
        self.obligations.append(ob)
        return ob

    # -- scalar helpers ------------------------------------------------------

    def fresh_scalar(self, kind, name):
        nm = self.fresh_name(name)
        if kind == "int":
            return Sym(z3.Int(nm), "int")
        if kind == "real":
            return Sym(z3.Real(nm), "real")
        if kind == "bool":
            return Sym(z3.Bool(nm), "bool")
        if kind == "str":
            return Sym(z3.Int(nm), "str")
        raise Unsupported("fresh scalar of kind %s" % kind)

    @staticmethod
    def kind_of(v):
        if isinstance(v, Sym):
            return v.k
        if isinstance(v, bool):
            return "bool"
        if isinstance(v, int):
            return "int"
        if isinstance(v, Fraction):
            return "real"
        if isinstance(v, str):
            return "str"
        if v is None:
            return "none"
        return None

    @staticmethod
    def z(v, kind=None):
        """value -> z3 term (of ``kind`` if given)"""
        if isinstance(v, Sym):
            t, k = v.t, v.k
        elif isinstance(v, bool):
            t, k = z3.BoolVal(v), "bool"
        elif isinstance(v, int):
            t, k = z3.IntVal(v), "int"
        elif isinstance(v, Fraction):
            t, k = z3.RealVal(str(v)), "real"
        elif isinstance(v, str):
            t, k = z3.IntVal(str_code(v)), "str"
        elif isinstance(v, float):
            t, k = z3.RealVal(str(Fraction(repr(v)))), "real"
        else:
            raise Unsupported("cannot encode %r as a scalar" % (v,))
        if kind is None or kind == k:
            return t
        if kind == "real" and k == "int":
            return z3.ToReal(t)
        if kind == "real" and k == "bool":
            return z3.If(t, z3.RealVal(1), z3.RealVal(0))
        if kind == "int" and k == "bool":
            return z3.If(t, z3.IntVal(1), z3.IntVal(0))
        if kind == "bool" and k == "int":
            return t != 0
        if kind == "bool" and k == "real":
            return t != 0
        raise Unsupported("cannot convert %s to %s" % (k, kind))

    def mknan(self, isnan, val):
        """possibly-NaN float; a flag that simplifies to False gives the plain value back"""
        if isinstance(isnan, bool):
            return NanReal(True, val) if isnan else val
        f = z3.simplify(isnan)
        if z3.is_false(f):
            return val
        return NanReal(f, val)

    def mk(self, t, k):
        """z3 term -> value, folding numerals back to concrete python values"""
        t = z3.simplify(t)
        if k == "bool":
            if z3.is_true(t):
                return True
            if z3.is_false(t):
                return False
        elif k == "int":
            if z3.is_int_value(t):
                return t.as_long()
        elif k == "real":
            if z3.is_rational_value(t):
                return Fraction(t.numerator_as_long(), t.denominator_as_long())
        elif k == "str":
            if z3.is_int_value(t) and t.as_long() in _LIT_BY_CODE_REF():
                return _LIT_BY_CODE_REF()[t.as_long()]
        return Sym(t, k)

    # truth value of an arbitrary value: python bool or z3 Bool
    def truth(self, v, node=None):
        if isinstance(v, bool):
            return v
        if isinstance(v, z3.BoolRef):
            return v
        if v is None:
            return False
        if isinstance(v, Sym):
            if v.k == "bool":
                return v.t
            if v.k in ("int", "real"):
                return v.t != 0
            if v.k == "str":
                return v.t != str_code("")
        if isinstance(v, (int, Fraction)):
            return v != 0
        if isinstance(v, str):
            return len(v) > 0
        if isinstance(v, tuple):
            return len(v) > 0
        if _is_arr(v):
            if len(v.data) == 1:
                return self.truth(v.data[0], node)
            raise PyRaise("ValueError", node, msg="truth value of an array is ambiguous")
        if isinstance(v, NanReal):
            # NaN is truthy, 0.0 is falsy
            return self.disj([v.isnan, self.truth(v.val, node)])
        if isinstance(v, SOpt):
            tv = self.truth(v.val, node)
            tvz = tv if not isinstance(tv, bool) else z3.BoolVal(tv)
            return z3.And(z3.Not(v.isnone), tvz)
        if isinstance(v, SList):
            return len(v.items) > 0
        if isinstance(v, SymList):
            return v.length > 0
        if isinstance(v, SSorted):
            return self.truth(v.inner, node)
        if isinstance(v, SDict):
            return len(v.d) > 0
        if isinstance(v, SADict):
            return len(v.keys) > 0
        if isinstance(v, SSet):
            return len(v.s) > 0
        if isinstance(v, (SymMap, SymSet)):
            return v.card > 0
        if isinstance(v, SObj):
            if v.cls is not None:
                c, m = v.cls.find_method("__bool__")
                if m is None:
                    c, m = v.cls.find_method("__len__")
                    if m is not None:
                        r = self.call_method(v, "__len__", [], {}, node)
                        return self.truth(r, node)
                else:
                    return self.truth(self.call_method(v, "__bool__", [], {}, node), node)
            return True
        if isinstance(v, (Func, BoundMethod, NativeFn, ClassRef, ExtObj, AbstractObj, ExtRef)):
            return True
        raise Unsupported("truth value of %r" % (v,), node)

    def as_bool_term(self, v, node=None):
        t = self.truth(v, node)
        return z3.BoolVal(t) if isinstance(t, bool) else t

    def force(self, v, node=None):
        """resolve an optional on this path (forks unless in no-fork mode)"""
        while isinstance(v, SOpt):
            if self.nofork:
                return v.val
            if self.branch(v.isnone, node):
                return None
            v = v.val
        return v

    # -- arithmetic --------------------------------------------------------------

    def binop(self, op, a, b, node=None):
        a = self.force(a, node)
        b = self.force(b, node)
        if _is_arr(a) or _is_arr(b):
            from . import npmodel

            return npmodel.arr_binop(self, op, a, b, node)
        if isinstance(a, NanReal) or isinstance(b, NanReal):
            an = a.isnan if isinstance(a, NanReal) else False
            bn = b.isnan if isinstance(b, NanReal) else False
            av = a.val if isinstance(a, NanReal) else a
            bv = b.val if isinstance(b, NanReal) else b
            return self.mknan(self.disj([an, bn]), self.binop(op, av, bv, node))
        ka, kb = self.kind_of(a), self.kind_of(b)
        # sequences
        if isinstance(op, ast.Add):
            if isinstance(a, SList) and isinstance(b, SList):
                return SList(a.items + b.items)
            if isinstance(a, tuple) and isinstance(b, tuple):
                return a + b
            if isinstance(a, str) and isinstance(b, str):
                return a + b
            if isinstance(a, (SList, SymList)) and isinstance(b, (SList, SymList)):
                return self.list_concat(a, b, node)
        if isinstance(op, ast.Mult):
            if isinstance(a, SList) and isinstance(b, int) and not isinstance(b, bool):
                return SList(a.items * b)
            if isinstance(b, SList) and isinstance(a, int) and not isinstance(a, bool):
                return SList(b.items * a)
        if isinstance(op, ast.Mod) and isinstance(a, str):
            bb = b if isinstance(b, tuple) else (b,)
            if all(isinstance(x, (int, str)) and not isinstance(x, bool) for x in bb):
                try:
                    return a % (b if isinstance(b, tuple) else (b,))
                except (TypeError, ValueError):
                    pass
            return self.fresh_scalar("str", "fmt")  # formatted text: opaque
        if isinstance(op, ast.Add) and ka == "str" and kb == "str":
            return self.fresh_scalar("str", "concat")  # text built from opaque pieces: opaque
        if isinstance(op, (ast.BitOr, ast.BitAnd)) and ka == "bool" and kb == "bool":
            f = z3.Or if isinstance(op, ast.BitOr) else z3.And
            return self.mk(f(self.z(a), self.z(b)), "bool")
        if isinstance(op, ast.BitOr) and isinstance(a, SDict) and isinstance(b, SDict):
            d = dict(a.d)
            d.update(b.d)
            return SDict(d)
        if isinstance(a, ExtObj) and a.kind in ("datetime", "timedelta") or isinstance(b, ExtObj) and b.kind in ("datetime", "timedelta"):
            return ExtObj("datetime")
        if isinstance(a, SObj) or isinstance(b, SObj):
            return self.obj_binop(op, a, b, node)
        if ka not in ("int", "real", "bool") or kb not in ("int", "real", "bool"):
            raise Unsupported("binary %s on %r, %r" % (type(op).__name__, a, b), node)
        concrete = not isinstance(a, Sym) and not isinstance(b, Sym)
        if concrete:
            return self.concrete_binop(op, a, b, node)
        kind = "real" if "real" in (ka, kb) else "int"
        if isinstance(op, ast.Div):
            kind = "real"
        za, zb = self.z(a, kind), self.z(b, kind)
        if isinstance(op, ast.Add):
            return self.mk(za + zb, kind)
        if isinstance(op, ast.Sub):
            return self.mk(za - zb, kind)
        if isinstance(op, ast.Mult):
            return self.mk(za * zb, kind)
        if isinstance(op, ast.Div):
            self.div_guard(zb, node)
            return self.mk(za / zb, "real")
        if isinstance(op, ast.FloorDiv):
            self.div_guard(zb, node)
            if kind == "int":
                return self.mk(z3.If(zb > 0, za / zb, (-za) / (-zb)), "int")
            return self.mk(z3.ToReal(z3.ToInt(za / zb)), "real")
        if isinstance(op, ast.Mod):
            self.div_guard(zb, node)
            if kind == "int":
                q = z3.If(zb > 0, za / zb, (-za) / (-zb))
                return self.mk(za - zb * q, "int")
            return self.mk(za - zb * z3.ToReal(z3.ToInt(za / zb)), "real")
        if isinstance(op, ast.Pow):
            if isinstance(b, int) and not isinstance(b, bool) and 0 <= b <= 6:
                r = z3.RealVal(1) if kind == "real" else z3.IntVal(1)
                for _ in range(b):
                    r = r * za
                return self.mk(r, kind)
            return self.lib_pow(a, b, node)
        raise Unsupported("operator %s" % type(op).__name__, node)

    def concrete_binop(self, op, a, b, node):
        if isinstance(a, bool):
            a = int(a)
        if isinstance(b, bool):
            b = int(b)
        try:
            if isinstance(op, ast.Add):
                return a + b
            if isinstance(op, ast.Sub):
                return a - b
            if isinstance(op, ast.Mult):
                return a * b
            if isinstance(op, ast.Div):
                if b == 0:
                    raise PyRaise("ZeroDivisionError", node)
                return Fraction(a) / Fraction(b)
            if isinstance(op, ast.FloorDiv):
                if b == 0:
                    raise PyRaise("ZeroDivisionError", node)
                r = a // b
                return r if isinstance(a, int) and isinstance(b, int) else Fraction(r)
            if isinstance(op, ast.Mod):
                if b == 0:
                    raise PyRaise("ZeroDivisionError", node)
                return a % b
            if isinstance(op, ast.Pow):
                if isinstance(b, int) and (b >= 0 or a != 0):
                    return Fraction(a) ** b if (b < 0 or isinstance(a, Fraction)) else a**b
                return self.lib_pow(a, b, node)
        except PyRaise:
            raise
        raise Unsupported("concrete operator %s" % type(op).__name__, node)

    def div_guard(self, zb, node):
        if self.in_spec or self.nofork:
            return
        if self.branch(zb == 0, node):
            raise PyRaise("ZeroDivisionError", node)

    def lib_pow(self, a, b, node):
        from . import lib

        return lib.np_power(self, [a, b], {}, node)

    def obj_binop(self, op, a, b, node):
        names = {ast.Add: "add", ast.Sub: "sub", ast.Mult: "mul", ast.Div: "truediv"}
        nm = names.get(type(op))
        if nm and isinstance(a, SObj) and a.cls is not None:
            c, m = a.cls.find_method("__%s__" % nm)
            if m is not None:
                return self.call_method(a, "__%s__" % nm, [b], {}, node)
        if nm and isinstance(b, SObj) and b.cls is not None:
            c, m = b.cls.find_method("__r%s__" % nm)
            if m is not None:
                return self.call_method(b, "__r%s__" % nm, [a], {}, node)
        raise Unsupported("operator on objects", node)

    def unaryop(self, op, a, node=None):
        if _is_arr(self.force(a, node)):
            from . import npmodel

            return npmodel.arr_unary(self, op, self.force(a, node), node)
        if isinstance(op, ast.Invert) and isinstance(self.force(a, node), (bool, Sym)) and self.kind_of(self.force(a, node)) == "bool":
            op = ast.Not()
        if isinstance(op, ast.Not):
            t = self.truth(a, node)
            if isinstance(t, bool):
                return not t
            return self.mk(z3.Not(t), "bool")
        a = self.force(a, node)
        if isinstance(a, NanReal) and isinstance(op, (ast.USub, ast.UAdd)):
            return self.mknan(a.isnan, self.unaryop(op, a.val, node))
        k = self.kind_of(a)
        if isinstance(op, ast.USub):
            if not isinstance(a, Sym):
                if isinstance(a, bool):
                    return -int(a)
                if isinstance(a, (int, Fraction)):
                    return -a
            elif k in ("int", "real"):
                return self.mk(-a.t, k)
            elif k == "bool":
                return self.mk(-self.z(a, "int"), "int")
        if isinstance(op, ast.UAdd) and k in ("int", "real"):
            return a
        raise Unsupported("unary %s on %r" % (type(op).__name__, a), node)

    def compare(self, op, a, b, node=None):
        """-> python bool or Sym bool"""
        if isinstance(op, (ast.Is, ast.IsNot)):
            r = self.identical(a, b, node)
            if isinstance(op, ast.IsNot):
                r = (not r) if isinstance(r, bool) else z3.Not(r)
            return r if isinstance(r, bool) else self.mk(r, "bool")
        if isinstance(op, (ast.In, ast.NotIn)):
            r = self.contains(b, a, node)
            if isinstance(op, ast.NotIn):
                r = (not r) if isinstance(r, bool) else z3.Not(r)
            return r if isinstance(r, bool) else self.mk(r, "bool")
        if isinstance(op, (ast.Eq, ast.NotEq)) and (_is_arr(self.force(a, node)) or _is_arr(self.force(b, node))) and not (self.in_spec or self.nofork):
            from . import npmodel

            return npmodel.elementwise(self, lambda x, y: self.compare(op, x, y, node), self.force(a, node), self.force(b, node), node, "bool")
        if isinstance(op, (ast.Eq, ast.NotEq)):
            r = self.equal(a, b, node)
            if isinstance(op, ast.NotEq):
                r = (not r) if isinstance(r, bool) else z3.Not(r)
            return r if isinstance(r, bool) else self.mk(r, "bool")
        a = self.force(a, node)
        b = self.force(b, node)
        if _is_arr(a) or _is_arr(b):
            from . import npmodel

            return npmodel.arr_compare(self, op, a, b, node)
        if isinstance(a, NanReal) or isinstance(b, NanReal):
            # IEEE: every ordering comparison involving NaN is False
            an = a.isnan if isinstance(a, NanReal) else False
            bn = b.isnan if isinstance(b, NanReal) else False
            av = a.val if isinstance(a, NanReal) else a
            bv = b.val if isinstance(b, NanReal) else b
            inner = self.compare(op, av, bv, node)
            r = self.conj([self.neg(an), self.neg(bn), self.as_bool_term(inner) if not isinstance(inner, bool) else inner])
            return r if isinstance(r, bool) else self.mk(r, "bool")
        ka, kb = self.kind_of(a), self.kind_of(b)
        if isinstance(a, tuple) and isinstance(b, tuple):
            return self.tuple_order(op, a, b, node)
        if ka in ("int", "real", "bool") and kb in ("int", "real", "bool"):
            if not isinstance(a, Sym) and not isinstance(b, Sym):
                return {ast.Lt: a < b, ast.LtE: a <= b, ast.Gt: a > b, ast.GtE: a >= b}[type(op)]
            kind = "real" if "real" in (ka, kb) else "int"
            za, zb = self.z(a, kind), self.z(b, kind)
            t = {ast.Lt: za < zb, ast.LtE: za <= zb, ast.Gt: za > zb, ast.GtE: za >= zb}[type(op)]
            return self.mk(t, "bool")
        if isinstance(a, str) and isinstance(b, str):
            return {ast.Lt: a < b, ast.LtE: a <= b, ast.Gt: a > b, ast.GtE: a >= b}[type(op)]
        if a is None or b is None:
            if self.in_spec or self.nofork:
                return self.fresh_scalar("bool", "undef")  # total reading inside specifications
            raise PyRaise("TypeError", node)
        if isinstance(a, SObj) and isinstance(b, SObj) and a.cls is not None and a.cls.find_method("__lt__")[1] is None:
            raise PyRaise("TypeError", node, msg="'<' not supported between instances")
        raise Unsupported("ordering comparison of %r and %r" % (a, b), node)

    def tuple_order(self, op, a, b, node):
        """lexicographic comparison, evaluated lazily from the front as python does: later
        elements are only compared when all earlier ones can be equal"""
        is_lt = isinstance(op, (ast.Lt, ast.LtE))
        strict = isinstance(op, (ast.Lt, ast.Gt))
        lt = ast.Lt() if is_lt else ast.Gt()

        def rec(i):
            if i >= len(a) or i >= len(b):
                if len(a) == len(b):
                    return not strict
                return (len(a) < len(b)) if is_lt else (len(a) > len(b))
            e = self.equal(a[i], b[i], node)
            if not isinstance(e, bool):
                e2 = z3.simplify(e)
                if z3.is_true(e2):
                    e = True
                elif z3.is_false(e2):
                    e = False
            if e is True:
                return rec(i + 1)
            l = self.compare(lt, a[i], b[i], node)
            lz = l if isinstance(l, bool) else self.as_bool_term(l)
            if e is False:
                return lz
            try:
                rest = rec(i + 1)
            except (PyRaise, Unsupported):
                # the remaining components cannot be ordered (e.g. plain objects): python only looks
                # at them when this component is equal -- decide that on this path
                if self.nofork:
                    raise
                if self.branch(e, node):
                    return rec(i + 1)
                return lz
            return self.disj([lz, self.conj([e, rest])])

        res = rec(0)
        if isinstance(res, bool):
            return res
        return self.mk(res, "bool")

    def identical(self, a, b, node=None):
        """``a is b`` -> python bool or z3 Bool"""
        if isinstance(a, SOpt) and b is None:
            return a.isnone
        if isinstance(b, SOpt) and a is None:
            return b.isnone
        if a is None or b is None:
            return a is None and b is None
        if isinstance(a, SOpt) or isinstance(b, SOpt):
            a = self.force(a, node)
            b = self.force(b, node)
            return self.identical(a, b, node)
        if isinstance(a, bool) and isinstance(b, bool):
            return a == b
        if isinstance(a, (Sym, int, Fraction, str)) and isinstance(b, (Sym, int, Fraction, str)):
            return self.equal(a, b, node)
        return a is b

    def equal(self, a, b, node=None):
        """``a == b`` -> python bool or z3 Bool"""
        if isinstance(a, SOpt) or isinstance(b, SOpt):
            if a is None:
                return b.isnone
            if b is None:
                return a.isnone
            if isinstance(a, SOpt) and isinstance(b, SOpt):
                inner = self.equal(a.val, b.val, node)
                inner = z3.BoolVal(inner) if isinstance(inner, bool) else inner
                return z3.Or(z3.And(a.isnone, b.isnone), z3.And(z3.Not(a.isnone), z3.Not(b.isnone), inner))
            if isinstance(a, SOpt):
                inner = self.equal(a.val, b, node)
                inner = z3.BoolVal(inner) if isinstance(inner, bool) else inner
                return z3.And(z3.Not(a.isnone), inner)
            inner = self.equal(a, b.val, node)
            inner = z3.BoolVal(inner) if isinstance(inner, bool) else inner
            return z3.And(z3.Not(b.isnone), inner)
        if a is None or b is None:
            return a is None and b is None
        if isinstance(a, NanReal) or isinstance(b, NanReal):
            an = a.isnan if isinstance(a, NanReal) else False
            bn = b.isnan if isinstance(b, NanReal) else False
            av = a.val if isinstance(a, NanReal) else a
            bv = b.val if isinstance(b, NanReal) else b
            if av is None or bv is None or isinstance(av, (SObj, SList, tuple)) or isinstance(bv, (SObj, SList, tuple)):
                return False
            if self.in_spec or self.nofork:
                # specification-level equality: NaN equals NaN (same abstract value)
                both = self.conj([an, bn])
                neither = self.conj([self.neg(an), self.neg(bn), self.equal(av, bv, node)])
                return self.disj([both, neither])
            return self.conj([self.neg(an), self.neg(bn), self.equal(av, bv, node)])
        ka, kb = self.kind_of(a), self.kind_of(b)
        if ka is not None and kb is not None:
            num = ("int", "real", "bool")
            if ka in num and kb in num:
                if not isinstance(a, Sym) and not isinstance(b, Sym):
                    return a == b
                if ka == "bool" and kb == "bool":
                    return self.z(a) == self.z(b)
                kind = "real" if "real" in (ka, kb) else "int"
                return self.z(a, kind) == self.z(b, kind)
            if ka == "str" and kb == "str":
                if not isinstance(a, Sym) and not isinstance(b, Sym):
                    return a == b
                return self.z(a) == self.z(b)
            return False
        if isinstance(a, tuple) and isinstance(b, tuple):
            if len(a) != len(b):
                return False
            return self.conj([self.equal(x, y, node) for x, y in zip(a, b)])
        if isinstance(a, SList) and isinstance(b, SList):
            if len(a.items) != len(b.items):
                return False
            return self.conj([self.equal(x, y, node) for x, y in zip(a.items, b.items)])
        if isinstance(a, (SList, SymList)) and isinstance(b, (SList, SymList)):
            return self.symlist_equal(a, b, node)
        if isinstance(a, SSorted) and isinstance(b, SSorted):
            return self.equal(a.inner, b.inner, node)
        if isinstance(a, SDict) and isinstance(b, SDict):
            if set(a.d) != set(b.d):
                return False
            return self.conj([self.equal(a.d[k], b.d[k], node) for k in a.d])
        if isinstance(a, SADict) and isinstance(b, SADict):
            if len(a.keys) != len(b.keys):
                return False
            return self.conj([self.equal(x, y, node) for x, y in zip(a.keys, b.keys)] + [self.equal(x, y, node) for x, y in zip(a.vals, b.vals)])
        if isinstance(a, SSet) and isinstance(b, SSet):
            return set(a.s) == set(b.s)
        if _is_arr(a) and _is_arr(b):
            if a.shape != b.shape:
                return False
            return self.conj([self.equal(x, y, node) for x, y in zip(a.data, b.data)])
        if isinstance(a, SObj) and isinstance(b, SObj):
            if a is b:
                return True
            if a.cls is not None:
                c, m = a.cls.find_method("__eq__")
                if m is not None:
                    return self.as_bool_term(self.call_method(a, "__eq__", [b], {}, node))
                if a.cls.is_dataclass and b.cls is a.cls:
                    return self.conj([self.equal(a.fields[f], b.fields[f], node) for f in a.fields])
            if self.in_spec or self.nofork:
                # specification-level structural equality of records
                if a.clsname() == b.clsname() and set(a.fields) == set(b.fields):
                    return self.conj([self.equal(a.fields[f], b.fields[f], node) for f in a.fields])
            if a.owner is not None or b.owner is not None:
                raise Unsupported("identity of elements of an unbounded container", node)
            return False
        if type(a) is not type(b):
            if isinstance(a, (SObj, SList, SDict, tuple, SSet)) and isinstance(b, (SObj, SList, SDict, tuple, SSet, Sym, int, str, Fraction)):
                return False
            if isinstance(b, (SObj, SList, SDict, tuple, SSet)) and isinstance(a, (Sym, int, str, Fraction)):
                return False
        if isinstance(a, (ClassRef,)) and isinstance(b, ClassRef):
            return a.info is b.info
        if isinstance(a, SymSet) and isinstance(b, SymSet):
            k = z3.Int(self.fresh_name("k"))
            return z3.ForAll([k], a.has(k) == b.has(k))
        if isinstance(a, SymMap) and isinstance(b, SymMap):
            k = z3.Int(self.fresh_name("k"))
            ev = self.equal(a.get(k), b.get(k), node)
            ev = z3.BoolVal(ev) if isinstance(ev, bool) else ev
            return z3.ForAll([k], z3.And(a.has(k) == b.has(k), z3.Implies(a.has(k), ev)))
        raise Unsupported("equality of %r and %r" % (a, b), node)

    @staticmethod
    def neg(x):
        return (not x) if isinstance(x, bool) else z3.Not(x)

    @staticmethod
    def conj(xs):
        ts = []
        for x in xs:
            if isinstance(x, bool):
                if not x:
                    return False
            else:
                ts.append(x)
        if not ts:
            return True
        return z3.And(*ts) if len(ts) > 1 else ts[0]

    @staticmethod
    def disj(xs):
        ts = []
        for x in xs:
            if isinstance(x, bool):
                if x:
                    return True
            else:
                ts.append(x)
        if not ts:
            return False
        return z3.Or(*ts) if len(ts) > 1 else ts[0]

    def symlist_equal(self, a, b, node):
        la, lb = self.length_term(a), self.length_term(b)
        i = z3.Int(self.fresh_name("i"))
        self.nofork += 1
        try:
            e = self.equal(self.index_nocheck(a, i), self.index_nocheck(b, i), node)
        finally:
            self.nofork -= 1
        e = z3.BoolVal(e) if isinstance(e, bool) else e
        return z3.And(la == lb, z3.ForAll([i], z3.Implies(z3.And(0 <= i, i < la), e)))

    # -- ite over values ------------------------------------------------------------

    def ite(self, c, a, b, node=None):
        """value-level if-then-else (c: z3 Bool or python bool)"""
        if isinstance(c, bool):
            return a if c else b
        c = z3.simplify(c)
        if z3.is_true(c):
            return a
        if z3.is_false(c):
            return b
        if a is b:
            return a
        if a is None and b is None:
            return None
        if a is None:
            if isinstance(b, SOpt):
                return SOpt(z3.Or(c, b.isnone), b.val)
            return SOpt(c, b)
        if b is None:
            if isinstance(a, SOpt):
                return SOpt(z3.Or(z3.Not(c), a.isnone), a.val)
            return SOpt(z3.Not(c), a)
        if isinstance(a, SOpt) or isinstance(b, SOpt):
            an = a.isnone if isinstance(a, SOpt) else z3.BoolVal(False)
            bn = b.isnone if isinstance(b, SOpt) else z3.BoolVal(False)
            av = a.val if isinstance(a, SOpt) else a
            bv = b.val if isinstance(b, SOpt) else b
            return SOpt(z3.If(c, an, bn), self.ite(c, av, bv, node))
        if isinstance(a, NanReal) or isinstance(b, NanReal):
            if (isinstance(a, NanReal) or self.kind_of(a) in ("int", "real")) and (isinstance(b, NanReal) or self.kind_of(b) in ("int", "real")):
                an = a.isnan if isinstance(a, NanReal) else False
                bn = b.isnan if isinstance(b, NanReal) else False
                av = a.val if isinstance(a, NanReal) else a
                bv = b.val if isinstance(b, NanReal) else b
                anz = z3.BoolVal(an) if isinstance(an, bool) else an
                bnz = z3.BoolVal(bn) if isinstance(bn, bool) else bn
                return self.mknan(z3.simplify(z3.If(c, anz, bnz)), self.ite(c, av, bv, node))
        ka, kb = self.kind_of(a), self.kind_of(b)
        if ka is not None and kb is not None:
            if ka == kb:
                return self.mk(z3.If(c, self.z(a), self.z(b)), ka)
            if ka in ("int", "real", "bool") and kb in ("int", "real", "bool"):
                kind = "real" if "real" in (ka, kb) else "int"
                return self.mk(z3.If(c, self.z(a, kind), self.z(b, kind)), kind)
        if isinstance(a, tuple) and isinstance(b, tuple) and len(a) == len(b):
            return tuple(self.ite(c, x, y, node) for x, y in zip(a, b))
        if isinstance(a, SObj) and isinstance(b, SObj) and a.clsname() == b.clsname() and set(a.fields) == set(b.fields):
            o = SObj(a.cls, {f: self.ite(c, a.fields[f], b.fields[f], node) for f in a.fields}, a.declname)
            o.tag = "ite"
            return o
        if isinstance(a, SDict) and isinstance(b, SDict) and set(a.d) == set(b.d):
            return SDict({k: self.ite(c, a.d[k], b.d[k], node) for k in a.d})
        if isinstance(a, SList) and isinstance(b, SList) and len(a.items) == len(b.items):
            return SList([self.ite(c, x, y, node) for x, y in zip(a.items, b.items)])
        if isinstance(a, (SList, SymList)) and isinstance(b, (SList, SymList)):
            la, lb = self.length_term(a), self.length_term(b)
            et = a.etype if isinstance(a, SymList) else (b.etype if isinstance(b, SymList) else None)
            return SymList(et, z3.If(c, la, lb), lambda i, a=a, b=b: self.ite(c, self.index_nocheck(a, i), self.index_nocheck(b, i)))
        if isinstance(a, SymSet) and isinstance(b, SymSet):
            return SymSet(a.ktype, lambda k: z3.If(c, a.has(k), b.has(k)), z3.If(c, a.card, b.card))
        if isinstance(a, SymMap) and isinstance(b, SymMap):
            return SymMap(a.ktype, a.vtype, lambda k: z3.If(c, a.has(k), b.has(k)), lambda k: self.ite(c, a.get(k), b.get(k)), z3.If(c, a.card, b.card))
        # last resort: fork
        if self.nofork:
            raise Unsupported("cannot merge %r and %r" % (a, b), node)
        return a if self.branch(c, node) else b

    # -- containers ----------------------------------------------------------------

    def length_term(self, v):
        if isinstance(v, SList):
            return z3.IntVal(len(v.items))
        if isinstance(v, SymList):
            return v.length
        if isinstance(v, SSorted):
            return self.length_term(v.inner)
        raise Unsupported("length of %r" % (v,))

    def length(self, v, node=None):
        v = self.force(v, node)
        if isinstance(v, SList):
            return len(v.items)
        if _is_arr(v):
            if not v.shape:
                raise PyRaise("TypeError", node)
            return v.shape[0]
        if isinstance(v, SymList):
            return self.mk(v.length, "int")
        if isinstance(v, SSorted):
            return self.length(v.inner, node)
        if isinstance(v, tuple):
            return len(v)
        if isinstance(v, str):
            return len(v)
        if isinstance(v, SDict):
            return len(v.d)
        if isinstance(v, SADict):
            return len(v.keys)
        if isinstance(v, SSet):
            return len(v.s)
        if isinstance(v, (SymMap, SymSet)):
            return self.mk(v.card, "int")
        if isinstance(v, SRange):
            lo, hi, st = v.lo, v.hi, v.step
            if st == 1:
                d = self.binop(ast.Sub(), hi, lo, node)
                return self.maxv(d, 0)
            if all(isinstance(x, int) for x in (lo, hi, st)):
                return len(range(lo, hi, st))
        if isinstance(v, SObj) and v.cls is not None:
            c, m = v.cls.find_method("__len__")
            if m is not None:
                return self.call_method(v, "__len__", [], {}, node)
        if isinstance(v, Sym) and v.k == "str":
            raise Unsupported("len of symbolic string", node)
        raise Unsupported("len(%r)" % (v,), node)

    def maxv(self, a, b):
        c = self.compare(ast.GtE(), a, b)
        return self.ite(c.t if isinstance(c, Sym) else c, a, b)

    def minv(self, a, b):
        c = self.compare(ast.LtE(), a, b)
        return self.ite(c.t if isinstance(c, Sym) else c, a, b)

    def index_nocheck(self, seq, i):
        """element i of a list (i: z3 Int term or python int), no bounds check"""
        if isinstance(seq, SSorted):
            seq = seq.inner
        if isinstance(seq, SymList):
            it = z3.IntVal(i) if isinstance(i, int) else i
            v = seq.getter(it)
            if isinstance(v, SObj) and v.owner is None:
                v.owner = (seq, it, seq.version)
            return v
        if isinstance(seq, SList):
            if isinstance(i, int):
                return seq.items[i]
            i = z3.simplify(i)
            if z3.is_int_value(i):
                return seq.items[i.as_long()]
            if not seq.items:
                raise Unsupported("symbolic index into empty list")
            r = seq.items[-1]
            for j in range(len(seq.items) - 2, -1, -1):
                r = self.ite(i == j, seq.items[j], r)
            return r
        if isinstance(seq, tuple):
            return self.index_nocheck(SList(list(seq)), i)
        raise Unsupported("indexing %r" % (seq,))

    def getitem(self, c, k, node=None):
        c = self.force(c, node)
        if _is_arr(c):
            from . import npmodel

            return npmodel.arr_getitem(self, c, k, node)
        if isinstance(k, slice):
            return self.getslice(c, k, node)
        if isinstance(c, SSorted):
            return self.getitem(c.inner, k, node)
        if isinstance(c, (SList, tuple)):
            items = c.items if isinstance(c, SList) else list(c)
            k = self.force(k, node)
            if isinstance(k, bool):
                k = int(k)
            if isinstance(k, int):
                if -len(items) <= k < len(items):
                    return items[k]
                if (self.in_spec or self.nofork) and items:
                    # total reading inside specifications: an unspecified value of the element shape
                    return self.havoc_like_spec(items[0])
                raise PyRaise("IndexError", node)
            if isinstance(k, Sym) and k.k == "int":
                n = len(items)
                if not (self.in_spec or self.nofork):
                    if self.branch(k.t < 0, node):
                        k = self.mk(k.t + n, "int")
                        if isinstance(k, int):
                            return self.getitem(c, k, node)
                    if not self.branch(z3.And(k.t >= 0, k.t < n), node):
                        raise PyRaise("IndexError", node)
                    if any(not (is_concrete_scalar(x) or isinstance(x, Sym)) for x in items):
                        # elements are (mutable) objects: decide the position on this path so that
                        # object identity is preserved
                        for j in range(n):
                            if j == n - 1 or self.branch(k.t == j, node):
                                return items[j]
                return self.index_nocheck(SList(items), k.t)
            raise Unsupported("list index %r" % (k,), node)
        if isinstance(c, SymList):
            k = self.force(k, node)
            if isinstance(k, bool):
                k = int(k)
            kt = self.z(k, "int")
            if not (self.in_spec or self.nofork):
                if isinstance(k, int) and k < 0:
                    kt = c.length + k
                elif isinstance(k, Sym):
                    if self.branch(kt < 0, node):
                        kt = c.length + kt
                if not self.branch(z3.And(kt >= 0, kt < c.length), node):
                    raise PyRaise("IndexError", node)
            elif isinstance(k, int) and k < 0:
                kt = c.length + k
            return self.index_nocheck(c, kt)
        if isinstance(c, SDict):
            k = self.force(k, node)
            if is_concrete_scalar(k) or isinstance(k, tuple):
                kk = self.dict_key(k)
                if kk in c.d:
                    return c.d[kk]
                fac = getattr(c, "default_factory", None)
                if fac is not None and not (self.in_spec or self.nofork):
                    v = self.call(fac, [], {}, node)
                    c.d[kk] = v
                    self.note_write(c)
                    return v
                if fac is not None:
                    return self.call(fac, [], {}, node)
                if (self.in_spec or self.nofork) and c.d:
                    # total reading inside specifications: an unspecified value shaped like the other entries
                    return self.havoc_like_spec(next(iter(c.d.values())))
                raise PyRaise("KeyError", node)
            # symbolic key into a concrete-key dict: compare with every key
            if isinstance(k, Sym):
                for kk, vv in c.d.items():
                    e = self.equal(k, kk, node)
                    if self.branch(self.as_bool_term(e) if not isinstance(e, bool) else e, node):
                        return vv
                raise PyRaise("KeyError", node)
            raise Unsupported("dict key %r" % (k,), node)
        if isinstance(c, SADict):
            k = self.force(k, node)
            if self.in_spec or self.nofork:
                if not c.keys:
                    raise Unsupported("lookup in empty dict inside a specification", node)
                r = c.vals[-1]
                for kk, vv in reversed(list(zip(c.keys, c.vals))[:-1]):
                    r = self.ite(self.as_bool_term(self.equal(k, kk, node)), vv, r, node)
                return r
            for kk, vv in zip(c.keys, c.vals):
                e = self.equal(k, kk, node)
                if e if isinstance(e, bool) else self.branch(e, node):
                    return vv
            raise PyRaise("KeyError", node)
        if isinstance(c, SymMap):
            k = self.force(k, node)
            if k is None and (self.in_spec or self.nofork):
                # total reading inside specifications: unspecified value
                return self.havoc_like_spec(c.get(z3.IntVal(0)))
            kt = self.z(k)
            if not (self.in_spec or self.nofork):
                if not self.branch(c.has(kt), node):
                    raise PyRaise("KeyError", node)
            v = c.get(kt)
            if isinstance(v, (SObj, SDict)) and getattr(v, "owner", None) is None:
                try:
                    v.owner = (c, kt, c.version)
                except AttributeError:
                    pass
            return v
        if isinstance(c, SObj) and c.cls is not None:
            cc, m = c.cls.find_method("__getitem__")
            if m is not None:
                return self.call_method(c, "__getitem__", [k], {}, node)
        if isinstance(c, str) and isinstance(k, int):
            return c[k]
        if c is None:
            raise PyRaise("TypeError", node)
        raise Unsupported("subscript of %r" % (c,), node)

    @staticmethod
    def dict_key(k):
        if isinstance(k, Fraction) and k.denominator == 1:
            return int(k)
        return k

    def getslice(self, c, sl, node):
        lo, hi, st = sl.start, sl.stop, sl.step
        if st is not None and st != 1:
            if isinstance(c, (SList, tuple)) and all(x is None or isinstance(x, int) for x in (lo, hi, st)):
                items = c.items if isinstance(c, SList) else list(c)
                r = items[slice(lo, hi, st)]
                return SList(r) if isinstance(c, SList) else tuple(r)
            raise Unsupported("slice step", node)
        if isinstance(c, SSorted):
            c = c.inner
        if isinstance(c, (SList, tuple)) and all(x is None or (isinstance(x, int) and not isinstance(x, bool)) for x in (lo, hi)):
            items = c.items if isinstance(c, SList) else list(c)
            r = items[slice(lo, hi)]
            return SList(r) if isinstance(c, SList) else tuple(r)
        if isinstance(c, str):
            return c[slice(lo, hi)]
        if isinstance(c, (SList, tuple)) and not self.nofork:
            # concrete shape, symbolic bounds: enumerate the (finitely many) effective bounds
            items = c.items if isinstance(c, SList) else list(c)
            n = len(items)

            def conc(x, default):
                if x is None:
                    return default
                x = self.force(x, node)
                if isinstance(x, bool):
                    x = int(x)
                if isinstance(x, int):
                    return max(0, min(n, x + n if x < 0 else x))
                xt = self.z(x, "int")
                xt = z3.If(xt < 0, xt + n, xt)
                xt = z3.If(xt < 0, z3.IntVal(0), z3.If(xt > n, z3.IntVal(n), xt))
                for v in range(0, n + 1):
                    if v == n or self.branch(xt == v, node):
                        return v

            l0 = conc(lo, 0)
            h0 = conc(hi, n)
            r = items[l0:h0]
            return SList(r) if isinstance(c, SList) else tuple(r)
        if isinstance(c, (SList, SymList)):
            n = self.length_term(c)

            def norm(x, default):
                if x is None:
                    return default
                x = self.force(x, node)
                xt = self.z(x, "int")
                xt = z3.If(xt < 0, xt + n, xt)
                return z3.If(xt < 0, z3.IntVal(0), z3.If(xt > n, n, xt))

            lo_t = norm(lo, z3.IntVal(0))
            hi_t = norm(hi, n)
            ln = z3.simplify(z3.If(hi_t >= lo_t, hi_t - lo_t, z3.IntVal(0)))
            if z3.is_int_value(ln) and ln.as_long() <= 64:
                return SList([self.index_nocheck(c, z3.simplify(lo_t + j)) for j in range(ln.as_long())])
            et = c.etype if isinstance(c, SymList) else None
            return SymList(et, ln, lambda i, c=c, lo_t=lo_t: self.index_nocheck(c, lo_t + i))
        raise Unsupported("slice of %r" % (c,), node)

    def note_write(self, obj):
        if self.writes is not None:
            self.writes.append(obj)

    def setitem(self, c, k, v, node=None):
        c = self.force(c, node)
        if _is_arr(c):
            from . import npmodel

            return npmodel.arr_setitem(self, c, k, v, node)
        if isinstance(c, SList):
            self.note_write(c)
            k = self.force(k, node)
            if isinstance(k, int):
                if -len(c.items) <= k < len(c.items):
                    c.items[k] = v
                    return
                raise PyRaise("IndexError", node)
            if isinstance(k, Sym) and k.k == "int":
                n = len(c.items)
                if not self.branch(z3.And(k.t >= 0, k.t < n), node):
                    if self.branch(z3.And(k.t < 0, k.t >= -n), node):
                        raise Unsupported("negative symbolic index store", node)
                    raise PyRaise("IndexError", node)
                c.items = [self.ite(k.t == j, v, c.items[j], node) for j in range(n)]
                return
            raise Unsupported("list store index", node)
        if isinstance(c, SymList):
            self.note_write(c)
            k = self.force(k, node)
            kt = self.z(k, "int")
            if isinstance(k, int) and k < 0:
                kt = c.length + k
            if not self.branch(z3.And(kt >= 0, kt < c.length), node):
                raise PyRaise("IndexError", node)
            self.symlist_store(c, kt, v)
            return
        if isinstance(c, SDict):
            self.note_write(c)
            k = self.force(k, node)
            if is_concrete_scalar(k) or isinstance(k, tuple):
                c.d[self.dict_key(k)] = v
                self.writeback(c)
                return
            if isinstance(k, Sym) and getattr(c, "default_factory", None) is None:
                # a literal dict receives a symbolic key: continue as an association list (bounded representation)
                keys = list(c.d.keys())
                vals = list(c.d.values())
                c.__class__ = SADict
                c.__dict__.pop("d", None)
                c.keys = keys
                c.vals = vals
                return self.setitem(c, k, v, node)
            raise Unsupported("symbolic key into concrete dict", node)
        if isinstance(c, SADict):
            self.note_write(c)
            k = self.force(k, node)
            for i, kk in enumerate(c.keys):
                e = self.equal(k, kk, node)
                if e if isinstance(e, bool) else self.branch(e, node):
                    c.vals[i] = v
                    return
            c.keys.append(k)
            c.vals.append(v)
            return
        if isinstance(c, SymMap):
            self.note_write(c)
            k = self.force(k, node)
            self.symmap_store(c, self.z(k), v, node)
            return
        if isinstance(c, SObj) and c.cls is not None:
            cc, m = c.cls.find_method("__setitem__")
            if m is not None:
                self.call_method(c, "__setitem__", [k, v], {}, node)
                return
        raise Unsupported("subscript store into %r" % (c,), node)

    def symlist_store(self, c, kt, v):
        old = c.getter
        c.getter = lambda i, old=old, kt=kt, v=v: self.ite(i == kt, v, old(i))
        c.version += 1

    def symmap_store(self, c, kt, v, node=None):
        oh, og, oc = c.has, c.get, c.card
        if c.vtype is not None:
            v = self.coerce(v, c.vtype, node)
        c.card = z3.If(oh(kt), oc, oc + 1)
        c.has = lambda k, oh=oh, kt=kt: z3.Or(k == kt, oh(k))
        c.get = lambda k, og=og, kt=kt, v=v: self.ite(k == kt, v, og(k))
        c.version += 1
        if c.keyseq is not None:
            raise Unsupported("store into ordered map", node)

    def symmap_delete(self, c, kt, node=None):
        oh, oc = c.has, c.card
        c.card = z3.If(oh(kt), oc - 1, oc)
        c.has = lambda k, oh=oh, kt=kt: z3.And(k != kt, oh(k))
        c.version += 1

    def writeback(self, v):
        """a mutable view taken out of an unbounded container was mutated:
        store the new value back"""
        ow = getattr(v, "owner", None)
        if ow is None:
            return
        cont, idx, ver = ow
        if isinstance(cont, SymList):
            if cont.version != ver:
                raise Unsupported("mutation through a stale view of an unbounded list")
            snap = self.shallow_copy(v)
            self.symlist_store(cont, idx, snap)
            self.note_write(cont)
            v.owner = (cont, idx, cont.version)
        elif isinstance(cont, SymMap):
            if cont.version != ver:
                raise Unsupported("mutation through a stale view of an unbounded map")
            snap = self.shallow_copy(v)
            og = cont.get
            cont.get = lambda k, og=og, idx=idx, snap=snap: self.ite(k == idx, snap, og(k))
            cont.version += 1
            self.note_write(cont)
            v.owner = (cont, idx, cont.version)

    def havoc_like_spec(self, v):
        """an unspecified value shaped like ``v`` (out-of-range reads inside specifications)"""
        if isinstance(v, SObj):
            return SObj(v.cls, {f: self.havoc_like_spec(x) for f, x in v.fields.items()}, v.declname)
        k = self.kind_of(v)
        if k in ("int", "real", "bool", "str"):
            return self.fresh_scalar(k, "undef")
        if isinstance(v, tuple):
            return tuple(self.havoc_like_spec(x) for x in v)
        if isinstance(v, SOpt):
            return SOpt(z3.Bool(self.fresh_name("undef.isnone")), self.havoc_like_spec(v.val))
        return v

    def shallow_copy(self, v):
        if isinstance(v, SObj):
            o = SObj(v.cls, dict(v.fields), v.declname)
            return o
        if isinstance(v, SDict):
            return SDict(v.d)
        return v

    def delitem(self, c, k, node=None):
        c = self.force(c, node)
        if isinstance(k, slice):
            if k.start is None and k.stop is None and k.step is None:
                self.note_write(c)
                if isinstance(c, SList):
                    c.items = []
                    return
                if isinstance(c, SymList):
                    c.length = z3.IntVal(0)
                    c.version += 1
                    return
            raise Unsupported("del of a slice", node)
        k = self.force(k, node)
        if isinstance(c, SDict):
            self.note_write(c)
            kk = self.dict_key(k)
            if is_concrete_scalar(kk) or isinstance(kk, tuple):
                if kk in c.d:
                    del c.d[kk]
                    return
                raise PyRaise("KeyError", node)
        if isinstance(c, SADict):
            self.note_write(c)
            for i, kk in enumerate(c.keys):
                e = self.equal(k, kk, node)
                if e if isinstance(e, bool) else self.branch(e, node):
                    del c.keys[i]
                    del c.vals[i]
                    return
            raise PyRaise("KeyError", node)
        if isinstance(c, SymMap):
            self.note_write(c)
            kt = self.z(k)
            if not self.branch(c.has(kt), node):
                raise PyRaise("KeyError", node)
            self.symmap_delete(c, kt, node)
            return
        if isinstance(c, SList) and isinstance(k, int):
            self.note_write(c)
            if -len(c.items) <= k < len(c.items):
                del c.items[k]
                return
            raise PyRaise("IndexError", node)
        raise Unsupported("del on %r" % (c,), node)

    def contains(self, c, x, node=None):
        """``x in c`` -> python bool | z3 Bool"""
        c = self.force(c, node)
        if _is_arr(c):
            return self.disj([self.equal(x, y, node) for y in c.data])
        if isinstance(c, (SList, tuple)):
            items = c.items if isinstance(c, SList) else c
            return self.disj([self.equal(x, y, node) for y in items])
        if isinstance(c, SSet):
            return self.disj([self.equal(x, y, node) for y in c.s])
        if isinstance(c, SDict):
            x = self.force(x, node)
            if is_concrete_scalar(x) or (isinstance(x, tuple) and all(is_concrete_scalar(y) for y in x)):
                return self.dict_key(x) in c.d
            return self.disj([self.equal(x, y, node) for y in c.d])
        if isinstance(c, SADict):
            return self.disj([self.equal(x, y, node) for y in c.keys])
        if isinstance(c, SymMap):
            x = self.force(x, node)
            if x is None:
                return False
            return c.has(self.z(x))
        if isinstance(c, SymSet):
            x = self.force(x, node)
            if x is None:
                return False
            return c.has(self.z(x))
        if isinstance(c, SSorted):
            return self.contains(c.inner, x, node)
        if isinstance(c, SymList):
            i = z3.Int(self.fresh_name("j"))
            self.nofork += 1
            try:
                e = self.equal(self.index_nocheck(c, i), x, node)
            finally:
                self.nofork -= 1
            e = z3.BoolVal(e) if isinstance(e, bool) else e
            return z3.Exists([i], z3.And(0 <= i, i < c.length, e))
        if isinstance(c, SRange):
            x = self.force(x, node)
            if c.step == 1:
                return self.conj([self.as_bool_term(self.compare(ast.LtE(), c.lo, x)), self.as_bool_term(self.compare(ast.Lt(), x, c.hi))])
        if isinstance(c, SObj) and c.cls is not None:
            cc, m = c.cls.find_method("__contains__")
            if m is not None:
                return self.truth(self.call_method(c, "__contains__", [x], {}, node), node)
        if isinstance(c, str) and isinstance(x, str):
            return x in c
        raise Unsupported("membership in %r" % (c,), node)

    def list_concat(self, a, b, node):
        la = self.length_term(a)
        lb = self.length_term(b)
        et = a.etype if isinstance(a, SymList) else getattr(b, "etype", None)
        return SymList(et, la + lb, lambda i: self.ite(i < la, self.index_nocheck(a, i), self.index_nocheck(b, i - la)))

    # -- fresh values from type descriptors ---------------------------------------------

    def fresh(self, t, name, bounded=None):
        """fresh symbolic value of declared type ``t``; may add assumptions.
        ``bounded``: dict path->length for lists that are to get a concrete shape,
        or None for the unbounded representation."""
        if isinstance(t, S._Scalar):
            if t.kind == "none":
                return None
            if bounded is not None and name in bounded and isinstance(bounded[name], (int, bool, str)):
                return bounded[name]  # scalar fixed by the shape of this unit
            return self.fresh_scalar(t.kind, name)
        if isinstance(t, S.Arr):
            from . import npmodel

            shp = t.shape
            if bounded is not None and name in bounded:
                shp = tuple(bounded[name]) if isinstance(bounded[name], (list, tuple)) else (bounded[name],)
            if shp is None:
                raise Unsupported("array parameter %s needs a concrete shape" % name)
            n = 1
            for d in shp:
                n *= d
            return npmodel.SArr(shp, [self.fresh(t.t, "%s[%d]" % (name, i), bounded) for i in range(n)], {"int": "int", "real": "real", "bool": "bool"}.get(getattr(t.t, "kind", "real"), "real"))
        if isinstance(t, S._NanRealT):
            return NanReal(z3.Bool(self.fresh_name(name + ".isnan")), self.fresh_scalar("real", name))
        if isinstance(t, S.Lit):
            return self.lit_value(t.value)
        if isinstance(t, S.Enum):
            if all(isinstance(x, str) for x in t.values):
                v = self.fresh_scalar("str", name)
            else:
                v = self.fresh_scalar("int", name)
            self.assume(z3.Or(*[v.t == self.z(x) for x in t.values]))
            return v
        if isinstance(t, S.Opt):
            isn = z3.Bool(self.fresh_name(name + ".isnone"))
            return SOpt(isn, self.fresh(t.t, name, bounded))
        if isinstance(t, S.Tup):
            return tuple(self.fresh(x, "%s.%d" % (name, i), bounded) for i, x in enumerate(t.ts))
        if isinstance(t, S.Obj):
            return self.fresh_obj(t.name, name, bounded)
        if isinstance(t, S.Rec):
            d = {}
            for k, ft in t.fields.items():
                if k in getattr(t, "optional_keys", ()) and self.choose(2) == 1:
                    continue  # this optional key is absent on this path
                d[k] = self.fresh(ft, "%s[%s]" % (name, k), bounded)
            return SDict(d)
        if isinstance(t, S.List):
            n = t.concrete_len
            if n is None and bounded is not None:
                n = bounded.get(name, bounded.get("*"))
            if n is not None:
                lst = SList([self.fresh(t.t, "%s[%d]" % (name, i), bounded) for i in range(n)])
            else:
                lst = self.fresh_symlist(t.t, name)
            return lst
        if isinstance(t, S.ADict):
            n = t.size
            if n is None and bounded is not None:
                n = bounded.get(name, bounded.get("*"))
            if n is None:
                raise Unsupported("ADict %s needs a concrete size" % name)
            ks = [self.fresh(t.k, "%s.key%d" % (name, i), bounded) for i in range(n)]
            for i in range(n):
                for j in range(i):
                    self.assume(z3.Not(self.as_bool_term(self.equal(ks[i], ks[j]))))
            return SADict(ks, [self.fresh(t.v, "%s.val%d" % (name, i), bounded) for i in range(n)])
        if isinstance(t, S.Map):
            return self.fresh_symmap(t, name)
        if isinstance(t, S.SetT):
            has_arr = z3.Array(self.fresh_name(name + ".has"), z3.IntSort(), z3.BoolSort())
            card = z3.Int(self.fresh_name(name + ".card"))
            self.assume(card >= 0)
            # link cardinality and membership as far as first-order facts allow: witnesses for card >= 1, 2, 3
            # and emptiness for card == 0
            w = [z3.Int(self.fresh_name(name + ".member%d" % i)) for i in range(3)]
            self.assume(z3.Implies(card >= 1, z3.Select(has_arr, w[0])))
            self.assume(z3.Implies(card >= 2, z3.And(z3.Select(has_arr, w[1]), w[1] != w[0])))
            self.assume(z3.Implies(card >= 3, z3.And(z3.Select(has_arr, w[2]), w[2] != w[0], w[2] != w[1])))
            kq = z3.Int(self.fresh_name("k"))
            self.assume(z3.Implies(card == 0, z3.ForAll([kq], z3.Not(z3.Select(has_arr, kq)))))
            self.assume(z3.Implies(card == 1, z3.ForAll([kq], z3.Implies(z3.Select(has_arr, kq), kq == w[0]))))
            self.assume(z3.Implies(card == 2, z3.ForAll([kq], z3.Implies(z3.Select(has_arr, kq), z3.Or(kq == w[0], kq == w[1])))))
            return SymSet(t.k, lambda k, a=has_arr: z3.Select(a, k), card)
        if isinstance(t, S.Abstract):
            return AbstractObj(t.name, name)
        if isinstance(t, S._RngT):
            return ExtObj("rng")
        raise Unsupported("fresh value of type %r" % (t,))

    def lit_value(self, v):
        if isinstance(v, float):
            return Fraction(repr(v))
        if isinstance(v, list):
            return SList([self.lit_value(x) for x in v])
        if isinstance(v, tuple):
            return tuple(self.lit_value(x) for x in v)
        if isinstance(v, dict):
            return SDict({k: self.lit_value(x) for k, x in v.items()})
        if isinstance(v, (set, frozenset)):
            return SSet([self.lit_value(x) for x in v])
        return v

    def leaf_getter(self, t, name):
        """-> function(index term) -> value, backed by one z3 array per scalar leaf"""
        if isinstance(t, S._Scalar) or isinstance(t, S.Enum):
            if isinstance(t, S._Scalar) and t.kind == "none":
                return lambda i: None
            kind = t.kind if isinstance(t, S._Scalar) else ("str" if all(isinstance(x, str) for x in t.values) else "int")
            sort = {"int": z3.IntSort(), "real": z3.RealSort(), "bool": z3.BoolSort(), "str": z3.IntSort()}[kind]
            arr = z3.Array(self.fresh_name(name), z3.IntSort(), sort)
            if isinstance(t, S.Enum):
                # closed vocabulary for every element
                j = z3.Int(self.fresh_name("e"))
                self.assume(z3.ForAll([j], z3.Or(*[z3.Select(arr, j) == self.z(x) for x in t.values])))
            return lambda i, arr=arr, kind=kind: self.mk(z3.Select(arr, i), kind)
        if isinstance(t, S._NanRealT):
            nan = z3.Array(self.fresh_name(name + ".isnan"), z3.IntSort(), z3.BoolSort())
            val = z3.Array(self.fresh_name(name), z3.IntSort(), z3.RealSort())
            return lambda i, nan=nan, val=val: NanReal(z3.Select(nan, i), self.mk(z3.Select(val, i), "real"))
        if isinstance(t, S.Opt):
            isn = z3.Array(self.fresh_name(name + ".isnone"), z3.IntSort(), z3.BoolSort())
            inner = self.leaf_getter(t.t, name)
            return lambda i: SOpt(z3.Select(isn, i), inner(i))
        if isinstance(t, S.Tup):
            gs = [self.leaf_getter(x, "%s.%d" % (name, j)) for j, x in enumerate(t.ts)]
            return lambda i: tuple(g(i) for g in gs)
        if isinstance(t, S.Rec):
            gs = {k: self.leaf_getter(ft, "%s[%s]" % (name, k)) for k, ft in t.fields.items()}
            return lambda i: SDict({k: g(i) for k, g in gs.items()})
        if isinstance(t, S.Obj):
            decl = S.CLASSES[t.name]
            ci = self.classinfo_for_decl(decl)
            gs = {f: self.leaf_getter(ft, "%s.%s" % (name, f)) for f, ft in decl.fields.items()}

            def mkobj(i):
                o = SObj(ci, {f: g(i) for f, g in gs.items()}, t.name)
                o.from_decl = True
                return o

            return mkobj
        raise Unsupported("element type %r inside an unbounded container" % (t,))

    def fresh_symlist(self, et, name):
        n = z3.Int(self.fresh_name(name + ".len"))
        self.assume(n >= 0)
        g = self.leaf_getter(et, name + "[]")
        lst = SymList(et, n, g)
        # element invariants are assumed by the caller (class invariants with forall)
        return lst

    def fresh_symmap(self, t, name):
        has_arr = z3.Array(self.fresh_name(name + ".has"), z3.IntSort(), z3.BoolSort())
        card = z3.Int(self.fresh_name(name + ".card"))
        self.assume(card >= 0)
        g = self.leaf_getter(t.v, name + "{}")
        if getattr(t, "total", False):
            return SymMap(t.k, t.v, lambda k: z3.BoolVal(True), g, card)
        m = SymMap(t.k, t.v, lambda k, a=has_arr: z3.Select(a, k), g, card)
        # card == 0 <=> empty
        k = z3.Int(self.fresh_name("k"))
        self.assume(z3.Implies(card == 0, z3.ForAll([k], z3.Not(z3.Select(has_arr, k)))))
        return m

    def classinfo_for_decl(self, decl):
        if decl.target is None:
            return None
        m, classes, node = self.repo.find(decl.target)
        return get_classinfo(self.repo, m, node, decl.target.split(":")[1])

    def fresh_obj(self, declname, name, bounded=None):
        decl = S.CLASSES[declname]
        ci = self.classinfo_for_decl(decl)
        o = SObj(ci, {}, declname)
        o.from_decl = True
        for f, ft in decl.fields.items():
            v = self.fresh(ft, "%s.%s" % (name, f), bounded)
            if isinstance(ft, S.List) and ft.sorted_key is not None:
                keyfn = self.spec_callable(decl, ft.sorted_key, o)
                v = SSorted(v, keyfn)
            o.fields[f] = v
        return o

    def spec_callable(self, decl, fname, owner):
        """python callable evaluating spec function ``fname(owner, x)`` symbolically"""
        fn = self.registry.spec_function(fname)

        def key(x):
            return self.call_function(fn, [owner, x], {}, None)

        return key

    def coerce(self, v, t, node=None):
        """adapt a value to a declared type (empty dict() -> typed map, ...)"""
        if isinstance(t, S.Map):
            if isinstance(v, SDict):
                if v.d:
                    raise Unsupported("non-empty literal dict for a Map-typed field", node)
                zero = z3.IntVal(0)
                m = SymMap(t.k, t.v, lambda k: z3.BoolVal(False), self.leaf_getter(t.v, "empty{}"), zero)
                return m
            return v
        if isinstance(t, S.SetT):
            if isinstance(v, SSet):
                items = list(v.s)
                zs = [self.z(x) for x in items]
                if len(items) > 1:
                    raise Unsupported("literal set with >1 element for a SetT field", node)
                return SymSet(t.k, lambda k, zs=zs: z3.Or(*[k == x for x in zs]) if zs else z3.BoolVal(False), z3.IntVal(len(items)))
            return v
        if isinstance(t, S.Opt):
            if v is None or isinstance(v, SOpt):
                return v
            return self.coerce(v, t.t, node)
        if isinstance(t, S._Scalar) and t.kind == "real":
            if isinstance(v, int) and not isinstance(v, bool):
                return Fraction(v)
            if isinstance(v, Sym) and v.k == "int":
                return self.mk(z3.ToReal(v.t), "real")
        return v

    # -- snapshot (old state) -------------------------------------------------------------

    def snapshot(self, v, memo=None):
        if memo is None:
            memo = {}
        if id(v) in memo:
            return memo[id(v)]
        if isinstance(v, SObj):
            o = SObj(v.cls, {}, v.declname)
            memo[id(v)] = o
            for f, x in v.fields.items():
                o.fields[f] = self.snapshot(x, memo)
            return o
        if isinstance(v, SList):
            o = SList()
            memo[id(v)] = o
            o.items = [self.snapshot(x, memo) for x in v.items]
            return o
        if isinstance(v, SymList):
            o = SymList(v.etype, v.length, v.getter)
            memo[id(v)] = o
            return o
        if isinstance(v, SDict):
            o = SDict()
            memo[id(v)] = o
            o.d = {k: self.snapshot(x, memo) for k, x in v.d.items()}
            if getattr(v, "default_factory", None) is not None:
                o.default_factory = v.default_factory
            return o
        if isinstance(v, SADict):
            o = SADict()
            memo[id(v)] = o
            o.keys = list(v.keys)
            o.vals = [self.snapshot(x, memo) for x in v.vals]
            return o
        if isinstance(v, SymMap):
            o = SymMap(v.ktype, v.vtype, v.has, v.get, v.card)
            o.keyseq = v.keyseq
            memo[id(v)] = o
            return o
        if isinstance(v, SymSet):
            o = SymSet(v.ktype, v.has, v.card)
            memo[id(v)] = o
            return o
        if isinstance(v, SSet):
            o = SSet(v.s)
            memo[id(v)] = o
            return o
        if isinstance(v, SSorted):
            o = SSorted(self.snapshot(v.inner, memo), v.key)
            memo[id(v)] = o
            return o
        if _is_arr(v):
            from . import npmodel

            o = npmodel.SArr(v.shape, v.data, v.dtype)
            o.order_only = v.order_only
            memo[id(v)] = o
            return o
        if isinstance(v, tuple):
            return tuple(self.snapshot(x, memo) for x in v)
        if isinstance(v, SOpt):
            return SOpt(v.isnone, self.snapshot(v.val, memo))
        if isinstance(v, Namespace):
            o = Namespace({k: self.snapshot(x, memo) for k, x in v.d.items()})
            memo[id(v)] = o
            return o
        if isinstance(v, AbstractObj):
            o = AbstractObj(v.iface, v.name)
            memo[id(v)] = o
            o.fields = {k: self.snapshot(x, memo) for k, x in v.fields.items()}
            return o
        return v
