"""EXTRA_CHECKS helper: run a native monitor of a contract module under /venv/bin/python against the tree
under verification and convert its findings into check results."""
import json
import os
import subprocess

from .driver import VERIF, REPO_ROOT, NATIVE_PY


def native_monitor(prop, modname, fname, label, bound_text):
    def run(tier, seed, repo):
        env = dict(os.environ, PYTHONPATH=repo + os.pathsep + VERIF, PYTHONHASHSEED="0", OMP_NUM_THREADS="1")
        res = {"name": label, "kind": "native-monitor", "counts_as": "bounded", "bound": bound_text, "obligations": {}, "violations": [], "faults": [], "samples": [], "evaluations": 0, "distinct_nontrivial": 0, "assumptions": ["native monitor %s: %s" % (label, bound_text)]}
        try:
            p = subprocess.run([NATIVE_PY, os.path.join(VERIF, "replay", "monitor.py"), modname, fname, tier, str(seed)], stdout=subprocess.PIPE, stderr=subprocess.PIPE, text=True, env=env, timeout=1500)
        except subprocess.TimeoutExpired:
            res["faults"].append("native monitor %s timed out" % label)
            return res
        line = None
        for l in p.stdout.splitlines():
            if l.startswith("MONITOR-RESULT "):
                line = l[len("MONITOR-RESULT "):]
        if line is None:
            res["faults"].append("native monitor %s produced no result: %s" % (label, p.stderr[-800:]))
            return res
        out = json.loads(line)
        if out.get("error"):
            res["faults"].append("native monitor %s crashed: %s" % (label, out["error"][:1500]))
            return res
        res["evaluations"] = out.get("evaluations", 0)
        res["distinct_nontrivial"] = out.get("distinct", 0)
        res["samples"] = out.get("samples", [])[:4]
        res["summary"] = out.get("summary", "")
        clauses = out.get("clauses", [])
        bad = {}
        for v in out.get("violations", []):
            bad.setdefault(v["clause"], v)
        out_dir = os.path.join(os.environ.get("PYVC_OUT_DIR", VERIF), "replays", prop)
        for cl in clauses:
            name = "%s/%s/native[%s]" % (prop, label, cl)
            if cl in bad:
                res["obligations"][name] = "refuted"
                os.makedirs(out_dir, exist_ok=True)
                path = os.path.join(out_dir, name.replace("/", "_").replace("[", "(").replace("]", ")") + ".json")
                json.dump({"property": prop, "obligation": name, "native_monitor": [modname, fname], "failing_input": bad[cl], "replay_cmd": "PYTHONPATH=%s:%s %s %s %s %s %s %s" % (repo, VERIF, NATIVE_PY, os.path.join(VERIF, "replay", "monitor.py"), modname, fname, tier, seed)}, open(path, "w"), indent=1, default=str)
                res["violations"].append({"obligation": name, "replay": path, "reproduced": True, "native": bad[cl]})
            else:
                res["obligations"][name] = "proved"  # here: held on every enumerated case (bounded)
        return res

    run.__name__ = fname
    return run
