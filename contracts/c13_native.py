"""C13 (native monitor) -- trial failures are contained.

``monitor_failures(tier, seed)`` drives the REAL classes of the library (``Tuner`` on an in-memory ``TrialBackend``,
``FIFOScheduler`` with random / grid / GP searchers, ``HyperbandScheduler`` stopping / promotion with random and GP
multi-fidelity searcher, ``SynchronousHyperbandScheduler`` / geometric / DEHB, ``PopulationBasedTraining``, ``MOASHA``,
``MedianStoppingRule``) through a bounded catalogue of failure scenarios (enumerated small cases + seed dependent
random ones) and checks after every step the clauses of the PROPERTY STATEMENT against a reference written here:

  * the scheduler is told about every failure (and every stop from outside) exactly once, by ``on_trial_error``, and
    hears nothing else about that trial afterwards;
  * nothing raises: neither the notification nor any later suggestion / decision;
  * a failed trial is never resumed, a failed configuration is never suggested again by a searcher that promises it
    (RandomSearcher / GP searchers: always; GridSearcher: only with ``allow_duplicates=False``, its documented
    promise), and when only failed (or used) configurations remain the answer is ``None``;
  * the book-keeping of all OTHER trials is the same before and after the notification (pending evaluations and
    observed data of the GP searcher state, rung entries, running records, bracket slots, population records), the
    failed trial itself has no pending evaluation / pending slot left and is listed as failed;
  * a synchronous bracket treats the failed job as a (worst) result: the rung completes, the best survivors are
    promoted (a bracket-by-bracket reference model of "jobs go to the first open bracket with a free slot, a rung of
    size k is filled with a top-k set of the rung below" predicts every job);
  * ``Tuner(max_failures=k)``: up to k failed trials the run goes on until its stop criterion (or until the
    configuration space is used up), without an error; with more than k it ends with an error naming a failed trial.

What the statement leaves open is left open here: ties at a promotion / stopping threshold (metric equal to the
quantile up to round-off) may go either way; whether the failed trial's OWN earlier rung entries stay in the rung is
free (decisions are accepted if they are right with or without them); if a rung has fewer survivors than the next rung
has slots, the remaining slots may go to any failed trial of that rung (documented in ``get_top_list``); the order in
which promoted trials are resumed is free; trials stopped from outside are notified like failures, whether they count
against ``max_failures`` is not checked (scenarios are chosen so that the verdict does not depend on it); rejection
sampling may give up after its documented number of retries, so "still suggests" is only demanded where the chance of
100 (50) rejected draws in a row is below 1e-9.

Clauses with scenarios of their own (``KNOWN_OPEN``) are families in which the unchanged tree does not follow the
statement; they are kept apart so that every other clause stays meaningful:
  * dehb/...fewer-survivors...: DEHB answers None (ends the experiment) or raises KeyError(None) when a rung has fewer
    survivors than the next rung has slots (same root as the C05/C06 findings on DEHB);
  * tuner/...synchronous-rung-has-fewer-survivors...: synchronous Hyperband then promotes a failed trial (documented in
    ``get_top_list``), but ``TrialBackend.resume_trial`` only resumes paused trials: ``Tuner.run`` aborts with
    "AssertionError: Cannot resume trial_id .. from status 'Failed'";
  * pbt/...checkpoint-of-a-failed-trial: PBT has no ``on_trial_error``; a failed trial stays in the population and
    is picked as the trial to clone from;
  * median-rule/...: ``MedianStoppingRule`` does not pass ``on_trial_error`` (nor add / complete / remove) on to the
    scheduler it wraps, so the wrapped searcher never learns about the failure and suggests the configuration again.

Bounded stand-in, never counted as proved.
"""
import sys

sys.modules.setdefault("yahpo_gym", None)

import contextlib
import io
import logging
import os
import re
import shutil
import tempfile
import traceback
from datetime import datetime

import numpy as np

METRIC = "obj"
METRIC2 = "obj2"
RESOURCE = "epoch"
MRA = "epochs"
MAX_VIOL = 5

# ---------------------------------------------------------------------------------------------------------------
# clause names
# ---------------------------------------------------------------------------------------------------------------
T_ONCE = "tuner/scheduler-told-exactly-once-by-on_trial_error-per-failed-or-externally-stopped-trial"
T_QUIET = "tuner/scheduler-hears-nothing-more-about-a-trial-after-its-failure-and-no-error-for-healthy-trials"
T_GOES_ON = "tuner/run-goes-on-to-its-stop-criterion-without-error-while-failures-do-not-exceed-max_failures"
T_LIMIT = "tuner/run-ends-with-an-error-once-failures-exceed-max_failures"
T_NAMES = "tuner/error-for-exceeded-limit-names-a-trial-that-failed"
T_NORESUME = "tuner/failed-or-externally-stopped-trial-is-never-resumed"
T_NOREP = "tuner/configuration-of-a-failed-trial-is-not-started-again-when-searcher-promises-no-repeats"
T_OTHERS = "tuner/every-other-trial-is-served-to-its-scripted-end-or-the-scheduler-s-decision"
T_SYNC_FEW = "tuner/run-goes-on-when-a-synchronous-rung-has-fewer-survivors-than-the-next-rung-has-slots"
S_NOEXC = "searcher/notification-and-later-suggestions-raise-no-exception"
S_NOREP = "searcher/failed-configuration-is-never-suggested-again-when-no-repeats-are-promised"
S_NONE = "searcher/answer-is-none-when-only-failed-or-used-configurations-remain"
S_SOME = "searcher/still-suggests-while-an-allowed-configuration-that-did-not-fail-remains"
G_GONE = "gp-state/failed-trial-has-no-pending-evaluation-left"
G_KEEP = "gp-state/pending-evaluations-of-all-other-trials-are-untouched-by-the-failure"
G_LISTED = "gp-state/failed-trial-is-listed-as-failed-and-no-other-trial-is"
G_DATA = "gp-state/observed-data-of-all-trials-is-untouched-by-the-failure"
H_NOEXC = "hyperband/notification-and-later-decisions-raise-no-exception"
H_RUNGS = "hyperband/rung-entries-of-all-other-trials-are-untouched-by-the-failure"
H_RUNNING = "hyperband/running-records-of-all-other-trials-are-untouched-by-the-failure"
H_CLEAN = "hyperband/failed-trial-is-no-longer-recorded-as-running"
H_NORESUME = "hyperband/failed-trial-is-never-resumed-and-only-paused-trials-are"
H_DECIDE = "hyperband/stop-continue-pause-decisions-for-other-trials-follow-the-rung-rule-after-failures"
H_PROMO = "hyperband/resumed-trial-meets-the-promotion-quantile-of-its-rung-after-failures"
Y_NOEXC = "sync/notification-and-later-decisions-raise-no-exception"
Y_SLOT = "sync/failed-job-leaves-no-pending-slot-and-its-rung-slot-counts-as-reported"
Y_OTHERS = "sync/pending-slots-and-rung-entries-of-all-other-trials-are-untouched-by-the-failure"
Y_NOWAIT = "sync/rung-with-a-failed-job-completes-and-the-next-job-is-the-promotion-the-rule-prescribes"
Y_NOFAILED = "sync/failed-trial-is-not-promoted-while-enough-survivors-exist"
Y_JOBS = "sync/every-job-goes-to-the-first-open-bracket-with-a-free-slot-at-that-rung-s-level"
Y_DECIDE = "sync/trial-continues-below-and-pauses-or-stops-exactly-at-its-rung-level-after-failures"
D_FEW = "dehb/keeps-serving-jobs-without-raising-when-a-rung-has-fewer-survivors-than-the-next-rung-has-slots"
P_NOEXC = "pbt/notification-and-later-decisions-raise-no-exception"
P_OTHERS = "pbt/population-records-of-all-other-trials-are-untouched-by-the-failure"
P_DECIDE = "pbt/decisions-for-other-trials-stay-continue-or-stop-and-stop-at-max-resource"
P_SOURCE = "pbt/no-trial-is-told-to-start-from-the-checkpoint-of-a-failed-trial"
M_NOEXC = "moasha-median/notification-and-later-decisions-raise-no-exception"
M_OTHERS = "moasha-median/recorded-results-of-all-other-trials-are-untouched-by-the-failure"
M_DECIDE = "moasha-median/decisions-for-other-trials-stay-within-the-rule-after-failures"
M_MEDIAN_NOREP = "median-rule/failed-configuration-is-never-suggested-again-when-the-wrapped-searcher-promises-it"

CLAUSES = [
    T_ONCE, T_QUIET, T_GOES_ON, T_LIMIT, T_NAMES, T_NORESUME, T_NOREP, T_OTHERS, T_SYNC_FEW,
    S_NOEXC, S_NOREP, S_NONE, S_SOME, G_GONE, G_KEEP, G_LISTED, G_DATA,
    H_NOEXC, H_RUNGS, H_RUNNING, H_CLEAN, H_NORESUME, H_DECIDE, H_PROMO,
    Y_NOEXC, Y_SLOT, Y_OTHERS, Y_NOWAIT, Y_NOFAILED, Y_JOBS, Y_DECIDE, D_FEW,
    P_NOEXC, P_OTHERS, P_DECIDE, P_SOURCE, M_NOEXC, M_OTHERS, M_DECIDE, M_MEDIAN_NOREP,
]
# families of their own: the unchanged tree is known (or suspected) not to follow the statement there
KNOWN_OPEN = {D_FEW, P_SOURCE, M_MEDIAN_NOREP, T_SYNC_FEW}


class _Abort(Exception):
    """ends a scenario after a fatal discrepancy (the reference is no longer in step with the library)"""


class Recorder:
    def __init__(self):
        self.counts = {c: 0 for c in CLAUSES}
        self.viol = []
        self.nviol = {c: 0 for c in CLAUSES}
        self.samples = []
        self.distinct = 0
        self.stats = {}

    def scenario(self, ctx):
        self.distinct += 1
        fam = ctx.get("family", "?")
        self.stats[fam] = self.stats.get(fam, 0) + 1

    def tally(self, what):
        self.stats[what] = self.stats.get(what, 0) + 1

    def sample(self, ctx):
        if ctx.get("family") in ("searcher-enumerated", "hyperband-enumerated", "sync-enumerated", "tuner-hyperband-promotion") and all(s.get("family") != ctx.get("family") for s in self.samples):
            self.samples.append(_js(ctx))

    def check(self, clause, ok, ctx, **details):
        self.counts[clause] += 1
        if ok:
            return True
        self.nviol[clause] += 1
        if self.nviol[clause] <= MAX_VIOL:
            v = {"clause": clause}
            v.update(_js(ctx))
            v.update(_js(details))
            self.viol.append(v)
        return False


def _js(x):
    """json-serialisable copy"""
    if isinstance(x, dict):
        return {str(k): _js(v) for k, v in x.items()}
    if isinstance(x, (list, tuple, set, frozenset)):
        xs = list(x)
        if isinstance(x, (set, frozenset)):
            xs = sorted(xs, key=str)
        return [_js(v) for v in xs]
    if isinstance(x, (np.integer,)):
        return int(x)
    if isinstance(x, (np.floating,)):
        return float(x)
    if isinstance(x, (np.bool_,)):
        return bool(x)
    if x is None or isinstance(x, (int, float, str, bool)):
        return x
    return str(x)


_LIB = None


def _lib():
    global _LIB
    if _LIB is None:
        with contextlib.redirect_stdout(io.StringIO()), contextlib.redirect_stderr(io.StringIO()):
            from syne_tune import Tuner
            from syne_tune.backend.trial_backend import TrialBackend
            from syne_tune.backend.trial_status import Status, Trial, TrialResult
            from syne_tune.config_space import choice, randint, uniform
            from syne_tune.constants import ST_WORKER_TIMESTAMP
            from syne_tune.optimizer.scheduler import SchedulerDecision
            from syne_tune.optimizer.schedulers import (
                FIFOScheduler,
                HyperbandScheduler,
                MedianStoppingRule,
                PopulationBasedTraining,
            )
            from syne_tune.optimizer.schedulers.multiobjective.moasha import MOASHA
            from syne_tune.optimizer.schedulers.synchronous import (
                DifferentialEvolutionHyperbandScheduler,
                SynchronousGeometricHyperbandScheduler,
                SynchronousHyperbandScheduler,
            )
            from syne_tune.optimizer.schedulers.synchronous.hyperband_rung_system import (
                SynchronousHyperbandRungSystem,
            )
        _LIB = dict(locals())
    return _LIB


def _trial(trial_id, config):
    return _lib()["Trial"](trial_id=trial_id, config=dict(config), creation_time=datetime(2024, 1, 1))


def _hp(config, keys=("a", "b", "x", "y")):
    """the hyper-parameter part of a configuration (schedulers append epochs / trial_id / elapsed_time)"""
    return tuple((k, config[k]) for k in keys if k in config)


def _tb():
    return traceback.format_exc()[-900:]


def _close(a, b):
    return abs(a - b) <= 1e-12 * max(1.0, abs(a), abs(b))


# ---------------------------------------------------------------------------------------------------------------
# searcher state of the GP searchers (single- and multi-fidelity): pending evaluations, failed list, observed data
# ---------------------------------------------------------------------------------------------------------------
def _gp_state(scheduler):
    searcher = getattr(scheduler, "searcher", None)
    st = getattr(searcher, "state_transformer", None)
    if st is None:
        return None
    state = st.state
    pending = sorted((str(e.trial_id), None if e.resource is None else int(e.resource)) for e in state.pending_evaluations)
    data = {}
    for ev in state.trials_evaluations:
        data[str(ev.trial_id)] = {
            str(name): ({str(k): float(v) for k, v in val.items()} if isinstance(val, dict) else float(val))
            for name, val in ev.metrics.items()
        }
    return {"pending": pending, "failed": [str(t) for t in state.failed_trials], "data": data}


def _check_gp_failure(M, ctx, before, after, tid, failed_before, step):
    """clauses on the GP searcher state around ONE ``on_trial_error(tid)``"""
    if before is None or after is None:
        return
    tid = str(tid)
    det = {"step": step, "failed_trial": tid}
    M.check(G_GONE, all(t != tid for t, _ in after["pending"]), ctx, reason="failed trial still has pending evaluations", pending_after=after["pending"], **det)
    ob = [p for p in before["pending"] if p[0] != tid]
    oa = [p for p in after["pending"] if p[0] != tid]
    M.check(G_KEEP, ob == oa, ctx, reason="pending evaluations of other trials changed", others_before=ob, others_after=oa, **det)
    M.check(G_LISTED, tid in after["failed"] and set(after["failed"]) == set(failed_before) | {tid}, ctx, reason="failed list is not (previous failures + this trial)", failed_after=after["failed"], failed_expected=sorted(set(failed_before) | {tid}), **det)
    M.check(G_DATA, before["data"] == after["data"], ctx, reason="observed data changed", data_before=before["data"], data_after=after["data"], **det)


# ---------------------------------------------------------------------------------------------------------------
# part A: FIFOScheduler with random / grid / GP searcher over a finite space: failed configurations
# ---------------------------------------------------------------------------------------------------------------
def _all6():
    return [{"a": a, "b": b} for a in ("x", "y", "z") for b in (0, 1)]


def _fin_space():
    L = _lib()
    return {"a": L["choice"](["x", "y", "z"]), "b": L["randint"](0, 1)}


def _searcher_scenario(M, ctx, spec):
    """spec: searcher, allow_dup, restrict (list or None), p2e, fail (set of trial ordinals, or 'all'), point
    ('before' | 'between'), workers, n_ask, seed"""
    L = _lib()
    M.scenario(ctx)
    M.sample(ctx)
    name = spec["searcher"]
    allow_dup = spec["allow_dup"]
    restrict = spec["restrict"]
    options = {"debug_log": False, "allow_duplicates": allow_dup}
    if restrict is not None:
        options["restrict_configurations"] = [dict(c) for c in restrict]
    if name == "bayesopt":
        options["num_init_random"] = spec.get("num_init_random", 1000)
    kwargs = dict(searcher=name, metric=METRIC, mode="min", random_seed=spec["seed"], search_options=options)
    if spec["p2e"] is not None:
        kwargs["points_to_evaluate"] = [dict(c) for c in spec["p2e"]]
    try:
        sched = L["FIFOScheduler"](_fin_space(), **kwargs)
    except Exception:
        M.check(S_NOEXC, False, ctx, reason="constructor raised", traceback=_tb())
        return
    allowed = [_hp(c) for c in (restrict if restrict is not None else _all6())]
    promise = name in ("random", "bayesopt") or not allow_dup
    retries = 50 if name == "bayesopt" else 100
    used, failed_cfg, failed_ids = [], [], []
    trials, next_id, step = {}, 0, 0
    rs = np.random.RandomState(spec["seed"] + 17)

    def ask():
        nonlocal next_id, step
        step += 1
        det = {"step": step, "asking_for_trial": next_id, "failed_configurations": failed_cfg, "suggested_so_far": used}
        try:
            sugg = sched.suggest(next_id)
        except Exception:
            M.check(S_NOEXC, False, ctx, reason="suggest raised", traceback=_tb(), **det)
            raise _Abort()
        M.check(S_NOEXC, True, ctx)
        # what the statement demands of this answer
        if allow_dup and name == "random":
            excluded = [c for c in allowed if c in failed_cfg]
        else:
            excluded = [c for c in allowed if c in used or c in failed_cfg]
        all_failed = all(c in failed_cfg for c in allowed)
        all_used = all(c in used or c in failed_cfg for c in allowed)
        if promise and (all_failed or (not allow_dup and all_used)):
            M.check(S_NONE, sugg is None, ctx, reason="only failed (or used) configurations remain, but a configuration was suggested", got=None if sugg is None else sugg.config, **det)
        elif name == "grid" and allow_dup:
            M.check(S_SOME, sugg is not None, ctx, reason="grid with duplicates never runs out", **det)
        elif len(excluded) < len(allowed) and (name == "grid" or (len(excluded) / len(allowed)) ** retries < 1e-9):
            M.check(S_SOME, sugg is not None, ctx, reason="an allowed configuration that neither failed nor was used remains, but the answer is None", excluded=excluded, allowed=allowed, **det)
        if sugg is None:
            return None
        cfg = _hp(sugg.config)
        if promise:
            M.check(S_NOREP, cfg not in failed_cfg, ctx, reason="configuration of a failed trial suggested again", got=cfg, **det)
        used.append(cfg)
        tr = _trial(next_id, sugg.config)
        trials[next_id] = tr
        next_id += 1
        try:
            sched.on_trial_add(tr)
        except Exception:
            M.check(S_NOEXC, False, ctx, reason="on_trial_add raised", traceback=_tb(), **det)
            raise _Abort()
        return tr

    def finish(tr):
        nonlocal step
        step += 1
        tid = tr.trial_id
        fails = spec["fail"] == "all" or tid in spec["fail"]
        point = spec["point"] if spec["point"] != "mixed" else ("before", "between")[tid % 2]
        det = {"step": step, "trial": tid}
        try:
            nrep = 0 if (fails and point == "before") else (1 if fails else 2)
            res = None
            for k in range(nrep):
                res = {METRIC: float(rs.rand()), RESOURCE: k + 1}
                sched.on_trial_result(tr, dict(res))
            if fails:
                before = _gp_state(sched)
                sched.on_trial_error(tr)
                after = _gp_state(sched)
                _check_gp_failure(M, ctx, before, after, tid, [str(t) for t in failed_ids], step)
                failed_ids.append(tid)
                if _hp(tr.config) not in failed_cfg:
                    failed_cfg.append(_hp(tr.config))
            else:
                sched.on_trial_complete(tr, dict(res))
        except _Abort:
            raise
        except Exception:
            M.check(S_NOEXC, False, ctx, reason="report / completion / failure notification raised", traceback=_tb(), fails=fails, **det)
            raise _Abort()
        M.check(S_NOEXC, True, ctx)

    try:
        asked, done = 0, False
        while asked < spec["n_ask"] and not done:
            wave = []
            for _ in range(spec["workers"]):
                if asked >= spec["n_ask"]:
                    break
                asked += 1
                tr = ask()
                if tr is None:
                    # the answer None must be stable: ask once more, then stop
                    if asked < spec["n_ask"]:
                        asked += 1
                        ask()
                    done = True
                    break
                wave.append(tr)
            order = list(range(len(wave)))
            rs.shuffle(order)
            for i in order:
                finish(wave[i])
    except _Abort:
        pass


def _part_searchers(M, tier, rs):
    quick = tier == "quick"
    six = _all6()
    n = 0
    # enumerated: searcher x allow_duplicates x restrict_configurations x failure pattern x workers
    masks = [set(m for m in range(3) if (bits >> m) & 1) for bits in range(8)] + ["all"]
    for name in ("random", "bayesopt", "grid"):
        for allow_dup in (False, True):
            sizes = (None,) if name == "grid" else (None, 1, 2, 3)
            for size in sizes:
                for mi, mask in enumerate(masks):
                    for W in (1, 2) if quick else (1, 2, 3):
                        n += 1
                        if name == "bayesopt" and quick and (n % 2 == 0) and mask != "all":
                            continue
                        restrict = None
                        if size is not None:
                            idx = sorted(int(i) for i in np.random.RandomState(1000 + n).choice(6, size=size, replace=False))
                            restrict = [six[i] for i in idx]
                        nallowed = 6 if restrict is None else size
                        spec = dict(searcher=name, allow_dup=allow_dup, restrict=restrict, p2e=[] if (n % 3 or restrict is not None) else None, fail=mask, point=("before", "between", "mixed")[n % 3], workers=W, n_ask=nallowed * (2 if allow_dup else 1) + 4, seed=n % 7)
                        ctx = dict(family="searcher-enumerated", **{k: (sorted(v) if isinstance(v, set) else v) for k, v in spec.items()})
                        _searcher_scenario(M, ctx, spec)
    # random: random failure sets over longer runs
    for k in range(120 if quick else 1000):
        name = ("random", "bayesopt", "grid")[k % 3]
        allow_dup = bool(rs.randint(2))
        size = None if name == "grid" or rs.rand() < 0.3 else int(rs.randint(1, 6))
        restrict = None if size is None else [six[int(i)] for i in sorted(rs.choice(6, size=size, replace=False))]
        pfail = float(rs.choice([0.2, 0.5, 0.8, 1.0]))
        n_ask = int(rs.randint(6, 20))
        fail = {int(i) for i in np.nonzero(rs.rand(n_ask) < pfail)[0]}
        spec = dict(searcher=name, allow_dup=allow_dup, restrict=restrict, p2e=[] if (rs.rand() < 0.5 or restrict is not None) else None, fail=fail, point="mixed", workers=int(rs.randint(1, 4)), n_ask=n_ask, seed=int(rs.randint(0, 10 ** 4)))
        ctx = dict(family="searcher-random", **{k: (sorted(v) if isinstance(v, set) else v) for k, v in spec.items()})
        _searcher_scenario(M, ctx, spec)
    # model-based suggestions (GP is fitted): failed configurations are excluded there too
    for k in range(1 if quick else 4):
        spec = dict(searcher="bayesopt", allow_dup=bool(k % 2), restrict=None, p2e=[], fail={1, 2} if k < 2 else {0, 3}, point="mixed", workers=1, n_ask=6, seed=k, num_init_random=2)
        ctx = dict(family="searcher-model-based", **{k2: (sorted(v) if isinstance(v, set) else v) for k2, v in spec.items()})
        _searcher_scenario(M, ctx, spec)


# ---------------------------------------------------------------------------------------------------------------
# part B: asynchronous HyperbandScheduler (stopping / promotion), random and GP multi-fidelity searcher
# ---------------------------------------------------------------------------------------------------------------
def _hb_snapshot(sched):
    term = sched.terminator
    rungs = []
    for si, rsys in enumerate(term._rung_systems):
        for rung in rsys._rungs:
            for e in rung.data:
                rungs.append((si, int(rung.level), str(e.trial_id), float(e.metric_val), bool(getattr(e, "was_promoted", False))))
    running = [("bracket-of", str(t), int(b)) for t, b in term._task_info.items()]
    for si, rsys in enumerate(term._rung_systems):
        for t, rec in getattr(rsys, "_running", {}).items():
            running.append(("job", si, str(t), rec.get("milestone"), rec.get("resume_from")))
    for t, rec in sched._active_trials.items():
        running.append(("decision", str(t), str(rec.trial_decision), int(rec.bracket)))
    return {"rungs": sorted(rungs), "running": sorted(running, key=str)}


def _quantile_verdict(values, own, q, mode):
    """'yes' | 'no' | 'tie' | 'few': is ``own`` no worse than the promotion quantile of ``values`` (numpy linear)"""
    if len(values) < 2:
        return "few"
    cutoff = float(np.quantile(np.asarray(values, dtype=float), q if mode == "min" else 1.0 - q))
    if _close(own, cutoff):
        return "tie"
    return "yes" if (own < cutoff if mode == "min" else own > cutoff) else "no"


def _hb_scenario(M, ctx, spec):
    L = _lib()
    D = L["SchedulerDecision"]
    M.scenario(ctx)
    M.sample(ctx)
    typ, mode, max_t, grace, rf = spec["type"], spec["mode"], spec["max_t"], spec["grace"], spec["rf"]
    finite = spec.get("finite", False)
    cs = dict(_fin_space()) if finite else {"x": L["uniform"](0.0, 1.0), "y": L["uniform"](0.0, 1.0)}
    cs[MRA] = max_t
    options = {"debug_log": False}
    if spec["searcher"] == "bayesopt":
        options["num_init_random"] = 1000
    try:
        sched = L["HyperbandScheduler"](
            cs, searcher=spec["searcher"], type=typ, metric=METRIC, mode=mode, resource_attr=RESOURCE, max_resource_attr=MRA,
            grace_period=grace, reduction_factor=rf, brackets=spec["brackets"], searcher_data=spec["searcher_data"],
            register_pending_myopic=spec.get("myopic", False), random_seed=spec["seed"], search_options=options, points_to_evaluate=[],
        )
    except Exception:
        M.check(H_NOEXC, False, ctx, reason="constructor raised", traceback=_tb())
        return
    levels, r = [], grace
    while r < max_t:
        levels.append(r)
        r *= rf
    if not M.check(H_DECIDE, list(sched.rung_levels) == levels, ctx, reason="rung levels are not grace_period * reduction_factor^k below max_t", got=list(sched.rung_levels), expected=levels):
        return
    quant = {lv: lv / (levels[i + 1] if i + 1 < len(levels) else max_t) for i, lv in enumerate(levels)}
    rs = np.random.RandomState(spec["seed"] * 7919 + 13)
    W = spec["workers"]
    T = {}  # trial_id -> record
    ref = {lv: {} for lv in levels}  # level -> {trial_id: metric} of every report at that rung level
    promoted = {lv: set() for lv in levels}
    failed, failed_cfg, used_cfg = [], [], []
    next_id, step, exhausted = 0, 0, False
    forced = dict(spec.get("forced", {}))  # ordinal -> point
    nfail_checks = 0

    def milestones(rec):
        return levels[rec["bracket"]:]

    def verdict(level, tid, m):
        """verdicts with and without the earlier entries of failed trials (both readings are legal)"""
        everyone = [v for t, v in ref[level].items()]
        healthy = [v for t, v in ref[level].items() if t not in failed or t == tid]
        return {_quantile_verdict(everyone, m, quant[level], mode), _quantile_verdict(healthy, m, quant[level], mode)}

    def lib_call(what, fn, **det):
        try:
            out = fn()
        except Exception:
            M.check(H_NOEXC, False, ctx, reason=what + " raised", traceback=_tb(), **dict(dict(step=step, failed_so_far=list(failed)), **det))
            raise _Abort()
        M.check(H_NOEXC, True, ctx)
        return out

    def do_suggest():
        nonlocal next_id, exhausted
        sugg = lib_call("suggest", lambda: sched.suggest(next_id), asking_for_trial=next_id)
        if sugg is None:
            exhausted = True
            if finite:
                allowed = [_hp(c) for c in _all6()]
                M.check(S_NONE, all(c in used_cfg for c in allowed), ctx, reason="None although unused configurations remain", step=step, used=used_cfg)
            return
        if sugg.spawn_new_trial_id:
            cfg = dict(sugg.config)
            if finite:
                M.check(S_NOREP, _hp(cfg) not in failed_cfg, ctx, reason="configuration of a failed trial suggested again", step=step, got=_hp(cfg), failed_configurations=failed_cfg)
                used_cfg.append(_hp(cfg))
            tr = _trial(next_id, cfg)
            lib_call("on_trial_add", lambda: sched.on_trial_add(tr), trial=next_id)
            bracket = int(sched._active_trials[str(next_id)].bracket)
            T[next_id] = {"trial": tr, "status": "running", "epoch": 0, "bracket": bracket, "run_to": int(cfg[MRA]), "resumes": 0, "level": {}, "paused_at": None}
            next_id += 1
            return
        tid = int(sugg.checkpoint_trial_id)
        rec = T.get(tid)
        ok = rec is not None and tid not in failed and rec["status"] == "paused"
        if not M.check(H_NORESUME, ok, ctx, reason="resumed trial is failed / not paused / unknown", step=step, resumed=tid, status=None if rec is None else rec["status"], failed_so_far=list(failed)):
            raise _Abort()
        lv = rec["paused_at"]
        vs = verdict(lv, tid, rec["level"][lv])
        ok = lv in ref and tid not in promoted[lv] and bool(vs & {"yes", "tie"})
        if not M.check(H_PROMO, ok, ctx, reason="resumed trial is worse than the promotion quantile of its rung (with and without the entries of failed trials), or was promoted from it before", step=step, resumed=tid, level=lv, metric=rec["level"][lv], rung=ref[lv], failed_so_far=list(failed), quantile=quant[lv]):
            raise _Abort()
        promoted[lv].add(tid)
        cfg = dict(rec["trial"].config) if sugg.config is None else dict(sugg.config)
        rec["trial"] = _trial(tid, cfg)
        rec.update(status="running", run_to=int(cfg[MRA]), resumes=rec["resumes"] + 1)

    def do_report(tid):
        rec = T[tid]
        e = rec["epoch"] + 1
        m = float(rs.rand()) if not spec.get("monotone") else float((tid * 0.137 + e * 0.011) % 1.0)
        rec["epoch"] = e
        res = {METRIC: m, RESOURCE: e}
        dec = lib_call("on_trial_result", lambda: sched.on_trial_result(rec["trial"], dict(res)), trial=tid, result=res)
        ms = milestones(rec)
        expected = {D.CONTINUE}
        if typ == "stopping":
            if e >= max_t:
                expected = {D.STOP}
            elif e in ms:
                ref[e][tid] = m
                rec["level"][e] = m
                vs = verdict(e, tid, m)
                expected = set()
                if vs & {"yes", "tie", "few"}:
                    expected.add(D.CONTINUE)
                if vs & {"no", "tie"}:
                    expected.add(D.STOP)
        else:
            if e >= rec["run_to"]:
                expected = {D.STOP} if e >= max_t else {D.PAUSE}
                if e in ref:
                    ref[e][tid] = m
                    rec["level"][e] = m
        if not M.check(H_DECIDE, dec in expected, ctx, reason="decision differs from the rung rule", step=step, trial=tid, result=res, got=dec, expected=sorted(expected), rung=ref.get(e), failed_so_far=list(failed)):
            raise _Abort()
        if dec in (D.STOP, D.PAUSE):
            lib_call("on_trial_remove", lambda: sched.on_trial_remove(rec["trial"]), trial=tid)
            rec["status"] = "paused" if dec == D.PAUSE else "stopped"
            rec["paused_at"] = e if dec == D.PAUSE else None

    def do_fail(tid, why):
        nonlocal nfail_checks
        rec = T[tid]
        before, gb = _hb_snapshot(sched), _gp_state(sched)
        lib_call("on_trial_error", lambda: sched.on_trial_error(rec["trial"]), trial=tid, point=why)
        after, ga = _hb_snapshot(sched), _gp_state(sched)
        s = str(tid)
        det = {"step": step, "failed_trial": tid, "point": why, "failed_before": list(failed)}
        ob = [x for x in before["rungs"] if x[2] != s]
        oa = [x for x in after["rungs"] if x[2] != s]
        M.check(H_RUNGS, ob == oa, ctx, reason="rung entries of other trials changed", others_before=ob, others_after=oa, **det)
        want = sorted((0, lv, str(t), v) for lv in levels for t, v in ref[lv].items() if t != tid and t not in failed)
        got = sorted(x[:4] for x in oa if int(x[2]) not in failed)
        M.check(H_RUNGS, want == got, ctx, reason="rung entries of the healthy trials are not the values they reported at rung levels", expected=want, got=got, **det)
        ob = [x for x in before["running"] if s not in x[1:3]]
        oa = [x for x in after["running"] if s not in x[1:3]]
        M.check(H_RUNNING, ob == oa, ctx, reason="running records of other trials changed", others_before=ob, others_after=oa, **det)
        mine = [x for x in after["running"] if s in x[1:3]]
        still = [x for x in mine if x[0] in ("bracket-of", "job") or (x[0] == "decision" and x[2] == L["SchedulerDecision"].CONTINUE)]
        M.check(H_CLEAN, not still, ctx, reason="failed trial is still recorded as a running job", records=still, **det)
        _check_gp_failure(M, ctx, gb, ga, tid, [str(t) for t in failed], step)
        nfail_checks += 1
        M.tally("hyperband failure " + why)
        failed.append(tid)
        if finite and _hp(rec["trial"].config) not in failed_cfg:
            failed_cfg.append(_hp(rec["trial"].config))
        rec["status"] = "failed"

    def point_holds(rec, point):
        if point == "before":
            return rec["resumes"] == 0 and rec["epoch"] == 0
        if point == "between":
            return rec["resumes"] == 0 and rec["epoch"] >= 1
        if point == "resumed-before":
            return rec["resumes"] >= 1 and rec["epoch"] == rec["paused_at"]
        if point == "resumed-between":
            return rec["resumes"] >= 1 and rec["epoch"] > rec["paused_at"]
        return False

    try:
        for step in range(1, spec["steps"] + 1):
            running = [t for t, rec in T.items() if rec["status"] == "running"]
            # forced failures first (enumerated placements)
            hit = [(t, forced[t]) for t in running if t in forced and point_holds(T[t], forced[t])]
            if hit:
                t, point = hit[0]
                del forced[t]
                do_fail(t, point)
                continue
            if len(running) < W and not exhausted and (not running or rs.rand() < 0.45):
                do_suggest()
                continue
            if not running:
                if exhausted:
                    break
                continue
            t = running[int(rs.randint(len(running)))]
            if t not in forced and rs.rand() < spec["pfail"]:
                rec = T[t]
                why = ("before" if rec["epoch"] == 0 else "between") if rec["resumes"] == 0 else ("resumed-before" if rec["epoch"] == rec["paused_at"] else "resumed-between")
                do_fail(t, why)
            else:
                do_report(t)
    except _Abort:
        pass
    return nfail_checks


def _part_hyperband(M, tier, rs):
    quick = tier == "quick"
    geos = [(9, 1, 3), (8, 1, 2)]
    n = 0
    # enumerated placements: which trial fails x at which point of its life
    for typ in ("stopping", "promotion"):
        points = ("before", "between") if typ == "stopping" else ("before", "between", "resumed-before", "resumed-between")
        for searcher in ("random", "bayesopt"):
            for sd in ("rungs", "all"):
                for point in points:
                    for who in ((0,), (1,), (2,), (0, 2), (1, 3)) if quick else ((0,), (1,), (2,), (3,), (0, 1), (0, 2), (1, 3), (0, 1, 2)):
                        n += 1
                        if quick and searcher == "bayesopt" and n % 2:
                            continue
                        max_t, grace, rf = geos[n % 2]
                        spec = dict(type=typ, searcher=searcher, searcher_data=sd, brackets=1 + (n % 3 == 0), mode=("min", "max")[n % 2], max_t=max_t, grace=grace, rf=rf, workers=3 + n % 2, steps=90 if point.startswith("resumed") else 60, pfail=0.0, seed=n % 11, forced={w: point for w in who}, myopic=(n % 4 == 1), monotone=point.startswith("resumed"))
                        _hb_scenario(M, dict(family="hyperband-enumerated", **spec), spec)
    # random interleavings
    for k in range(150 if quick else 1200):
        typ = ("stopping", "promotion")[k % 2]
        searcher = "bayesopt" if k % 4 >= 2 else "random"
        max_t, grace, rf = geos[int(rs.randint(2))]
        spec = dict(type=typ, searcher=searcher, searcher_data=("rungs", "all")[int(rs.randint(2))], brackets=int(rs.randint(1, 3)), mode=("min", "max")[int(rs.randint(2))], max_t=max_t, grace=grace, rf=rf, workers=int(rs.randint(2, 6)), steps=int(rs.randint(60, 160)), pfail=float(rs.choice([0.03, 0.08, 0.2])), seed=int(rs.randint(0, 10 ** 4)), finite=(searcher == "random" and k % 6 < 2), myopic=bool(rs.randint(2)))
        _hb_scenario(M, dict(family="hyperband-random", **spec), spec)


# ---------------------------------------------------------------------------------------------------------------
# part C: synchronous Hyperband, geometric variant, DEHB -- reference model of the brackets
# ---------------------------------------------------------------------------------------------------------------
class _SyncRef:
    """Brackets as the statement describes them: the k-th bracket uses rung system k mod n; a job goes to the first
    open bracket whose current rung has a slot that was not handed out yet, else a new bracket is opened; a rung is
    complete when each of its slots has reported or failed; the next rung (size k) is filled with the k best
    survivors (all survivors and any failed ones if fewer than k survived)."""

    def __init__(self, systems, mode):
        self.systems, self.mode, self.B = systems, mode, []

    def _open(self):
        bid = len(self.B)
        b = {"id": bid, "rungs": self.systems[bid % len(self.systems)], "cur": 0, "assigned": 0, "reported": 0, "results": [], "await": [], "spare": 0, "lost": [], "below_failed": False, "nfailed": 0}
        self.B.append(b)
        return b

    def next_bracket(self):
        for b in self.B:
            if b["cur"] < len(b["rungs"]) and b["assigned"] < b["rungs"][b["cur"]][0]:
                return b
        return self._open()

    def size(self, b, r):
        return b["rungs"][r][0] if r < len(b["rungs"]) else 0

    def hand_out(self, b):
        b["assigned"] += 1
        return {"bracket": b["id"], "rung": b["cur"], "level": b["rungs"][b["cur"]][1]}

    def result(self, job, tid, metric):
        """metric None = failed"""
        b = self.B[job["bracket"]]
        assert job["rung"] == b["cur"], (job, b["cur"])
        b["results"].append((tid, metric))
        b["reported"] += 1
        if metric is None:
            b["nfailed"] += 1
        if b["reported"] == b["rungs"][b["cur"]][0]:
            res = b["results"]
            b.update(cur=b["cur"] + 1, assigned=0, reported=0, results=[], nfailed=0)
            if b["cur"] < len(b["rungs"]):
                k = b["rungs"][b["cur"]][0]
                surv = sorted(((m, t) for t, m in res if m is not None), reverse=(self.mode == "max"))
                lost = [t for t, m in res if m is None]
                b["below_failed"] = bool(lost)
                if len(surv) >= k:
                    b.update(spare=0, lost=list(lost))
                    b["await"] = [t for _, t in surv[:k]]
                else:
                    b.update(spare=k - len(surv), lost=list(lost))
                    b["await"] = [t for _, t in surv]


def _sync_lib_view(sched, dehb):
    """what the library has on record: pending slot of each trial, content of every rung that was opened"""
    pend = {}
    for t, v in sched._trial_to_pending_slot.items():
        if dehb:
            pend[t] = (int(v.bracket_id), int(v.rung_index), int(v.slot_index), int(v.level))
        else:
            pend[t] = (int(v[0]), int(v[1].rung_index), int(v[1].slot_index), int(v[1].level))
    rungs = {}
    for bid, br in enumerate(sched.bracket_manager._brackets):
        for ri, (rung, level) in enumerate(br._rungs):
            if isinstance(rung, list):
                for si, (t, m) in enumerate(rung):
                    rungs[(bid, ri, si)] = (t, None if m is None else ("nan" if np.isnan(m) else float(m)))
    state = [(bid, int(br.current_rung), int(br.num_pending_slots())) for bid, br in enumerate(sched.bracket_manager._brackets)]
    return {"pending": pend, "rungs": rungs, "state": state}


def _sync_scenario(M, ctx, spec):
    """spec: kind ('sync' | 'geometric' | 'dehb'), systems / geo / first, mode, searcher, workers, steps, pfail,
    forced {job ordinal: point}, constrained (failures keep enough survivors), pause_resume, seed, open_clause"""
    L = _lib()
    D = L["SchedulerDecision"]
    M.scenario(ctx)
    M.sample(ctx)
    kind, mode = spec["kind"], spec["mode"]
    dehb = kind == "dehb"
    pr = spec.get("pause_resume", True)
    open_clause = spec.get("open_clause")
    NOEXC = open_clause or Y_NOEXC
    options = {"debug_log": False}
    if spec["searcher"] == "bayesopt":
        options["num_init_random"] = 1000
    common = dict(metric=METRIC, mode=mode, resource_attr=RESOURCE, max_resource_attr=MRA, random_seed=spec["seed"], search_options=options)
    try:
        if kind == "sync":
            systems = [list(map(tuple, s)) for s in spec["systems"]]
            cs = {"x": L["uniform"](0.0, 1.0), "y": L["uniform"](0.0, 1.0), MRA: systems[0][-1][1]}
            sched = L["SynchronousHyperbandScheduler"](cs, bracket_rungs=[list(s) for s in systems], searcher=spec["searcher"], **common)
        elif kind == "geometric":
            g, mx, rf, nb = spec["geo"]
            systems = [[(int(a), int(b)) for a, b in s] for s in L["SynchronousHyperbandRungSystem"].geometric(g, mx, rf, nb)]
            cs = {"x": L["uniform"](0.0, 1.0), "y": L["uniform"](0.0, 1.0), MRA: mx}
            kw = dict(common, grace_period=g, reduction_factor=rf, searcher=spec["searcher"])
            if nb is not None:
                kw["brackets"] = nb
            sched = L["SynchronousGeometricHyperbandScheduler"](cs, **kw)
        else:
            first = [tuple(x) for x in spec["first"]]
            systems = [first[o:] for o in range(len(first))]
            cs = {"x": L["uniform"](0.0, 1.0), "y": L["uniform"](0.0, 1.0), "z": L["uniform"](0.0, 1.0), MRA: first[-1][1]}
            kw = dict(common, rungs_first_bracket=list(first), support_pause_resume=pr)
            if spec["searcher"] != "random_encoded":
                kw["searcher"] = spec["searcher"]
            sched = L["DifferentialEvolutionHyperbandScheduler"](cs, **kw)
    except Exception:
        M.check(NOEXC, False, ctx, reason="constructor raised", traceback=_tb())
        return
    ref = _SyncRef(systems, mode)
    rs = np.random.RandomState(spec["seed"] * 104729 + 5)
    W = spec["workers"]
    T, failed = {}, []
    next_id, step, njobs = 0, 0, 0
    forced = dict(spec.get("forced", {}))

    def lib_call(what, fn, **det):
        try:
            out = fn()
        except Exception:
            M.check(NOEXC, False, ctx, reason=what + " raised", traceback=_tb(), **dict(dict(step=step, failed_so_far=list(failed)), **det))
            raise _Abort()
        if not open_clause:
            M.check(NOEXC, True, ctx)
        return out

    def promotes(b):
        """jobs of rung > 0 of this bracket continue a trial of the rung below"""
        return (not dehb) or b["id"] == 0

    def do_suggest():
        nonlocal next_id, njobs
        b = ref.next_bracket()
        level = b["rungs"][b["cur"]][1]
        want_resume = b["cur"] > 0 and promotes(b) and (not dehb or pr)
        after_failure = b["cur"] > 0 and b["below_failed"]
        clause = Y_NOWAIT if (after_failure or any(x["nfailed"] or x["below_failed"] for x in ref.B)) and (b["cur"] > 0 or len(ref.B) > 1) else Y_JOBS
        det = {"step": step, "job_number": njobs, "expected_bracket": b["id"], "expected_rung": b["cur"], "expected_level": level, "expected_kind": "resume" if want_resume else "start", "failed_so_far": list(failed)}
        sugg = lib_call("suggest", lambda: sched.suggest(next_id), **det)
        if open_clause:
            if not M.check(open_clause, sugg is not None, ctx, reason="suggest returned None (the tuner would end the experiment)", **det):
                raise _Abort()
        if sugg is None:
            M.check(clause, False, ctx, reason="suggest returned None although the bracket rule prescribes a job", **det)
            raise _Abort()
        is_resume = not sugg.spawn_new_trial_id
        got = {"kind": "resume" if is_resume else "start", "trial": int(sugg.checkpoint_trial_id) if is_resume else next_id, "told_to_run_to": None if sugg.config is None else sugg.config.get(MRA)}
        if open_clause:
            pass
        elif is_resume != want_resume or got["told_to_run_to"] != level:
            M.check(Y_NOWAIT if (want_resume and not is_resume) and after_failure else clause, False, ctx, reason="job differs from the one the bracket rule prescribes" + (" (the bracket still waits for the failed job?)" if want_resume and not is_resume else ""), got=got, **det)
            raise _Abort()
        else:
            M.check(clause, True, ctx)
        tid = got["trial"]
        if is_resume:
            rec = T.get(tid)
            if rec is None or rec["status"] not in ("paused", "failed"):
                M.check(clause, False, ctx, reason="resumed trial is not paused", got=got, **det)
                raise _Abort()
            if not open_clause:
                if tid in b["await"]:
                    b["await"].remove(tid)
                    M.check(Y_NOFAILED, True, ctx)
                    if after_failure:
                        M.check(Y_NOWAIT, True, ctx)
                elif tid in b["lost"] and b["spare"] > 0:
                    b["spare"] -= 1  # documented: too few survivors, a failed trial fills the slot
                    b["lost"].remove(tid)
                elif tid in failed:
                    M.check(Y_NOFAILED, False, ctx, reason="a failed trial is promoted although enough survivors exist", got=got, promotable=list(b["await"]), **det)
                    raise _Abort()
                else:
                    M.check(Y_NOWAIT if after_failure else clause, False, ctx, reason="promoted trial is not among the best survivors of the rung below", got=got, promotable=list(b["await"]), **det)
                    raise _Abort()
            cfg = dict(rec["trial"].config) if sugg.config is None else dict(sugg.config)
            rec["trial"] = _trial(tid, cfg)
        else:
            if b["cur"] > 0 and promotes(b) and b["await"]:
                b["await"].pop()  # DEHB without pause / resume: a new trial continues the promoted configuration
            tr = _trial(next_id, sugg.config)
            lib_call("on_trial_add", lambda: sched.on_trial_add(tr), trial=next_id)
            T[next_id] = rec = {"trial": tr, "epoch": 0}
            next_id += 1
        job = ref.hand_out(b)
        job.update(number=njobs, reports=0, resumed=is_resume)
        rec.update(status="running", job=job)
        njobs += 1
        # the library's own record of the job
        view = _sync_lib_view(sched, dehb)
        slot = view["pending"].get(tid)
        if not open_clause:
            ok = slot is not None and (slot[0], slot[1], slot[3]) == (job["bracket"], job["rung"], job["level"])
            if not M.check(clause, ok, ctx, reason="pending slot recorded for the job is not (bracket, rung, level) of the bracket rule", recorded=slot, **det):
                raise _Abort()

    def do_report(tid):
        rec = T[tid]
        job = rec["job"]
        e = rec["epoch"] + 1
        rec["epoch"] = e
        job["reports"] += 1
        m = float(rs.rand())
        res = {METRIC: m, RESOURCE: e}
        dec = lib_call("on_trial_result", lambda: sched.on_trial_result(rec["trial"], dict(res)), trial=tid, result=res)
        if e < job["level"]:
            expected = D.CONTINUE
        elif dehb and not (pr and job["bracket"] == 0):
            expected = D.STOP
        else:
            expected = D.PAUSE
        if not open_clause and not M.check(Y_DECIDE, dec == expected, ctx, reason="decision differs", step=step, trial=tid, result=res, got=dec, expected=expected, job=job):
            raise _Abort()
        if dec in (D.STOP, D.PAUSE):
            lib_call("on_trial_remove", lambda: sched.on_trial_remove(rec["trial"]), trial=tid)
            rec["status"] = "paused" if dec == D.PAUSE else "stopped"
            ref.result(job, tid, m)
            if tid in failed:
                failed.remove(tid)  # a failed trial that was promoted for lack of survivors and now reported

    def do_fail(tid, why):
        rec = T[tid]
        job = rec["job"]
        before = _sync_lib_view(sched, dehb)
        lib_call("on_trial_error", lambda: sched.on_trial_error(rec["trial"]), trial=tid, point=why)
        after = _sync_lib_view(sched, dehb)
        ref.result(job, tid, None)
        M.tally("sync failure " + why)
        det = {"step": step, "failed_trial": tid, "point": why, "job": job, "failed_before": list(failed)}
        if open_clause:
            failed.append(tid)
            rec["status"] = "failed"
            return
        # the failed job: no pending slot left, its slot counts as reported (reference: rung index / open slots)
        slot = before["pending"].get(tid)
        b = ref.B[job["bracket"]]
        want_state = (job["bracket"], b["cur"], 0 if b["cur"] >= len(b["rungs"]) else b["assigned"] - b["reported"])
        got_state = after["state"][job["bracket"]]
        M.check(Y_SLOT, tid not in after["pending"] and str(tid) not in after["pending"], ctx, reason="failed trial still has a pending slot", pending_after=after["pending"], **det)
        M.check(Y_SLOT, tuple(got_state) == want_state, ctx, reason="bracket of the failed job: (bracket, current rung, slots still waited for) differs -- the bracket still waits for the failed job?", got=got_state, expected=want_state, **det)
        # everyone else
        ob = {t: v for t, v in before["pending"].items() if t != tid}
        oa = {t: v for t, v in after["pending"].items() if t != tid}
        M.check(Y_OTHERS, ob == oa, ctx, reason="pending slots of other trials changed", others_before=ob, others_after=oa, **det)
        mine = None if slot is None else (slot[0], slot[1], slot[2])
        changed = {k: (v, after["rungs"].get(k)) for k, v in before["rungs"].items() if k != mine and after["rungs"].get(k) != v}
        M.check(Y_OTHERS, not changed, ctx, reason="rung entries of other slots changed", changed={str(k): v for k, v in changed.items()}, **det)
        ob = [s for s in before["state"] if s[0] != job["bracket"]]
        oa = [s for s in after["state"][: len(before["state"])] if s[0] != job["bracket"]]
        M.check(Y_OTHERS, ob == oa, ctx, reason="other brackets changed", before=ob, after=oa, **det)
        failed.append(tid)
        rec["status"] = "failed"

    def may_fail(rec):
        if not spec.get("constrained", True):
            return True
        b = ref.B[rec["job"]["bracket"]]
        r = rec["job"]["rung"]
        return b["nfailed"] + 1 <= ref.size(b, r) - ref.size(b, r + 1)

    def point_of(rec):
        job = rec["job"]
        return ("resumed-" if job["resumed"] else "") + ("before" if job["reports"] == 0 else "between")

    try:
        for step in range(1, spec["steps"] + 1):
            running = [t for t, rec in T.items() if rec["status"] == "running"]
            hit = [t for t in running if T[t]["job"]["number"] in forced and point_of(T[t]).endswith(forced[T[t]["job"]["number"]]) and (T[t]["job"]["reports"] > 0 or forced[T[t]["job"]["number"]] == "before")]
            # 'between' needs a job with at least two epochs; otherwise it degrades to 'before'
            for t in running:
                j = T[t]["job"]
                if j["number"] in forced and forced[j["number"]] == "between" and j["reports"] == 0 and j["level"] - T[t]["epoch"] < 2:
                    hit.append(t)
            if hit:
                t = hit[0]
                del forced[T[t]["job"]["number"]]
                if may_fail(T[t]):
                    do_fail(t, point_of(T[t]))
                continue
            if len(running) < W and (not running or rs.rand() < 0.5):
                do_suggest()
                continue
            if not running:
                continue
            t = running[int(rs.randint(len(running)))]
            if T[t]["job"]["number"] not in forced and rs.rand() < spec["pfail"] and may_fail(T[t]):
                do_fail(t, point_of(T[t]))
            else:
                do_report(t)
    except _Abort:
        pass


def _part_sync(M, tier, rs):
    quick = tier == "quick"
    n = 0
    # enumerated: every placement of one or two failing jobs among the first jobs x point of life, small systems
    small = [
        [[(3, 1), (1, 3)]],
        [[(3, 1), (2, 2), (1, 4)], [(2, 2), (1, 4)], [(1, 4)]],
        [[(4, 2), (2, 4)], [(2, 4)]],
    ]
    njob = 6 if quick else 8
    placements = [(a,) for a in range(njob)] + [(a, b) for a in range(njob) for b in range(a + 1, njob) if not quick or (a + b) % 3 == 0]
    for si, systems in enumerate(small):
        for who in placements:
            for point in ("before", "between"):
                for W in (2, 3) if quick else (1, 2, 3, 4):
                    n += 1
                    if quick and n % 2 and len(who) == 2:
                        continue
                    spec = dict(kind="sync", systems=systems, mode=("min", "max")[n % 2], searcher=("random", "bayesopt")[n % 5 == 0], workers=W, steps=70, pfail=0.0, forced={w: point for w in who}, constrained=(n % 3 != 0), seed=n % 13)
                    _sync_scenario(M, dict(family="sync-enumerated", **spec), spec)
    # random: custom and geometric systems, unconstrained failures included
    cases = [("sync", [[(6, 1), (3, 2), (1, 4)], [(4, 2), (2, 4)], [(3, 4)]]), ("sync", [[(5, 2), (4, 3), (2, 5), (1, 6)], [(3, 3), (2, 5), (1, 6)]]), ("geometric", (1, 9, 3, None)), ("geometric", (1, 8, 2, 2)), ("geometric", (1, 4, 2, None))]
    for k in range(90 if quick else 700):
        kind, what = cases[k % len(cases)]
        spec = dict(kind=kind, mode=("min", "max")[int(rs.randint(2))], searcher=("random", "bayesopt")[k % 7 == 3], workers=int(rs.choice([1, 2, 3, 5])), steps=int(rs.randint(60, 200)), pfail=float(rs.choice([0.05, 0.15, 0.4])), constrained=bool(k % 3), seed=int(rs.randint(0, 10 ** 4)))
        spec["systems" if kind == "sync" else "geo"] = what
        _sync_scenario(M, dict(family="sync-random", **spec), spec)
    # DEHB: failures keep enough survivors (the other families are the dehb/... clauses)
    firsts = [[(9, 1), (3, 3), (1, 9)], [(8, 1), (4, 2), (2, 4), (1, 8)]]
    for fi, first in enumerate(firsts):
        for who in [(a,) for a in range(0, 14, 1 if not quick else 2)] + [(0, 9), (2, 10), (9, 12)]:
            for point in ("before", "between"):
                n += 1
                spec = dict(kind="dehb", first=first, mode=("min", "max")[n % 2], searcher=("random_encoded", "random", "bayesopt")[n % 3] if n % 4 == 0 else "random_encoded", workers=(2, 3, 4)[n % 3], steps=150, pfail=0.0, forced={w: point for w in who}, constrained=True, pause_resume=(n % 3 != 1), seed=n % 13)
                _sync_scenario(M, dict(family="dehb-enumerated", **spec), spec)
    for k in range(30 if quick else 250):
        spec = dict(kind="dehb", first=firsts[k % 2], mode=("min", "max")[int(rs.randint(2))], searcher=("random_encoded", "random")[k % 5 == 0], workers=int(rs.choice([1, 2, 4])), steps=int(rs.randint(100, 260)), pfail=float(rs.choice([0.05, 0.15])), constrained=True, pause_resume=bool(k % 3), seed=int(rs.randint(0, 10 ** 4)))
        _sync_scenario(M, dict(family="dehb-random", **spec), spec)
    # families of their own
    for k in range(2 if quick else 6):
        spec = dict(kind="dehb", first=[(3, 1), (2, 2), (1, 4)], mode=("min", "max")[(k // 2) % 2], searcher="random_encoded", workers=2 if k % 2 == 0 else 1, steps=80, pfail=0.0, forced={0: "before", 1: "before"} if k % 2 == 0 else {6: "before", 7: "before"}, constrained=False, pause_resume=True, seed=k, open_clause=D_FEW)
        _sync_scenario(M, dict(family="dehb-too-few-survivors", **spec), spec)


# ---------------------------------------------------------------------------------------------------------------
# part D: PopulationBasedTraining, MOASHA, MedianStoppingRule
# ---------------------------------------------------------------------------------------------------------------
def _pbt_view(sched):
    recs = {}
    for t, st in sched._trial_state.items():
        ltt = getattr(st, "last_train_time", None)
        recs[int(t)] = (None if st.last_score is None else float(st.last_score), float(st.last_perturbation_time), bool(st.stopped), None if ltt is None else float(ltt))
    stack = [(int(t), _hp(c, ("lr", "wd"))) for t, c in sched._trial_decisions_stack]
    return {"records": recs, "stack": stack}


def _moasha_view(sched):
    rungs = []
    for bi, br in enumerate(sched._brackets):
        for milestone, recorded in br._rungs:
            for t, metrics in recorded.items():
                rungs.append((bi, float(milestone), int(t), tuple(sorted((k, float(v)) for k, v in metrics.items()))))
    return {"rungs": sorted(rungs), "brackets": sorted((int(t), sched._brackets.index(b)) for t, b in sched._trial_info.items())}


def _median_view(sched):
    res = {float(k): [float(x) for x in v] for k, v in sched.sorted_results.items()}
    per = {int(t): [float(x) for x in v] for t, v in getattr(sched, "trial_to_results", {}).items()}
    return {"sorted": res, "per_trial": per}


def _other_scenario(M, ctx, spec):
    """spec: kind ('pbt' | 'moasha' | 'median'), workers, steps, pfail, seed, mode, max_t + kind specific"""
    L = _lib()
    D = L["SchedulerDecision"]
    M.scenario(ctx)
    M.sample(ctx)
    kind, mode, max_t = spec["kind"], spec["mode"], spec["max_t"]
    NOEXC = P_NOEXC if kind == "pbt" else M_NOEXC
    np.random.seed(spec["seed"])  # MOASHA draws from the global generator
    try:
        if kind == "pbt":
            cs = {"lr": L["uniform"](0.0, 1.0), "wd": L["uniform"](0.0, 1.0), MRA: max_t}
            sched = L["PopulationBasedTraining"](cs, metric=METRIC, mode=mode, resource_attr=RESOURCE, max_t=max_t, population_size=spec["workers"], perturbation_interval=spec["interval"], quantile_fraction=spec["fraction"], random_seed=spec["seed"], search_options={"debug_log": False})
            view = _pbt_view
        elif kind == "moasha":
            cs = {"lr": L["uniform"](0.0, 1.0), MRA: max_t}
            sched = L["MOASHA"](cs, metrics=[METRIC, METRIC2], mode=mode, time_attr=RESOURCE, max_t=max_t, grace_period=1, reduction_factor=spec["rf"], brackets=spec["brackets"])
            view = _moasha_view
        else:
            cs = {"lr": L["uniform"](0.0, 1.0), MRA: max_t}
            inner = L["FIFOScheduler"](cs, searcher="random", metric=METRIC, mode=mode, random_seed=spec["seed"], search_options={"debug_log": False})
            sched = L["MedianStoppingRule"](inner, resource_attr=RESOURCE, running_average=spec["running_average"], grace_time=spec["grace_time"], grace_population=spec["grace_population"], rank_cutoff=spec["cutoff"])
            view = _median_view
    except Exception:
        M.check(NOEXC, False, ctx, reason="constructor raised", traceback=_tb())
        return
    rs = np.random.RandomState(spec["seed"] * 31 + 3)
    W = spec["workers"]
    T, failed = {}, []
    next_id, step = 0, 0
    med = {}  # time-step -> list of (trial, value) : reference of the median rule
    hist = {}  # trial -> values in the scheduler's sign convention

    def lib_call(what, fn, **det):
        try:
            out = fn()
        except Exception:
            M.check(NOEXC, False, ctx, reason=what + " raised", traceback=_tb(), **dict(dict(step=step, failed_so_far=list(failed)), **det))
            raise _Abort()
        M.check(NOEXC, True, ctx)
        return out

    def do_suggest():
        nonlocal next_id
        with contextlib.redirect_stdout(io.StringIO()):
            sugg = lib_call("suggest", lambda: sched.suggest(next_id), asking_for_trial=next_id)
        if sugg is None or not sugg.spawn_new_trial_id:
            M.check(P_DECIDE if kind == "pbt" else M_DECIDE, False, ctx, reason="suggest must start a new trial", step=step, got=str(sugg))
            raise _Abort()
        if kind == "pbt":
            src = sugg.checkpoint_trial_id
            M.check(P_SOURCE, src is None or int(src) not in failed, ctx, reason="new trial is told to start from the checkpoint of a failed trial", step=step, new_trial=next_id, checkpoint_of=src, failed_so_far=list(failed))
        tr = _trial(next_id, sugg.config)
        with contextlib.redirect_stdout(io.StringIO()):
            lib_call("on_trial_add", lambda: sched.on_trial_add(tr), trial=next_id)
        T[next_id] = {"trial": tr, "status": "running", "epoch": 0}
        next_id += 1

    def do_report(tid):
        rec = T[tid]
        e = rec["epoch"] + 1
        rec["epoch"] = e
        res = {METRIC: float(rs.rand()), METRIC2: float(rs.rand()), RESOURCE: e}
        dec = lib_call("on_trial_result", lambda: sched.on_trial_result(rec["trial"], dict(res)), trial=tid, result=res)
        if kind == "pbt":
            ok = dec in (D.CONTINUE, D.STOP) and (dec == D.STOP if e >= max_t else True)
            if e < max_t and e - rec.get("last_sync", 0) < spec["interval"]:
                ok = ok and dec == D.CONTINUE
            elif e < max_t:
                rec["last_sync"] = e
            M.check(P_DECIDE, ok, ctx, reason="illegal decision", step=step, trial=tid, result=res, got=dec)
        elif kind == "moasha":
            milestones = [spec["rf"] ** k for k in range(12) if spec["rf"] ** k < max_t]
            if e >= max_t:
                expected = {D.STOP}
            elif e not in milestones:
                expected = {D.CONTINUE}
            else:
                expected = {D.CONTINUE, D.STOP}
            M.check(M_DECIDE, dec in expected, ctx, reason="illegal decision", step=step, trial=tid, result=res, got=dec, expected=sorted(expected))
        else:
            v = res[METRIC] * (-1 if mode == "max" else 1)
            hist.setdefault(tid, []).append(v)
            if spec["running_average"]:
                v = float(np.mean(hist[tid]))
            expected = set()
            for drop_failed in (False, True):
                others = [x for t, x in med.get(e, []) if not (drop_failed and t in failed)]
                n = len(others) + 1
                rank = sum(x < v for x in others) / float(n)
                grace = n < spec["grace_population"] or e < spec["grace_time"]
                if grace or rank < spec["cutoff"] or _close(rank, spec["cutoff"]):
                    expected.add(D.CONTINUE)
                if not grace and (rank > spec["cutoff"] or _close(rank, spec["cutoff"])):
                    expected.add(D.STOP)
            med.setdefault(e, []).append((tid, v))
            if e >= max_t:
                expected = {D.CONTINUE, D.STOP}  # the trial ends here anyway
            M.check(M_DECIDE, dec in expected, ctx, reason="decision differs from the median rule", step=step, trial=tid, result=res, got=dec, expected=sorted(expected), failed_so_far=list(failed))
        if dec == D.STOP or e >= max_t:
            if dec == D.STOP:
                lib_call("on_trial_remove", lambda: sched.on_trial_remove(rec["trial"]), trial=tid)
            else:
                lib_call("on_trial_complete", lambda: sched.on_trial_complete(rec["trial"], dict(res)), trial=tid)
            rec["status"] = "stopped"

    def do_fail(tid):
        rec = T[tid]
        before = view(sched)
        lib_call("on_trial_error", lambda: sched.on_trial_error(rec["trial"]), trial=tid)
        after = view(sched)
        M.tally(kind + " failure " + ("before" if rec["epoch"] == 0 else "between"))
        det = {"step": step, "failed_trial": tid, "failed_before": list(failed)}
        if kind == "pbt":
            ob = {t: v for t, v in before["records"].items() if t != tid}
            oa = {t: v for t, v in after["records"].items() if t != tid}
            M.check(P_OTHERS, ob == oa and before["stack"] == after["stack"], ctx, reason="population records of other trials (or the queue of clone decisions) changed", before=before, after=after, **det)
        elif kind == "moasha":
            ob = [x for x in before["rungs"] if x[2] != tid]
            oa = [x for x in after["rungs"] if x[2] != tid]
            M.check(M_OTHERS, ob == oa and [x for x in before["brackets"] if x[0] != tid] == [x for x in after["brackets"] if x[0] != tid], ctx, reason="rung entries / bracket assignment of other trials changed", before=before, after=after, **det)
        else:
            ob = {t: v for t, v in before["per_trial"].items() if t != tid}
            oa = {t: v for t, v in after["per_trial"].items() if t != tid}
            want = {}
            for e, xs in med.items():
                want[float(e)] = sorted(x for t, x in xs)
            ok = ob == oa and all(sorted(after["sorted"].get(e, [])) == xs or sorted(after["sorted"].get(e, [])) == sorted(x for t, x in med[int(e)] if t != tid and t not in failed) for e, xs in want.items())
            M.check(M_OTHERS, ok, ctx, reason="recorded results of other trials changed", before=before, after=after, **det)
        failed.append(tid)
        rec["status"] = "failed"

    try:
        forced = dict(spec.get("forced", {}))
        for step in range(1, spec["steps"] + 1):
            running = [t for t, rec in T.items() if rec["status"] == "running"]
            hit = [t for t in running if t in forced and (T[t]["epoch"] == 0 if forced[t] == "before" else T[t]["epoch"] >= forced[t])]
            if hit:
                del forced[hit[0]]
                do_fail(hit[0])
                continue
            if len(running) < W and (not running or rs.rand() < 0.5):
                do_suggest()
                continue
            if not running:
                continue
            t = running[int(rs.randint(len(running)))]
            if t not in forced and rs.rand() < spec["pfail"]:
                do_fail(t)
            else:
                do_report(t)
    except _Abort:
        pass


def _median_norepeat_scenario(M, ctx, spec):
    """MedianStoppingRule around FIFOScheduler + RandomSearcher(allow_duplicates=True, restrict_configurations): the
    wrapped searcher promises not to suggest the configuration of a failed trial again"""
    L = _lib()
    M.scenario(ctx)
    M.sample(ctx)
    allowed = spec["restrict"]
    try:
        inner = L["FIFOScheduler"](_fin_space(), searcher="random", metric=METRIC, mode="min", random_seed=spec["seed"], points_to_evaluate=[], search_options={"debug_log": False, "allow_duplicates": True, "restrict_configurations": [dict(c) for c in allowed]})
        sched = L["MedianStoppingRule"](inner, resource_attr=RESOURCE)
        failed_cfg = []
        for tid in range(spec["n_ask"]):
            sugg = sched.suggest(tid)
            det = {"step": tid, "failed_configurations": list(failed_cfg)}
            if all(_hp(c) in failed_cfg for c in allowed):
                M.check(M_MEDIAN_NOREP, sugg is None, ctx, reason="only failed configurations remain, but a configuration was suggested", got=None if sugg is None else sugg.config, **det)
            if sugg is None:
                break
            if not M.check(M_MEDIAN_NOREP, _hp(sugg.config) not in failed_cfg, ctx, reason="configuration of a failed trial suggested again (on_trial_error is not passed on to the wrapped scheduler)", got=sugg.config, **det):
                break
            tr = _trial(tid, sugg.config)
            sched.on_trial_add(tr)
            if tid in spec["fail"]:
                sched.on_trial_error(tr)
                failed_cfg.append(_hp(sugg.config))
            else:
                sched.on_trial_result(tr, {METRIC: 0.5, RESOURCE: 1})
                sched.on_trial_complete(tr, {METRIC: 0.5, RESOURCE: 1})
    except Exception:
        M.check(M_MEDIAN_NOREP, False, ctx, reason="raised", traceback=_tb())


def _part_others(M, tier, rs):
    quick = tier == "quick"
    n = 0
    for who in [(0,), (1,), (2,), (3,), (0, 1), (1, 2), (0, 3), (0, 1, 2)]:
        for point in ("before", 1, 2):
            n += 1
            forced = {w: point for w in who}
            spec = dict(kind="pbt", workers=4, steps=120, pfail=0.0, seed=n % 9, mode=("min", "max")[n % 2], max_t=6 + n % 3, interval=1 + n % 2, fraction=(0.25, 0.5)[n % 2], forced=forced)
            _other_scenario(M, dict(family="pbt-enumerated", **spec), spec)
            spec = dict(kind="moasha", workers=4, steps=100, pfail=0.0, seed=n % 9, mode=("min", "max")[n % 2], max_t=9, rf=3, brackets=1 + n % 2, forced=forced)
            _other_scenario(M, dict(family="moasha-enumerated", **spec), spec)
            spec = dict(kind="median", workers=4, steps=120, pfail=0.0, seed=n % 9, mode=("min", "max")[n % 2], max_t=5, running_average=bool(n % 2), grace_time=1 + n % 2, grace_population=2 + n % 3, cutoff=(0.5, 0.3)[n % 2], forced=forced)
            _other_scenario(M, dict(family="median-enumerated", **spec), spec)
    for k in range(30 if quick else 300):
        seed = int(rs.randint(0, 10 ** 4))
        pfail = float(rs.choice([0.05, 0.15, 0.3]))
        W = int(rs.randint(2, 7))
        spec = dict(kind="pbt", workers=W, steps=int(rs.randint(80, 220)), pfail=pfail, seed=seed, mode=("min", "max")[k % 2], max_t=int(rs.randint(4, 10)), interval=int(rs.randint(1, 3)), fraction=float(rs.choice([0.25, 0.4, 0.5])))
        _other_scenario(M, dict(family="pbt-random", **spec), spec)
        spec = dict(kind="moasha", workers=W, steps=int(rs.randint(80, 220)), pfail=pfail, seed=seed, mode=("min", "max")[k % 2], max_t=(9, 8)[k % 2], rf=(3, 2)[k % 2], brackets=int(rs.randint(1, 3)))
        _other_scenario(M, dict(family="moasha-random", **spec), spec)
        spec = dict(kind="median", workers=W, steps=int(rs.randint(80, 220)), pfail=pfail, seed=seed, mode=("min", "max")[k % 2], max_t=int(rs.randint(3, 7)), running_average=bool(rs.randint(2)), grace_time=int(rs.randint(1, 3)), grace_population=int(rs.randint(2, 6)), cutoff=float(rs.choice([0.5, 0.25, 0.7])))
        _other_scenario(M, dict(family="median-random", **spec), spec)
    six = _all6()
    for k in range(4 if quick else 12):
        size = 1 + k % 3
        restrict = [six[int(i)] for i in sorted(np.random.RandomState(50 + k).choice(6, size=size, replace=False))]
        spec = dict(restrict=restrict, fail=set(range(0, 12)) if k % 2 == 0 else {0, 2, 3, 5, 7}, n_ask=12, seed=k)
        _median_norepeat_scenario(M, dict(family="median-wrapped-searcher-promise", restrict=restrict, fail=sorted(spec["fail"]), n_ask=12, seed=k), spec)


# ---------------------------------------------------------------------------------------------------------------
# part E: the real Tuner on an in-memory back end with scripted failures
# ---------------------------------------------------------------------------------------------------------------
class _Stuck(Exception):
    pass


_BACKEND = None


def _backend_class():
    global _BACKEND
    if _BACKEND is not None:
        return _BACKEND
    L = _lib()
    from pathlib import Path

    Status, TrialResult, STAMP = L["Status"], L["TrialResult"], L["ST_WORKER_TIMESTAMP"]

    class ScriptedBackend(L["TrialBackend"]):
        """One poll = one tick: every polled trial that is in progress either writes one report or ends.
        ``script[(trial_id, run)] = (how, k)``: run ``run`` of the trial (0 = first start, +1 per resume) ends after
        ``k`` reports of that run with ``how`` in 'fail' (status Failed), 'fail-with-report' (the k-th report and the
        status Failed arrive in one poll), 'stopped-outside' (status Stopped, nobody asked for it).  Without an entry
        the run goes on to ``config['epochs']`` (or ``default_epochs``) and completes with its last report."""

        def __init__(self, script, default_epochs, max_polls):
            super().__init__()
            self.script, self.default_epochs, self.max_polls = dict(script), default_epochs, max_polls
            self.rec, self.run, self.run_reports, self.epoch = {}, {}, {}, {}
            self.clock, self.polls = 0, 0
            self.events = []  # (poll, what, trial_id, extra)
            self.starved = []

        def _schedule(self, trial_id, config):
            if trial_id not in self.rec:
                self.rec[trial_id] = TrialResult(trial_id=trial_id, config=dict(config), creation_time=datetime(2024, 1, 1), status=Status.in_progress, metrics=[])
                self.run[trial_id], self.epoch[trial_id] = 0, 0
                self.events.append((self.polls, "start", trial_id, dict(config)))
            else:
                self.run[trial_id] += 1
                self.rec[trial_id].config = dict(config)
                self.rec[trial_id].status = Status.in_progress
                self.events.append((self.polls, "resume", trial_id, dict(config)))
            self.run_reports[trial_id] = 0

        def _report(self, trial_id):
            r = self.rec[trial_id]
            self.epoch[trial_id] += 1
            self.run_reports[trial_id] += 1
            self.clock += 1
            e = self.epoch[trial_id]
            v = ((trial_id * 0.6180339887 + e * 0.7548776662) % 1.0 + 1e-3 * e)
            r.metrics.append({METRIC: float(v), METRIC2: float((v * 7.0) % 1.0), RESOURCE: e, STAMP: self.clock})

        def _tick(self, trial_id):
            r = self.rec[trial_id]
            if r.status != Status.in_progress:
                return
            fate = self.script.get((trial_id, self.run[trial_id]))
            k = self.run_reports[trial_id]
            if fate is not None and fate[0] in ("fail", "stopped-outside") and k >= fate[1]:
                r.status = Status.failed if fate[0] == "fail" else Status.stopped
                self.events.append((self.polls, fate[0], trial_id, {"run": self.run[trial_id], "after_reports": k}))
                return
            self._report(trial_id)
            if fate is not None and fate[0] == "fail-with-report" and k + 1 >= fate[1]:
                r.status = Status.failed
                self.events.append((self.polls, "fail", trial_id, {"run": self.run[trial_id], "after_reports": k + 1, "with_report": True}))
                return
            target = r.config.get(MRA, self.default_epochs)
            if self.epoch[trial_id] >= target:
                r.status = Status.completed
                self.events.append((self.polls, "completed", trial_id, None))

        def fetch_status_results(self, trial_ids):
            self.polls += 1
            if self.polls > self.max_polls:
                raise _Stuck("more than %d polls" % self.max_polls)
            busy = [t for t, r in self.rec.items() if r.status == Status.in_progress]
            missing = [t for t in busy if t not in trial_ids]
            if missing:
                self.starved.append((self.polls, missing))
            for t in sorted(trial_ids):
                self._tick(t)
            return super().fetch_status_results(trial_ids)

        def _all_trial_results(self, trial_ids):
            return [self.rec[t] for t in trial_ids]

        def _stop_trial(self, trial_id, result):
            r = self.rec[trial_id]
            self.events.append((self.polls, "stop-asked", trial_id, r.status))
            if r.status == Status.in_progress:
                r.status = Status.stopped

        def _pause_trial(self, trial_id, result):
            self.events.append((self.polls, "pause-asked", trial_id, self.rec[trial_id].status))
            self.rec[trial_id].status = Status.paused

        def _resume_trial(self, trial_id):
            pass

        def copy_checkpoint(self, src_trial_id, tgt_trial_id):
            self.events.append((self.polls, "copy-checkpoint", tgt_trial_id, src_trial_id))

        def delete_checkpoint(self, trial_id):
            pass

        def busy_trial_ids(self):
            return [(t, r.status) for t, r in self.rec.items() if r.status == Status.in_progress]

        def stdout(self, trial_id):
            return []

        def stderr(self, trial_id):
            return []

        def entrypoint_path(self):
            return Path("c13_native_script.py")

    _BACKEND = ScriptedBackend
    return _BACKEND


def _spy(sched, calls):
    for name in ("on_trial_add", "on_trial_result", "on_trial_remove", "on_trial_complete", "on_trial_error"):
        orig = getattr(sched, name)

        def wrapper(*a, _orig=orig, _name=name, **kw):
            trial = kw.get("trial", a[0] if a else None)
            calls.append((_name, int(trial.trial_id)))
            return _orig(*a, **kw)

        setattr(sched, name, wrapper)
    orig_suggest = sched.suggest

    def suggest(trial_id, _orig=orig_suggest):
        out = _orig(trial_id)
        calls.append(("suggest", None if out is None else (bool(out.spawn_new_trial_id), out.checkpoint_trial_id)))
        return out

    sched.suggest = suggest


def _make_tuner_scheduler(spec):
    """-> (scheduler, default_epochs, promises_no_repeat, hp_keys)"""
    L = _lib()
    kind, seed, mode = spec["scheduler"], spec["seed"], spec.get("mode", "min")
    max_t = spec.get("max_t", 9)
    so = {"debug_log": False}
    if spec.get("searcher") == "bayesopt":
        so["num_init_random"] = 1000
    if kind == "fifo":
        cs = _fin_space() if spec.get("finite") else {"x": L["uniform"](0.0, 1.0), "y": L["uniform"](0.0, 1.0)}
        so["allow_duplicates"] = spec.get("allow_dup", False)
        if spec.get("restrict") is not None:
            so["restrict_configurations"] = [dict(c) for c in spec["restrict"]]
        s = L["FIFOScheduler"](cs, searcher=spec["searcher"], metric=METRIC, mode=mode, random_seed=seed, search_options=so, points_to_evaluate=[])
        promise = spec["searcher"] in ("random", "bayesopt") or not spec.get("allow_dup", False)
        return s, spec.get("epochs", 3), promise
    if kind == "hyperband":
        cs = {"x": L["uniform"](0.0, 1.0), "y": L["uniform"](0.0, 1.0), MRA: max_t}
        s = L["HyperbandScheduler"](cs, searcher=spec["searcher"], type=spec["type"], metric=METRIC, mode=mode, resource_attr=RESOURCE, max_resource_attr=MRA, grace_period=1, reduction_factor=3, brackets=spec.get("brackets", 1), searcher_data=spec.get("searcher_data", "rungs"), random_seed=seed, search_options=so, points_to_evaluate=[])
        return s, max_t, True
    if kind == "sync":
        systems = spec["systems"]
        cs = {"x": L["uniform"](0.0, 1.0), "y": L["uniform"](0.0, 1.0), MRA: systems[0][-1][1]}
        s = L["SynchronousHyperbandScheduler"](cs, bracket_rungs=[list(map(tuple, x)) for x in systems], searcher=spec["searcher"], metric=METRIC, mode=mode, resource_attr=RESOURCE, max_resource_attr=MRA, random_seed=seed, search_options=so)
        return s, systems[0][-1][1], True
    if kind == "geometric":
        cs = {"x": L["uniform"](0.0, 1.0), "y": L["uniform"](0.0, 1.0), MRA: max_t}
        s = L["SynchronousGeometricHyperbandScheduler"](cs, grace_period=1, reduction_factor=3, brackets=1, searcher=spec["searcher"], metric=METRIC, mode=mode, resource_attr=RESOURCE, max_resource_attr=MRA, random_seed=seed, search_options=so)
        return s, max_t, True
    if kind == "dehb":
        first = [tuple(x) for x in spec["first"]]
        cs = {"x": L["uniform"](0.0, 1.0), "y": L["uniform"](0.0, 1.0), "z": L["uniform"](0.0, 1.0), MRA: first[-1][1]}
        s = L["DifferentialEvolutionHyperbandScheduler"](cs, rungs_first_bracket=first, metric=METRIC, mode=mode, resource_attr=RESOURCE, max_resource_attr=MRA, random_seed=seed, search_options=so, support_pause_resume=spec.get("pause_resume", True))
        return s, first[-1][1], False
    if kind == "pbt":
        cs = {"lr": L["uniform"](0.0, 1.0), "wd": L["uniform"](0.0, 1.0), MRA: max_t}
        s = L["PopulationBasedTraining"](cs, metric=METRIC, mode=mode, resource_attr=RESOURCE, max_t=max_t, population_size=spec["workers"], perturbation_interval=1, quantile_fraction=0.25, random_seed=seed, search_options=so)
        return s, max_t, False
    if kind == "moasha":
        cs = {"lr": L["uniform"](0.0, 1.0), MRA: max_t}
        s = L["MOASHA"](cs, metrics=[METRIC, METRIC2], mode=mode, time_attr=RESOURCE, max_t=max_t, grace_period=1, reduction_factor=3, brackets=1)
        return s, max_t, False
    if kind == "median":
        cs = {"lr": L["uniform"](0.0, 1.0), MRA: max_t}
        inner = L["FIFOScheduler"](cs, searcher="random", metric=METRIC, mode=mode, random_seed=seed, search_options=so)
        s = L["MedianStoppingRule"](inner, resource_attr=RESOURCE, grace_population=3)
        return s, max_t, False
    raise ValueError(kind)


_TUNER_COUNT = [0]


def _tuner_scenario(M, ctx, spec):
    """spec: scheduler spec + workers, script {(trial, run): (how, k)}, max_failures, n_start (stop criterion: this
    many trials were started), own_clause (optional)"""
    L = _lib()
    Status = L["Status"]
    M.scenario(ctx)
    M.sample(ctx)
    np.random.seed(spec["seed"])
    _TUNER_COUNT[0] += 1
    calls = []
    GOES_ON = spec.get("own_clause") or T_GOES_ON
    try:
        sched, default_epochs, promise = _make_tuner_scheduler(spec)
        backend = _backend_class()(spec["script"], default_epochs, spec.get("max_polls", 400))
        _spy(sched, calls)
        n_start = spec["n_start"]
        tuner = L["Tuner"](
            trial_backend=backend, scheduler=sched, stop_criterion=lambda st: st.num_trials_started >= n_start, n_workers=spec["workers"], sleep_time=0.0,
            max_failures=spec["max_failures"], save_tuner=False, callbacks=[], tuner_name="c13-native-%d" % _TUNER_COUNT[0], suffix_tuner_name=False,
            results_update_interval=1e9, print_update_interval=1e9, asynchronous_scheduling=spec.get("asynchronous", True),
        )
    except Exception:
        M.check(GOES_ON, False, ctx, reason="set-up raised", traceback=_tb())
        return
    error, tb = None, None
    try:
        with contextlib.redirect_stdout(io.StringIO()):
            tuner.run()
    except BaseException as ex:  # noqa
        if isinstance(ex, KeyboardInterrupt):
            raise
        error, tb = ex, _tb()
    ev = backend.events
    failed = [t for _, what, t, _ in ev if what == "fail"]
    outside = [t for _, what, t, _ in ev if what == "stopped-outside"]
    ended = set(failed) | set(outside)
    det = {"failed_trials": failed, "stopped_outside": outside, "max_failures": spec["max_failures"], "polls": backend.polls, "trials_started": len(backend.rec), "error": None if error is None else "%s: %s" % (type(error).__name__, str(error)[:300])}
    for what in ("fail", "stopped-outside"):
        for _, w, t, extra in ev:
            if w == what:
                M.tally("tuner " + what + (" after resume" if extra["run"] > 0 else "") + (" before first report" if extra["after_reports"] == 0 else " between reports"))
    # --- notifications
    stuck = isinstance(error, _Stuck)
    for t in sorted(ended):
        n = sum(1 for c in calls if c == ("on_trial_error", t))
        M.check(T_ONCE, n == 1, ctx, reason="on_trial_error called %d times for the trial" % n, trial=t, calls_for_trial=[c[0] for c in calls if c[1] == t and c[0] != "suggest"], **det)
        pos = [i for i, c in enumerate(calls) if c == ("on_trial_error", t)]
        later = [c[0] for c in calls[pos[0] + 1:] if c[0] != "suggest" and c[1] == t] if pos else []
        M.check(T_QUIET, not later, ctx, reason="scheduler callbacks for the trial after its failure was reported", trial=t, later_calls=later, **det)
    healthy_err = sorted({c[1] for c in calls if c[0] == "on_trial_error" and c[1] not in ended})
    M.check(T_QUIET, not healthy_err, ctx, reason="on_trial_error for trials that neither failed nor were stopped from outside", trials=healthy_err, **det)
    # --- never resumed, never suggested again
    resumed_after = []
    for i, (_, what, t, _) in enumerate(ev):
        if what in ("fail", "stopped-outside"):
            resumed_after += [t for _, w2, t2, _ in ev[i + 1:] if w2 == "resume" and t2 == t]
    if not spec.get("own_clause"):
        M.check(T_NORESUME, not resumed_after and not (error is not None and "Cannot resume" in str(error)), ctx, reason="a failed / externally stopped trial was resumed", resumed=resumed_after, **det)
    if promise:
        keys = ("a", "b", "x", "y")
        bad, failed_cfg = [], []
        for _, what, t, extra in ev:
            if what == "start" and _hp(extra, keys) in failed_cfg:
                bad.append((t, _hp(extra, keys)))
            if what == "fail":
                failed_cfg.append(_hp(backend.rec[t].config, keys))
        M.check(T_NOREP, not bad, ctx, reason="a trial was started with the configuration of a failed trial", started=bad, **det)
    # --- the others
    M.check(T_OTHERS, not backend.starved, ctx, reason="trials in progress were not polled (poll number, trials)", starved=backend.starved[:5], **det)
    if error is None:
        left = [t for t, r in backend.rec.items() if r.status == Status.in_progress]
        M.check(T_OTHERS, not left, ctx, reason="trials still in progress after the run returned", trials=left, **det)
    # --- the limit
    nf, nout, mf = len(failed), len(outside), spec["max_failures"]
    exhausted = any(c == ("suggest", None) for c in calls)
    if nf > mf:
        M.check(T_LIMIT, error is not None and not stuck, ctx, reason="more failed trials than max_failures, but the run returned without an error", traceback=tb, **det)
        poll_exceeded = sorted(p for p, what, _, _ in ev if what == "fail")[mf]
        M.check(T_LIMIT, backend.polls <= poll_exceeded + 1, ctx, reason="the run went on polling for more than one round after the limit was exceeded", exceeded_in_poll=poll_exceeded, **det)
        if error is not None and not stuck:
            ids = {int(x) for x in re.findall(r"\d+", str(error))}
            started = set(backend.rec)
            ok = bool(ids & set(failed)) and not ((ids & started) - set(failed))
            M.check(T_NAMES, ok, ctx, reason="error message does not name a failed trial (or names a trial that did not fail)", numbers_in_message=sorted(ids), traceback=tb, **det)
    elif nf + nout <= mf or nout == 0:
        ok = error is None and (len(backend.rec) >= spec["n_start"] or exhausted)
        M.check(GOES_ON, ok, ctx, reason=("run raised" if error is not None else "run returned before its stop criterion (%d trials started) although failures do not exceed max_failures" % spec["n_start"]), traceback=tb, space_exhausted=exhausted, **det)
    # else: failed <= max_failures < failed + stopped from outside: the statement does not say whether those count


def _part_tuner(M, tier, rs):
    quick = tier == "quick"
    six = _all6()
    n = 0

    def run(family, spec):
        ctx = dict(family=family, **{k: v for k, v in spec.items() if k != "script"})
        ctx["script"] = {"%d/run%d" % k: list(v) for k, v in spec["script"].items()}
        _tuner_scenario(M, ctx, spec)

    hows = ("fail", "stopped-outside")
    # FIFO: which trials fail x where x max_failures around the number of failures
    for who in [(0,), (1,), (3,), (0, 1), (1, 3), (0, 2, 4), (1, 2, 3, 5)]:
        for k_rep in (0, 1, 2):
            for delta in (-1, 0, 1):
                for searcher in ("random", "grid", "bayesopt"):
                    n += 1
                    if quick and n % 3 == 1:
                        continue
                    how = "fail-with-report" if (k_rep > 0 and n % 4 == 0) else "fail"
                    script = {(t, 0): (how, k_rep) for t in who}
                    if n % 5 == 0:
                        script[(6, 0)] = ("stopped-outside", k_rep)
                    mf = max(0, len(who) + delta)
                    finite = searcher != "random" or n % 2 == 0
                    spec = dict(scheduler="fifo", searcher=searcher, finite=finite, allow_dup=(searcher != "grid" and n % 4 < 2), restrict=None, workers=1 + n % 3, script=script, max_failures=mf + (1 if (6, 0) in script and delta >= 0 else 0), n_start=12, seed=n % 11, epochs=3)
                    run("tuner-fifo", spec)
    # several trials fail in one and the same poll: the number of failures jumps past max_failures
    for mf in (0, 1, 2, 3):
        for W in (3, 4):
            n += 1
            script = {(t, 0): ("fail", n % 2) for t in range(3)}
            spec = dict(scheduler="fifo", searcher="random", finite=False, allow_dup=False, restrict=None, workers=W, script=script, max_failures=mf, n_start=12, seed=n % 11, epochs=3)
            run("tuner-fifo-simultaneous-failures", spec)
    # FIFO over few allowed configurations: all of them fail, the space is used up
    for k in range(3 if quick else 12):
        size = 1 + k % 3
        restrict = [six[int(i)] for i in sorted(np.random.RandomState(70 + k).choice(6, size=size, replace=False))]
        script = {(t, 0): ("fail", t % 2) for t in range(0, 30)}
        spec = dict(scheduler="fifo", searcher=("random", "bayesopt")[k % 2], finite=True, allow_dup=True, restrict=restrict, workers=1 + k % 2, script=script, max_failures=50, n_start=20, seed=k, epochs=2)
        run("tuner-fifo-all-allowed-fail", spec)
    # multi-fidelity and population schedulers
    def mf_specs():
        yield dict(scheduler="hyperband", type="stopping", searcher="random")
        yield dict(scheduler="hyperband", type="promotion", searcher="random")
        yield dict(scheduler="hyperband", type="stopping", searcher="bayesopt", searcher_data="all")
        yield dict(scheduler="hyperband", type="promotion", searcher="bayesopt", brackets=2)
        yield dict(scheduler="sync", systems=[[(3, 1), (1, 3)]], searcher="random")
        yield dict(scheduler="sync", systems=[[(4, 1), (2, 2), (1, 4)]], searcher="bayesopt")
        yield dict(scheduler="geometric", searcher="random")
        yield dict(scheduler="dehb", first=[(9, 1), (3, 3), (1, 9)], searcher="random_encoded")
        yield dict(scheduler="dehb", first=[(9, 1), (3, 3), (1, 9)], searcher="random_encoded", pause_resume=False)
        yield dict(scheduler="pbt", searcher="random")
        yield dict(scheduler="moasha", searcher="random")
        yield dict(scheduler="median", searcher="random")

    def constrain(base, script):
        """synchronous schedulers: keep at least as many survivors in every rung as the next rung has slots (the
        other case is the family of clause T_SYNC_FEW): new trials come in blocks of the size of the base rung"""
        kind = base["scheduler"]
        if kind not in ("sync", "geometric", "dehb"):
            return dict(script)
        rungs = base["systems"][0] if kind == "sync" else [(9, 1), (3, 3), (1, 9)]
        block, spare0 = rungs[0][0], rungs[0][0] - rungs[1][0]
        out = {}
        for (t, run), v in script.items():
            if kind == "dehb" and t >= block:
                continue
            if run == 0 and t % block < spare0:
                out[(t, run)] = v
            elif run == 1 and t % block == 1 and len(rungs) > 2 and not (kind == "dehb" and not base.get("pause_resume", True)):
                out[(t, run)] = v
            elif run == 1 and len(rungs) == 2:
                out[(t, run)] = v
            elif run >= 2:
                out[(t, run)] = v
        return out

    placements = [
        {(0, 0): ("fail", 0)}, {(1, 0): ("fail", 1)}, {(2, 0): ("stopped-outside", 0)}, {(0, 0): ("fail", 0), (4, 0): ("fail", 1)},
        {(1, 0): ("fail", 0), (3, 0): ("stopped-outside", 1), (6, 0): ("fail", 0)},
        {(t, 1): ("fail", 0) for t in range(0, 12, 3)}, {(t, 1): ("fail", 1) for t in range(1, 12, 3)}, {(t, 1): ("stopped-outside", 0) for t in range(2, 12, 3)},
        {(0, 0): ("fail", 0), **{(t, 1): ("fail", 1) for t in range(1, 12, 3)}}, {(t, 2): ("fail", 0) for t in range(0, 12)},
    ]
    for base in mf_specs():
        for pi, script in enumerate(placements):
            for delta in (-1, 0, 2):
                n += 1
                if quick and (n % 3 == pi % 3):
                    continue
                script = constrain(base, script)
                nfail = sum(1 for v in script.values() if v[0] != "stopped-outside")
                nout = len(script) - nfail
                mf = max(0, nfail + delta) + (nout if delta >= 0 else 0)
                W = 3 if base["scheduler"] in ("sync", "geometric") else 2 + n % 3
                spec = dict(base, workers=W, script=dict(script), max_failures=mf, n_start=22 if base["scheduler"] in ("dehb", "geometric") else 14, seed=n % 11, mode=("min", "max")[n % 2], max_polls=900)
                run("tuner-" + base["scheduler"] + ("-" + base["type"] if "type" in base else ""), spec)
    # random scripts
    for k in range(60 if quick else 500):
        base = list(mf_specs())[k % 12] if k % 4 else dict(scheduler="fifo", searcher=("random", "grid", "bayesopt")[k % 3], finite=True, allow_dup=bool(k % 8 < 4) and k % 3 != 1, restrict=None, epochs=3)
        script = {}
        for t in range(14):
            if rs.rand() < 0.25:
                script[(t, 0)] = (hows[int(rs.rand() < 0.2)], int(rs.randint(0, 3)))
        for t in range(14):
            if rs.rand() < 0.2:
                script[(t, 1)] = (hows[int(rs.rand() < 0.2)], int(rs.randint(0, 2)))
        script = constrain(base, script)
        nfail = sum(1 for v in script.values() if v[0] != "stopped-outside")
        mf = int(rs.choice([0, 1, max(0, nfail - 1), nfail, nfail + 3, 50]))
        W = 3 if base["scheduler"] in ("sync", "geometric") else int(rs.randint(1, 5))
        spec = dict(base, workers=W, script=script, max_failures=mf, n_start=int(rs.randint(8, 24)), seed=int(rs.randint(0, 10 ** 4)), mode=("min", "max")[k % 2], max_polls=900)
        run("tuner-random", spec)
    # synchronous rung with too few survivors: the scheduler promotes a failed trial (documented), the tuner has to cope
    few = [
        (dict(scheduler="sync", systems=[[(3, 1), (2, 2), (1, 4)]], searcher="random"), {(0, 0): ("fail", 0), (1, 0): ("fail", 0)}),
        (dict(scheduler="geometric", searcher="random"), {(t, 1): ("fail", 1) for t in range(0, 9)}),
        (dict(scheduler="sync", systems=[[(2, 1), (1, 2)]], searcher="random"), {(0, 0): ("fail", 0), (1, 0): ("fail", 0)}),
    ]
    for k, (base, script) in enumerate(few if not quick else few[:2]):
        spec = dict(base, workers=3, script=script, max_failures=50, n_start=14, seed=k, mode="min", max_polls=900, own_clause=T_SYNC_FEW)
        run("tuner-sync-too-few-survivors", spec)


# ---------------------------------------------------------------------------------------------------------------
def monitor_failures(tier="quick", seed=0):
    tier = "thorough" if tier == "thorough" else "quick"
    rs = np.random.RandomState(seed)
    M = Recorder()
    old_level = logging.root.manager.disable
    old_env = os.environ.get("SYNETUNE_FOLDER")
    tmp = tempfile.mkdtemp(prefix="c13-native-")
    os.environ["SYNETUNE_FOLDER"] = tmp
    logging.disable(logging.CRITICAL)
    try:
        with contextlib.redirect_stderr(io.StringIO()), contextlib.redirect_stdout(io.StringIO()):
            _lib()
            for part in (_part_searchers, _part_hyperband, _part_sync, _part_others, _part_tuner):
                part(M, tier, np.random.RandomState(int(rs.randint(0, 2 ** 31 - 1))))
    finally:
        logging.disable(old_level)
        if old_env is None:
            os.environ.pop("SYNETUNE_FOLDER", None)
        else:
            os.environ["SYNETUNE_FOLDER"] = old_env
        shutil.rmtree(tmp, ignore_errors=True)
    empty = [c for c in CLAUSES if M.counts[c] == 0]
    serious = [v for v in M.viol if v["clause"] not in KNOWN_OPEN]
    if empty and not serious:
        raise RuntimeError("clauses without a single check (an empty check must not look green): %s" % empty)
    quick = tier == "quick"
    summary = (
        "tier=%s seed=%d; %d scenarios (%s); bounds: finite space of 6 configurations / 1-3 allowed configurations, <= %d suggestions; "
        "HyperbandScheduler stopping/promotion x random/GP searcher, rung levels 1,3|9 and 1,2,4|8, 1-2 brackets, 2-5 workers, <= %d events; "
        "synchronous Hyperband (custom + geometric systems, <= 4 rungs) and DEHB ((9,1),(3,3),(1,9) / (8,1),(4,2),(2,4),(1,8)), 1-5 workers, <= %d events, "
        "every placement of 1-2 failing jobs among the first %d jobs x before / between reports; PBT, MOASHA, median rule 2-6 workers <= 220 events; "
        "Tuner.run on a scripted in-memory back end: 12 scheduler set-ups x 10 failure placements (before first report / between reports / after 1st and 2nd resume / "
        "stopped from outside) x max_failures = failures-1, failures, failures+2, 1-4 workers, <= 24 trials; known-open families kept apart: %s; checks per clause: %s"
        + ("; NOT exercised because scenarios ended early at the violations reported: %s" % empty if empty else "")
    ) % (tier, seed, M.distinct, ", ".join("%s %d" % (k, v) for k, v in sorted(M.stats.items()) if " failure " not in k and not k.startswith("tuner fail") and not k.startswith("tuner stopped")), 19, 160, 260, 6 if quick else 8, sorted(KNOWN_OPEN), M.counts)
    return {"evaluations": int(sum(M.counts.values())), "distinct": int(M.distinct), "clauses": list(CLAUSES), "violations": M.viol, "samples": M.samples[:4], "summary": summary}
