"""C13 (native monitor) -- trial failures are contained.

``monitor_failures(tier, seed)`` drives the REAL classes of the library (``Tuner`` on an in-memory ``TrialBackend``,
``FIFOScheduler`` with random / grid / GP searchers, ``HyperbandScheduler`` stopping / promotion with random and GP
multi-fidelity searcher, ``SynchronousHyperbandScheduler`` / geometric / DEHB, ``PopulationBasedTraining``, ``MOASHA``,
``MedianStoppingRule``) through a bounded catalogue of failure scenarios (enumerated small cases + seed dependent
random ones) and checks after every step the clauses of the PROPERTY STATEMENT against a reference written here:

  * the scheduler is told about every failure (and every stop from outside) exactly once, by ``on_trial_error``, and
    hears nothing else about that trial afterwards;
  * nothing raises: neither the notification nor any later suggestion / decision;
  * a failed trial is never resumed, a failed configuration is never suggested again by a searcher that promises it
    (RandomSearcher / GP searchers: always; GridSearcher: only with ``allow_duplicates=False``, its documented
    promise), and when only failed (or used) configurations remain the answer is ``None``;
  * the book-keeping of all OTHER trials is the same before and after the notification (pending evaluations and
    observed data of the GP searcher state, rung entries, running records, bracket slots, population records), the
    failed trial itself has no pending evaluation / pending slot left and is listed as failed;
  * a synchronous bracket treats the failed job as a (worst) result: the rung completes, the best survivors are
    promoted (a bracket-by-bracket reference model of "jobs go to the first open bracket with a free slot, a rung of
    size k is filled with a top-k set of the rung below" predicts every job);
  * ``Tuner(max_failures=k)``: up to k failed trials the run goes on until its stop criterion (or until the
    configuration space is used up), without an error; with more than k it ends with an error naming a failed trial.

What the statement leaves open is left open here: ties at a promotion / stopping threshold (metric equal to the
quantile up to round-off) may go either way; whether the failed trial's OWN earlier rung entries stay in the rung is
free (decisions are accepted if they are right with or without them); if a rung has fewer survivors than the next rung
has slots, the remaining slots may go to any failed trial of that rung (documented in ``get_top_list``); the order in
which promoted trials are resumed is free; trials stopped from outside are notified like failures, whether they count
against ``max_failures`` is not checked (scenarios are chosen so that the verdict does not depend on it); rejection
sampling may give up after its documented number of retries, so "still suggests" is only demanded where the chance of
100 (50) rejected draws in a row is below 1e-9.

Clauses with scenarios of their own (``KNOWN_OPEN``) are families in which the unchanged tree does not follow the
statement; they are kept apart so that every other clause stays meaningful.

Bounded stand-in, never counted as proved.
"""
import sys

sys.modules.setdefault("yahpo_gym", None)

import contextlib
import io
import itertools
import logging
import os
import re
import shutil
import tempfile
import traceback
from datetime import datetime

import numpy as np

METRIC = "obj"
METRIC2 = "obj2"
RESOURCE = "epoch"
MRA = "epochs"
MAX_VIOL = 5

# ---------------------------------------------------------------------------------------------------------------
# clause names
# ---------------------------------------------------------------------------------------------------------------
T_ONCE = "tuner/scheduler-told-exactly-once-by-on_trial_error-per-failed-or-externally-stopped-trial"
T_QUIET = "tuner/scheduler-hears-nothing-more-about-a-trial-after-its-failure-and-no-error-for-healthy-trials"
T_GOES_ON = "tuner/run-goes-on-to-its-stop-criterion-without-error-while-failures-do-not-exceed-max_failures"
T_LIMIT = "tuner/run-ends-with-an-error-once-failures-exceed-max_failures"
T_NAMES = "tuner/error-for-exceeded-limit-names-a-trial-that-failed"
T_NORESUME = "tuner/failed-or-externally-stopped-trial-is-never-resumed"
T_NOREP = "tuner/configuration-of-a-failed-trial-is-not-started-again-when-searcher-promises-no-repeats"
T_OTHERS = "tuner/every-other-trial-is-served-to-its-scripted-end-or-the-scheduler-s-decision"
S_NOEXC = "searcher/notification-and-later-suggestions-raise-no-exception"
S_NOREP = "searcher/failed-configuration-is-never-suggested-again-when-no-repeats-are-promised"
S_NONE = "searcher/answer-is-none-when-only-failed-or-used-configurations-remain"
S_SOME = "searcher/still-suggests-while-an-allowed-configuration-that-did-not-fail-remains"
G_GONE = "gp-state/failed-trial-has-no-pending-evaluation-left"
G_KEEP = "gp-state/pending-evaluations-of-all-other-trials-are-untouched-by-the-failure"
G_LISTED = "gp-state/failed-trial-is-listed-as-failed-and-no-other-trial-is"
G_DATA = "gp-state/observed-data-of-all-trials-is-untouched-by-the-failure"
H_NOEXC = "hyperband/notification-and-later-decisions-raise-no-exception"
H_RUNGS = "hyperband/rung-entries-of-all-other-trials-are-untouched-by-the-failure"
H_RUNNING = "hyperband/running-records-of-all-other-trials-are-untouched-by-the-failure"
H_CLEAN = "hyperband/failed-trial-is-no-longer-recorded-as-running"
H_NORESUME = "hyperband/failed-trial-is-never-resumed-and-only-paused-trials-are"
H_DECIDE = "hyperband/stop-continue-pause-decisions-for-other-trials-follow-the-rung-rule-after-failures"
H_PROMO = "hyperband/resumed-trial-meets-the-promotion-quantile-of-its-rung-after-failures"
Y_NOEXC = "sync/notification-and-later-decisions-raise-no-exception"
Y_SLOT = "sync/failed-job-leaves-no-pending-slot-and-its-rung-slot-counts-as-reported"
Y_OTHERS = "sync/pending-slots-and-rung-entries-of-all-other-trials-are-untouched-by-the-failure"
Y_NOWAIT = "sync/rung-with-a-failed-job-completes-and-the-next-job-is-the-promotion-the-rule-prescribes"
Y_NOFAILED = "sync/failed-trial-is-not-promoted-while-enough-survivors-exist"
Y_JOBS = "sync/every-job-goes-to-the-first-open-bracket-with-a-free-slot-at-that-rung-s-level"
Y_DECIDE = "sync/trial-continues-below-and-pauses-or-stops-exactly-at-its-rung-level-after-failures"
D_FEW = "dehb/keeps-serving-jobs-without-raising-when-a-rung-has-fewer-survivors-than-the-next-rung-has-slots"
D_POOL = "dehb/keeps-serving-jobs-without-raising-when-jobs-fail-before-three-have-succeeded"
P_NOEXC = "pbt/notification-and-later-decisions-raise-no-exception"
P_OTHERS = "pbt/population-records-of-all-other-trials-are-untouched-by-the-failure"
P_DECIDE = "pbt/decisions-for-other-trials-stay-continue-or-stop-and-stop-at-max-resource"
P_SOURCE = "pbt/no-trial-is-told-to-start-from-the-checkpoint-of-a-failed-trial"
M_NOEXC = "moasha-median/notification-and-later-decisions-raise-no-exception"
M_OTHERS = "moasha-median/recorded-results-of-all-other-trials-are-untouched-by-the-failure"
M_DECIDE = "moasha-median/decisions-for-other-trials-are-those-of-a-run-in-which-the-failed-trial-just-went-silent"
M_MEDIAN_NOREP = "median-rule/failed-configuration-is-never-suggested-again-when-the-wrapped-searcher-promises-it"

CLAUSES = [
    T_ONCE, T_QUIET, T_GOES_ON, T_LIMIT, T_NAMES, T_NORESUME, T_NOREP, T_OTHERS,
    S_NOEXC, S_NOREP, S_NONE, S_SOME, G_GONE, G_KEEP, G_LISTED, G_DATA,
    H_NOEXC, H_RUNGS, H_RUNNING, H_CLEAN, H_NORESUME, H_DECIDE, H_PROMO,
    Y_NOEXC, Y_SLOT, Y_OTHERS, Y_NOWAIT, Y_NOFAILED, Y_JOBS, Y_DECIDE, D_FEW, D_POOL,
    P_NOEXC, P_OTHERS, P_DECIDE, P_SOURCE, M_NOEXC, M_OTHERS, M_DECIDE, M_MEDIAN_NOREP,
]
# families of their own: the unchanged tree is known (or suspected) not to follow the statement there
KNOWN_OPEN = {D_FEW, D_POOL, P_SOURCE, M_MEDIAN_NOREP}


class _Abort(Exception):
    """ends a scenario after a fatal discrepancy (the reference is no longer in step with the library)"""


class Recorder:
    def __init__(self):
        self.counts = {c: 0 for c in CLAUSES}
        self.viol = []
        self.nviol = {c: 0 for c in CLAUSES}
        self.samples = []
        self.distinct = 0
        self.stats = {}

    def scenario(self, ctx):
        self.distinct += 1
        fam = ctx.get("family", "?")
        self.stats[fam] = self.stats.get(fam, 0) + 1

    def sample(self, ctx):
        if len(self.samples) < 4 and all(s.get("family") != ctx.get("family") for s in self.samples):
            self.samples.append(_js(ctx))

    def check(self, clause, ok, ctx, **details):
        self.counts[clause] += 1
        if ok:
            return True
        self.nviol[clause] += 1
        if self.nviol[clause] <= MAX_VIOL:
            v = {"clause": clause}
            v.update(_js(ctx))
            v.update(_js(details))
            self.viol.append(v)
        return False


def _js(x):
    """json-serialisable copy"""
    if isinstance(x, dict):
        return {str(k): _js(v) for k, v in x.items()}
    if isinstance(x, (list, tuple, set, frozenset)):
        xs = list(x)
        if isinstance(x, (set, frozenset)):
            xs = sorted(xs, key=str)
        return [_js(v) for v in xs]
    if isinstance(x, (np.integer,)):
        return int(x)
    if isinstance(x, (np.floating,)):
        return float(x)
    if isinstance(x, (np.bool_,)):
        return bool(x)
    if x is None or isinstance(x, (int, float, str, bool)):
        return x
    return str(x)


_LIB = None


def _lib():
    global _LIB
    if _LIB is None:
        with contextlib.redirect_stdout(io.StringIO()), contextlib.redirect_stderr(io.StringIO()):
            from syne_tune import Tuner
            from syne_tune.backend.trial_backend import TrialBackend
            from syne_tune.backend.trial_status import Status, Trial, TrialResult
            from syne_tune.config_space import choice, randint, uniform
            from syne_tune.constants import ST_WORKER_TIMESTAMP
            from syne_tune.optimizer.scheduler import SchedulerDecision
            from syne_tune.optimizer.schedulers import (
                FIFOScheduler,
                HyperbandScheduler,
                MedianStoppingRule,
                PopulationBasedTraining,
            )
            from syne_tune.optimizer.schedulers.multiobjective.moasha import MOASHA
            from syne_tune.optimizer.schedulers.synchronous import (
                DifferentialEvolutionHyperbandScheduler,
                SynchronousGeometricHyperbandScheduler,
                SynchronousHyperbandScheduler,
            )
            from syne_tune.optimizer.schedulers.synchronous.hyperband_rung_system import (
                SynchronousHyperbandRungSystem,
            )
        _LIB = dict(locals())
    return _LIB


def _trial(trial_id, config):
    return _lib()["Trial"](trial_id=trial_id, config=dict(config), creation_time=datetime(2024, 1, 1))


def _hp(config, keys=("a", "b", "x", "y")):
    """the hyper-parameter part of a configuration (schedulers append epochs / trial_id / elapsed_time)"""
    return tuple((k, config[k]) for k in keys if k in config)


def _tb():
    return traceback.format_exc()[-900:]


def _close(a, b):
    return abs(a - b) <= 1e-12 * max(1.0, abs(a), abs(b))


# ---------------------------------------------------------------------------------------------------------------
# searcher state of the GP searchers (single- and multi-fidelity): pending evaluations, failed list, observed data
# ---------------------------------------------------------------------------------------------------------------
def _gp_state(scheduler):
    searcher = getattr(scheduler, "searcher", None)
    st = getattr(searcher, "state_transformer", None)
    if st is None:
        return None
    state = st.state
    pending = sorted((str(e.trial_id), None if e.resource is None else int(e.resource)) for e in state.pending_evaluations)
    data = {}
    for ev in state.trials_evaluations:
        data[str(ev.trial_id)] = {
            str(name): ({str(k): float(v) for k, v in val.items()} if isinstance(val, dict) else float(val))
            for name, val in ev.metrics.items()
        }
    return {"pending": pending, "failed": [str(t) for t in state.failed_trials], "data": data}


def _check_gp_failure(M, ctx, before, after, tid, failed_before, step):
    """clauses on the GP searcher state around ONE ``on_trial_error(tid)``"""
    if before is None or after is None:
        return
    tid = str(tid)
    det = {"step": step, "failed_trial": tid}
    M.check(G_GONE, all(t != tid for t, _ in after["pending"]), ctx, reason="failed trial still has pending evaluations", pending_after=after["pending"], **det)
    ob = [p for p in before["pending"] if p[0] != tid]
    oa = [p for p in after["pending"] if p[0] != tid]
    M.check(G_KEEP, ob == oa, ctx, reason="pending evaluations of other trials changed", others_before=ob, others_after=oa, **det)
    M.check(G_LISTED, tid in after["failed"] and set(after["failed"]) == set(failed_before) | {tid}, ctx, reason="failed list is not (previous failures + this trial)", failed_after=after["failed"], failed_expected=sorted(set(failed_before) | {tid}), **det)
    M.check(G_DATA, before["data"] == after["data"], ctx, reason="observed data changed", data_before=before["data"], data_after=after["data"], **det)


# ---------------------------------------------------------------------------------------------------------------
# part A: FIFOScheduler with random / grid / GP searcher over a finite space: failed configurations
# ---------------------------------------------------------------------------------------------------------------
def _all6():
    return [{"a": a, "b": b} for a in ("x", "y", "z") for b in (0, 1)]


def _fin_space():
    L = _lib()
    return {"a": L["choice"](["x", "y", "z"]), "b": L["randint"](0, 1)}


def _searcher_scenario(M, ctx, spec):
    """spec: searcher, allow_dup, restrict (list or None), p2e, fail (set of trial ordinals, or 'all'), point
    ('before' | 'between'), workers, n_ask, seed"""
    L = _lib()
    M.scenario(ctx)
    M.sample(ctx)
    name = spec["searcher"]
    allow_dup = spec["allow_dup"]
    restrict = spec["restrict"]
    options = {"debug_log": False, "allow_duplicates": allow_dup}
    if restrict is not None:
        options["restrict_configurations"] = [dict(c) for c in restrict]
    if name == "bayesopt":
        options["num_init_random"] = spec.get("num_init_random", 1000)
    kwargs = dict(searcher=name, metric=METRIC, mode="min", random_seed=spec["seed"], search_options=options)
    if spec["p2e"] is not None:
        kwargs["points_to_evaluate"] = [dict(c) for c in spec["p2e"]]
    try:
        sched = L["FIFOScheduler"](_fin_space(), **kwargs)
    except Exception:
        M.check(S_NOEXC, False, ctx, reason="constructor raised", traceback=_tb())
        return
    allowed = [_hp(c) for c in (restrict if restrict is not None else _all6())]
    promise = name in ("random", "bayesopt") or not allow_dup
    retries = 50 if name == "bayesopt" else 100
    used, failed_cfg, failed_ids = [], [], []
    trials, next_id, step = {}, 0, 0
    rs = np.random.RandomState(spec["seed"] + 17)

    def ask():
        nonlocal next_id, step
        step += 1
        det = {"step": step, "asking_for_trial": next_id, "failed_configurations": failed_cfg, "suggested_so_far": used}
        try:
            sugg = sched.suggest(next_id)
        except Exception:
            M.check(S_NOEXC, False, ctx, reason="suggest raised", traceback=_tb(), **det)
            raise _Abort()
        M.check(S_NOEXC, True, ctx)
        # what the statement demands of this answer
        if allow_dup and name == "random":
            excluded = [c for c in allowed if c in failed_cfg]
        else:
            excluded = [c for c in allowed if c in used or c in failed_cfg]
        all_failed = all(c in failed_cfg for c in allowed)
        all_used = all(c in used or c in failed_cfg for c in allowed)
        if promise and (all_failed or (not allow_dup and all_used)):
            M.check(S_NONE, sugg is None, ctx, reason="only failed (or used) configurations remain, but a configuration was suggested", got=None if sugg is None else sugg.config, **det)
        elif name == "grid" and allow_dup:
            M.check(S_SOME, sugg is not None, ctx, reason="grid with duplicates never runs out", **det)
        elif len(excluded) < len(allowed) and (name == "grid" or (len(excluded) / len(allowed)) ** retries < 1e-9):
            M.check(S_SOME, sugg is not None, ctx, reason="an allowed configuration that neither failed nor was used remains, but the answer is None", excluded=excluded, allowed=allowed, **det)
        if sugg is None:
            return None
        cfg = _hp(sugg.config)
        if promise:
            M.check(S_NOREP, cfg not in failed_cfg, ctx, reason="configuration of a failed trial suggested again", got=cfg, **det)
        used.append(cfg)
        tr = _trial(next_id, sugg.config)
        trials[next_id] = tr
        next_id += 1
        try:
            sched.on_trial_add(tr)
        except Exception:
            M.check(S_NOEXC, False, ctx, reason="on_trial_add raised", traceback=_tb(), **det)
            raise _Abort()
        return tr

    def finish(tr):
        nonlocal step
        step += 1
        tid = tr.trial_id
        fails = spec["fail"] == "all" or tid in spec["fail"]
        point = spec["point"] if spec["point"] != "mixed" else ("before", "between")[tid % 2]
        det = {"step": step, "trial": tid}
        try:
            nrep = 0 if (fails and point == "before") else (1 if fails else 2)
            res = None
            for k in range(nrep):
                res = {METRIC: float(rs.rand()), RESOURCE: k + 1}
                sched.on_trial_result(tr, dict(res))
            if fails:
                before = _gp_state(sched)
                sched.on_trial_error(tr)
                after = _gp_state(sched)
                _check_gp_failure(M, ctx, before, after, tid, [str(t) for t in failed_ids], step)
                failed_ids.append(tid)
                if _hp(tr.config) not in failed_cfg:
                    failed_cfg.append(_hp(tr.config))
            else:
                sched.on_trial_complete(tr, dict(res))
        except _Abort:
            raise
        except Exception:
            M.check(S_NOEXC, False, ctx, reason="report / completion / failure notification raised", traceback=_tb(), fails=fails, **det)
            raise _Abort()
        M.check(S_NOEXC, True, ctx)

    try:
        asked, done = 0, False
        while asked < spec["n_ask"] and not done:
            wave = []
            for _ in range(spec["workers"]):
                if asked >= spec["n_ask"]:
                    break
                asked += 1
                tr = ask()
                if tr is None:
                    # the answer None must be stable: ask once more, then stop
                    if asked < spec["n_ask"]:
                        asked += 1
                        ask()
                    done = True
                    break
                wave.append(tr)
            order = list(range(len(wave)))
            rs.shuffle(order)
            for i in order:
                finish(wave[i])
    except _Abort:
        pass


def _part_searchers(M, tier, rs):
    quick = tier == "quick"
    six = _all6()
    n = 0
    # enumerated: searcher x allow_duplicates x restrict_configurations x failure pattern x workers
    masks = [set(m for m in range(3) if (bits >> m) & 1) for bits in range(8)] + ["all"]
    for name in ("random", "bayesopt", "grid"):
        for allow_dup in (False, True):
            sizes = (None,) if name == "grid" else (None, 1, 2, 3)
            for size in sizes:
                for mi, mask in enumerate(masks):
                    for W in (1, 2) if quick else (1, 2, 3):
                        n += 1
                        if name == "bayesopt" and quick and (n % 2 == 0) and mask != "all":
                            continue
                        restrict = None
                        if size is not None:
                            idx = sorted(int(i) for i in np.random.RandomState(1000 + n).choice(6, size=size, replace=False))
                            restrict = [six[i] for i in idx]
                        nallowed = 6 if restrict is None else size
                        spec = dict(searcher=name, allow_dup=allow_dup, restrict=restrict, p2e=[] if (n % 3 or restrict is not None) else None, fail=mask, point=("before", "between", "mixed")[n % 3], workers=W, n_ask=nallowed * (2 if allow_dup else 1) + 4, seed=n % 7)
                        ctx = dict(family="searcher-enumerated", **{k: (sorted(v) if isinstance(v, set) else v) for k, v in spec.items()})
                        _searcher_scenario(M, ctx, spec)
    # random: random failure sets over longer runs
    for k in range(40 if quick else 300):
        name = ("random", "bayesopt", "grid")[k % 3]
        allow_dup = bool(rs.randint(2))
        size = None if name == "grid" or rs.rand() < 0.3 else int(rs.randint(1, 6))
        restrict = None if size is None else [six[int(i)] for i in sorted(rs.choice(6, size=size, replace=False))]
        pfail = float(rs.choice([0.2, 0.5, 0.8, 1.0]))
        n_ask = int(rs.randint(6, 20))
        fail = {int(i) for i in np.nonzero(rs.rand(n_ask) < pfail)[0]}
        spec = dict(searcher=name, allow_dup=allow_dup, restrict=restrict, p2e=[] if (rs.rand() < 0.5 or restrict is not None) else None, fail=fail, point="mixed", workers=int(rs.randint(1, 4)), n_ask=n_ask, seed=int(rs.randint(0, 10 ** 4)))
        ctx = dict(family="searcher-random", **{k: (sorted(v) if isinstance(v, set) else v) for k, v in spec.items()})
        _searcher_scenario(M, ctx, spec)
    # model-based suggestions (GP is fitted): failed configurations are excluded there too
    for k in range(1 if quick else 4):
        spec = dict(searcher="bayesopt", allow_dup=bool(k % 2), restrict=None, p2e=[], fail={1, 2} if k < 2 else {0, 3}, point="mixed", workers=1, n_ask=6, seed=k, num_init_random=2)
        ctx = dict(family="searcher-model-based", **{k2: (sorted(v) if isinstance(v, set) else v) for k2, v in spec.items()})
        _searcher_scenario(M, ctx, spec)
