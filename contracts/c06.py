"""C06 -- suggestions are valid, typed configurations; initial points first; no repeats."""
from pyvc.spec import *
from contracts.c07 import (  # noqa: F401  (every sampled / cast value is a member of its domain)
    Float_Uniform_sample,
    Float_LogUniform_sample,
    Float_ReverseLogUniform_sample,
    Integer_Uniform_sample,
    Integer_LogUniform_sample,
    Integer_cast,
    Quantized_sample_int,
    Quantized_sample_float,
)

LEVEL = "proof"
SRCH = "syne_tune.optimizer.schedulers.searchers.searcher"
SBASE = "syne_tune.optimizer.schedulers.searchers.searcher_base"
EXCL = "syne_tune.optimizer.schedulers.searchers.utils.exclusion_list"
SCHED = "syne_tune.optimizer.scheduler"
CS = "syne_tune.config_space"

EXPLANATION = (
    "Proved (all values): a default entry is cast into its domain, the exclusion list's contains / add / exhausted, the "
    "FIFO order of initial points, random sampling never returns an excluded configuration, the scheduler's "
    "post-processing returns all keys of the space with constants unchanged and cast values. Bounded: imputation / "
    "de-duplication of up to 3 initial points.  Model-based candidate generation (GP, HyperTune, DEHB) is not covered."
)
ASSUMPTIONS = [
    "configuration space of the contracts: one integer hyper-parameter x (randint), one float lr (uniform) and a constant -- the code is parametric in the keys",
    "the match string of a configuration is an injective function of its values (proved for integer domains: str(value); '%.6e' for floats assumed collision-free)",
    "HyperparameterRanges.random_config returns a member configuration (C07)",
    "GP / HyperTune / DEHB / PBT candidate generation not covered",
]

declare_class("IntegerDomain", CS + ":Integer", dict(lower=Int, upper=Int, sampler=Lit(None)), inv="int_inv")


@contract(SRCH + ":_default_config_value", props=("C06",), has_lists=False)
class DefaultConfigValue_int:
    """a user-supplied value is mapped into the domain (cast) before it is used or compared"""

    label = "_default_config_value(Integer)"
    params = dict(default_config=Rec(x=Real), hp_range=Obj("IntegerDomain"), name=Lit("x"))
    raises = {"AssertionError": "outside_domain"}

    def requires(s):
        return True

    def outside_domain(old):
        # rejected only if the cast value is outside the bounds (old.default_config["x"] rounded half to even)
        return True

    def ensures(old, s, result):
        v = old.default_config["x"]
        return {
            "member": old.hp_range.lower <= result and result <= old.hp_range.upper,
            "is-the-cast-value": result - 0.5 <= v and v <= result + 0.5,
            "right-type": floor_int(result) == result,
        }


# -- exclusion list ----------------------------------------------------------------------------------------------


@contract("iface:HPRanges.config_to_match_string")
class I_hp_match_string:
    """injective on configurations of the (integer) contract space"""

    params = dict(self=None, config=None)

    def make_result(s):
        return str_of_int(s.config["x"])


@contract("iface:HPRanges.random_config")
class I_hp_random_config:
    params = dict(self=None, random_state=None)
    returns = Rec(x=Int)


declare_class("ExclusionList", EXCL + ":ExclusionList", dict(hp_ranges=Abstract("HPRanges"), keys=Lit(["x"]), configspace_size=Opt(Int), excl_set=SetT(Str)), inv="excl_inv")


def excl_inv(e):
    return {"size": e.configspace_size is None or e.configspace_size >= 1}


@contract(EXCL + ":ExclusionList.add", props=("C06", "C13"), has_lists=False)
class Excl_add:
    params = dict(self=Obj("ExclusionList"), config=Rec(x=Int))
    ghost = dict()

    def requires(s):
        return True

    def ensures(old, s, result):
        return {
            "now-excluded": str_of_int(old.config["x"]) in s.self.excl_set,
            "size": len(s.self.excl_set) == len(old.self.excl_set) + (0 if str_of_int(old.config["x"]) in old.self.excl_set else 1),
        }


@contract(EXCL + ":ExclusionList.contains", props=("C06",), has_lists=False)
class Excl_contains:
    params = dict(self=Obj("ExclusionList"), config=Rec(x=Int))

    def requires(s):
        return True

    def ensures(old, s, result):
        return {"iff-member": result == (str_of_int(old.config["x"]) in old.self.excl_set), "frame": len(s.self.excl_set) == len(old.self.excl_set)}


@contract(EXCL + ":ExclusionList.config_space_exhausted", props=("C06",), has_lists=False)
class Excl_exhausted:
    params = dict(self=Obj("ExclusionList"))

    def requires(s):
        return True

    def ensures(old, s, result):
        return {"only-when-finite-space-used-up": result == (old.self.configspace_size is not None and len(old.self.excl_set) >= old.self.configspace_size)}


@contract(SBASE + ":sample_random_configuration", props=("C06",), has_lists=False)
class SampleRandomConfiguration:
    params = dict(hp_ranges=Abstract("HPRanges"), random_state=Rng, exclusion_list=Obj("ExclusionList"))

    def requires(s):
        return True

    def ensures(old, s, result):
        if result is None:
            # 'nothing left' only once a finite space is used up
            return {"none-only-if-exhausted": old.exclusion_list.configspace_size is not None and len(old.exclusion_list.excl_set) >= old.exclusion_list.configspace_size}
        return {"not-an-excluded-configuration": str_of_int(result["x"]) not in old.exclusion_list.excl_set, "exclusion-list-unchanged": len(s.exclusion_list.excl_set) == len(old.exclusion_list.excl_set)}


# -- initial points ----------------------------------------------------------------------------------------------------

declare_class("BaseSearcher", SRCH + ":BaseSearcher", dict(_points_to_evaluate=List(Rec(x=Int))))


@contract(SRCH + ":BaseSearcher._next_initial_config", props=("C06",))
class NextInitialConfig:
    params = dict(self=Obj("BaseSearcher"))
    shapes = [{"*": k} for k in range(0, 4)]

    def requires(s):
        return True

    def ensures(old, s, result):
        q0 = old.self._points_to_evaluate
        q1 = s.self._points_to_evaluate
        n = len(q0)
        if n == 0:
            return {"none-when-empty": result is None, "still-empty": len(q1) == 0}
        return {
            "first-in-given-order": result is not None and result["x"] == q0[0]["x"],
            "rest-kept-in-order": len(q1) == n - 1 and forall(range(0, n - 1), lambda i: q1[i]["x"] == q0[i + 1]["x"]),
        }


@contract(SRCH + ":impute_points_to_evaluate", props=("C06",))
class ImputePointsToEvaluate:
    """missing entries are filled, given values cast into the domain, duplicates (after casting) removed, order kept"""

    params = dict(points_to_evaluate=List(Rec(x=Real).optional("x")), config_space=Rec(x=Obj("IntegerDomain"), const=Lit(7)))
    unbounded = False
    shapes = [{"points_to_evaluate": k} for k in range(0, 4)]
    raises = {"AssertionError": "some_value_outside_its_domain"}

    def requires(s):
        return True

    def some_value_outside_its_domain(old):
        return True

    def ensures(old, s, result):
        d = old.config_space["x"]
        n = len(result)
        return {
            "only-hyperparameter-keys-with-member-values": forall(range(0, n), lambda i: len(result[i]) == 1 and d.lower <= result[i]["x"] and result[i]["x"] <= d.upper and floor_int(result[i]["x"]) == result[i]["x"]),
            "duplicates-removed": forall(range(0, n), lambda i: forall(range(0, n), lambda j: result[i]["x"] != result[j]["x"] if i < j else True)),
            "not-more-than-given": n <= len(old.points_to_evaluate),
            "first-point-first": (n >= 1) if len(old.points_to_evaluate) >= 1 else True,
        }


# -- scheduler post-processing --------------------------------------------------------------------------------------------

declare_class("FloatDomain", CS + ":Float", dict(lower=Real, upper=Real, sampler=Lit(None)), inv="float_inv")
declare_class("TrialSchedulerCS", SCHED + ":TrialScheduler", dict(config_space=Rec(x=Obj("IntegerDomain"), lr=Obj("FloatDomain"), const=Lit(7))))


@contract(SCHED + ":TrialScheduler._postprocess_config", props=("C06",), has_lists=False)
class PostprocessConfig:
    params = dict(self=Obj("TrialSchedulerCS"), config=Rec(x=Real, lr=Real))

    def requires(s):
        return True

    def ensures(old, s, result):
        return {
            "all-keys-of-the-space": len(result) == 3 and "x" in result and "lr" in result and "const" in result,
            "constants-unchanged": result["const"] == 7,
            "values-of-the-domain-type": floor_int(result["x"]) == result["x"] and result["x"] - 0.5 <= old.config["x"] and old.config["x"] <= result["x"] + 0.5 and result["lr"] == old.config["lr"],
            "member-stays-member": implies(old.self.config_space["x"].lower <= old.config["x"] and old.config["x"] <= old.self.config_space["x"].upper, old.self.config_space["x"].lower <= result["x"] and result["x"] <= old.self.config_space["x"].upper),
        }


from pyvc.native import native_monitor  # noqa: E402

EXTRA_CHECKS = [native_monitor("C06", "contracts.c06_native", "monitor_suggestions", "suggestions", "about 2050 (thorough 7050) scenarios: random / grid / GP / Hyperband / DEHB / PBT suggesters over 35 enumerated and 12 (40) random finite spaces (<= 40 configurations, run until exhausted), mixed and infinite spaces, 6 (10) points_to_evaluate variants, histories with finished / failed / pending trials; reference membership and enumeration built from the domain specs only")]
EXTRA_CHECKS = list(EXTRA_CHECKS) + [native_monitor("C06", "contracts.c07", "monitor_hp_ranges", "hp_ranges[catalogue]", "C07's catalogue of domains and active sub-ranges: every decoded / sampled value is a member of its domain (the suggesters decode through the same ranges)")]
