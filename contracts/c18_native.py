"""C18 (native monitor) -- metrics reported by a training script arrive unchanged at the tuner, END TO END through
``LocalBackend``.

``monitor_backend_stream(tier, seed)`` drives the REAL classes (``syne_tune.report.Reporter``,
``syne_tune.backend.LocalBackend`` with its ``start_trial`` / ``fetch_status_results`` / ``_all_trial_results`` /
``stop_trial`` / ``stdout``) through a bounded catalogue of scenarios and compares what the back end hands to the
tuner with an independent reference: the list of dictionaries the script reported, converted to the plain JSON data
model (numpy integer -> int, numpy floating -> float, numpy bool -> bool, numpy str -> str, tuple -> list).

Two channels, one scenario language (a list of operations: report / print / sys.stdout.write / os.write(fd 1) /
child process writing to fd 1 / flush / poll / os._exit / kill by stop_trial / uncaught exception):

* ``subprocess``: the operations are executed by a real trial script (it uses ``from syne_tune import Reporter``)
  started by ``LocalBackend.start_trial`` (``rotate_gpus=False``); its stdout is the file ``std.out`` opened by the back
  end, block-buffered (``PYTHONUNBUFFERED`` is removed from the environment for the duration of the run; the script
  records the buffering mode of its ``sys.stdout`` and the monitor raises if it is not block-buffered).  The tuner side
  only polls while the script is quiescent (hand-shake through marker files) or after it ended, so that no poll can
  observe a half-written line (the statement says nothing about reports in the middle of being written).
* ``in-process``: the same operations are executed in this process with ``sys.stdout`` replaced by an ordinary file
  object opened on ``<trial path>/std.out`` (block-buffered / line-buffered / tiny buffer / unbuffered write-through)
  of a trial of a ``LocalBackend`` subclass that overrides ONLY the process launch (``_schedule`` creates the files and
  a stand-in process handle).  Everything that parses (``stdout``, ``retrieve``, ``_all_trial_results``,
  ``fetch_status_results``, ``stop_trial``, status files) is the library's code.  A hard exit / kill is simulated
  faithfully: the bytes that are in the file at that moment are what the captured output consists of (whatever is
  still in a buffer is discarded).

What the statement leaves open is left open here: dictionaries compare without key order; tuples may arrive as lists;
the counter only has to be strictly increasing (after a rejected report it may skip a value); a top-level ``None``
value and serialisations within 48..52 thousand characters of the limit may either be accepted (then they must arrive
unchanged) or be rejected (then nothing may be written); other output never contains the word ``tune-metric`` (also
not by concatenation); reports that were being written when the script was killed are not considered.

Bounded stand-in, never counted as proved.
"""
import contextlib
import io
import json
import logging
import math
import os
import shutil
import sys
import tempfile
import time
from pathlib import Path

import numpy as np

C_PLAIN = "plain-reports-arrive-exactly-once-in-order-unchanged"
C_SAMELINE = "reports-after-output-without-trailing-newline-arrive"
C_FD = "reports-followed-by-direct-fd-writes-or-child-output-arrive-uncorrupted"
C_LARGE = "large-reports-below-limit-arrive-unchanged"
C_EXIT = "reports-made-before-os-exit-arrive"
C_KILL = "reports-made-before-kill-by-stop-trial-arrive"
C_VISIBLE = "report-visible-to-next-poll-once-report-returned"
C_ONCE = "polls-deliver-each-report-exactly-once"
C_STR = "strings-with-braces-quotes-newlines-tag-unicode-arrive-unchanged"
C_NEST = "nested-lists-and-dicts-arrive-unchanged"
C_NUMPY = "numpy-scalars-arrive-as-plain-numbers-of-same-kind-and-value"
C_NUM = "nan-inf-and-extreme-numbers-arrive-unchanged"
C_KEYS = "hostile-keys-arrive-unchanged"
C_E2E_VALUES = "end-to-end-hostile-values-and-numpy-scalars-arrive-unchanged"
C_COUNTER = "report-counter-strictly-increasing"
C_TIME = "time-stamps-present-and-non-decreasing"
C_TIME_CALL = "time-stamp-taken-during-the-report-call"
C_RESERVED = "reserved-namespace-keys-rejected-and-stream-intact"
C_UNSER = "unserialisable-reports-rejected-and-stream-intact"
C_OVERSIZED = "oversized-reports-rejected-and-stream-intact"
C_AROUND = "accepted-reports-around-rejected-ones-arrive-and-nothing-else"
C_VALID = "valid-reports-are-not-rejected"
C_BORDER = "borderline-reports-arrive-unchanged-or-are-rejected-cleanly"
C_RANDOM = "random-interleavings-every-report-exactly-once-in-order-unchanged"
C_ALL = "all-trial-results-agree-with-fetched-results"
C_NONUTF8 = "other-output-with-non-utf8-bytes-does-not-block-reports"

CLAUSES = [
    C_PLAIN, C_SAMELINE, C_FD, C_LARGE, C_EXIT, C_KILL, C_VISIBLE, C_ONCE, C_STR, C_NEST, C_NUMPY, C_NUM, C_KEYS,
    C_E2E_VALUES, C_COUNTER, C_TIME, C_TIME_CALL, C_RESERVED, C_UNSER, C_OVERSIZED, C_AROUND, C_VALID, C_BORDER,
    C_RANDOM, C_ALL, C_NONUTF8,
]

MAX_STORED = 5
WORD = "tune-metric"  # cross-checked against syne_tune.constants at run time
TAG = "[" + WORD + "]: "
TRIAL_TIMEOUT = 240.0  # seconds a trial script may take before the monitor gives up (harness error, not a violation)


class HarnessError(RuntimeError):
    pass


# ----------------------------------------------------------------------------------------------------------------
# operation interpreter: the SAME source is written to the trial script and executed in-process
# ----------------------------------------------------------------------------------------------------------------
_EXEC_SRC = r'''
import json
import os
import subprocess
import sys
import time


def _mk_obj(kind):
    import numpy as np
    if kind == "object":
        return object()
    if kind == "set":
        return {1, 2}
    if kind == "bytes":
        return b"abc"
    if kind == "complex":
        return 1 + 2j
    if kind == "function":
        return len
    if kind == "ndarray":
        return np.arange(3)
    if kind == "npcomplex":
        return np.complex64(1 + 2j)
    if kind == "circular":
        a = []
        a.append(a)
        return a
    if kind == "tuplekey":
        return {(1, 2): 3}
    if kind == "datetime":
        import datetime
        return datetime.datetime(2020, 1, 1)
    raise ValueError(kind)


def dec(x):
    import numpy as np
    if isinstance(x, list):
        return [dec(v) for v in x]
    if isinstance(x, dict):
        if "__np__" in x:
            return getattr(np, x["__np__"])(x["v"])
        if "__tuple__" in x:
            return tuple(dec(v) for v in x["__tuple__"])
        if "__dict__" in x:
            return {dec(k): dec(v) for k, v in x["__dict__"]}
        if "__obj__" in x:
            return _mk_obj(x["__obj__"])
        raise ValueError("unknown marker %r" % (x,))
    return x


def run_ops(ops, reporter, fd, emit, hooks):
    for idx, op in enumerate(ops):
        kind = op[0]
        if kind == "report":
            kwargs = dec(op[1])
            t0 = time.time()
            try:
                reporter(**kwargs)
            except Exception as exc:
                emit({"i": idx, "ret": "raised", "exc": type(exc).__name__, "t0": t0, "t1": time.time()})
            else:
                emit({"i": idx, "ret": "ok", "t0": t0, "t1": time.time()})
        elif kind == "print":
            print(op[1], end=op[2])
        elif kind == "write":
            sys.stdout.write(op[1])
        elif kind == "fd":
            os.write(fd, op[1].encode("utf-8"))
        elif kind == "fdhex":
            os.write(fd, bytes.fromhex(op[1]))
        elif kind == "child":
            subprocess.run(["/bin/sh", "-c", 'printf "%s" "$1"', "sh", op[1]], stdout=fd, check=True)
        elif kind == "flush":
            sys.stdout.flush()
        elif kind == "sync":
            hooks["sync"](idx, op[1])
        elif kind == "exit":
            hooks["exit"](op[1])
            return
        elif kind == "raise":
            raise RuntimeError("training script failed (on purpose)")
        else:
            raise ValueError("unknown operation %r" % (kind,))


if __name__ == "__main__":
    import argparse

    _parser = argparse.ArgumentParser()
    _parser.add_argument("--plan", type=str)
    _args, _ = _parser.parse_known_args()
    with open(_args.plan, "r") as _f:
        _plan = json.load(_f)
    _efd = os.open(_plan["events"], os.O_WRONLY | os.O_APPEND | os.O_CREAT, 0o644)

    def _emit(event):
        os.write(_efd, (json.dumps(event) + "\n").encode("ascii"))

    import syne_tune
    from syne_tune import Reporter

    _emit({
        "start": 1,
        "env_unbuffered": os.environ.get("PYTHONUNBUFFERED"),
        "line_buffering": bool(sys.stdout.line_buffering),
        "write_through": bool(getattr(sys.stdout, "write_through", False)),
        "isatty": bool(sys.stdout.isatty()),
        "pkg": os.path.dirname(os.path.abspath(syne_tune.__file__)),
    })

    def _sync(idx, name):
        with open(os.path.join(_plan["dir"], name + ".reached"), "w"):
            pass
        ack = os.path.join(_plan["dir"], name + ".ack")
        deadline = time.time() + _plan["patience"]
        while not os.path.exists(ack):
            if time.time() > deadline:
                os._exit(97)
            time.sleep(0.004)

    def _exit(code):
        os._exit(code)

    run_ops(_plan["ops"], Reporter(**_plan["reporter"]), 1, _emit, {"sync": _sync, "exit": _exit})
    _emit({"end": 1})
'''

_NS = {"__name__": "c18_native_exec"}
exec(compile(_EXEC_SRC, "<c18-native-exec>", "exec"), _NS)
_dec = _NS["dec"]
_run_ops = _NS["run_ops"]


# ----------------------------------------------------------------------------------------------------------------
# independent reference: plain JSON data model, typed comparison
# ----------------------------------------------------------------------------------------------------------------
class Unser:
    """place holder for a value json cannot encode (built inside the interpreter)"""

    def __init__(self, kind):
        self.kind = kind

    def __repr__(self):
        return "Unser(%s)" % self.kind


def plain(v):
    """what a reported value is in the plain JSON data model (numpy scalars -> plain numbers, tuples -> lists)"""
    if isinstance(v, np.bool_):
        return bool(v)
    if isinstance(v, np.integer):
        return int(v)
    if isinstance(v, np.floating):
        return float(v)
    if isinstance(v, str):  # includes np.str_
        return str(v)
    if isinstance(v, bool) or v is None:
        return v
    if isinstance(v, int):
        return int(v)
    if isinstance(v, float):
        return float(v)
    if isinstance(v, dict):
        return {plain(k): plain(x) for k, x in v.items()}
    if isinstance(v, (list, tuple)):
        return [plain(x) for x in v]
    raise TypeError("no plain form for %r" % (v,))


def value_diff(got, want, path):
    """None if ``got`` is exactly ``want`` (same kinds: bool / int / float / str / None / list / dict, same values, NaN == NaN,
    sign of zero kept); otherwise a short description of the first difference"""
    if type(got) is not type(want):
        return "%s: expected %s %s, received %s %s" % (path, type(want).__name__, _short(want), type(got).__name__, _short(got))
    if isinstance(want, dict):
        if set(got) != set(want):
            return "%s: keys differ: expected %s, received %s" % (path, _short(sorted(want)), _short(sorted(got)))
        for k in want:
            d = value_diff(got[k], want[k], "%s[%r]" % (path, k))
            if d:
                return d
        return None
    if isinstance(want, list):
        if len(got) != len(want):
            return "%s: length differs: expected %d, received %d" % (path, len(want), len(got))
        for j, (a, b) in enumerate(zip(got, want)):
            d = value_diff(a, b, "%s[%d]" % (path, j))
            if d:
                return d
        return None
    if isinstance(want, float):
        same = (got != got and want != want) or (got == want and math.copysign(1.0, got) == math.copysign(1.0, want))
        return None if same else "%s: expected %r, received %r" % (path, want, got)
    return None if got == want else "%s: expected %s, received %s" % (path, _short(want), _short(got))


def _short(x, n=160):
    s = repr(x)
    return s if len(s) <= n else s[: n - 20] + "...(%d chars)" % len(s)


def enc(v):
    if isinstance(v, Unser):
        return {"__obj__": v.kind}
    if isinstance(v, np.generic):
        if isinstance(v, np.bool_):
            return {"__np__": "bool_", "v": bool(v)}
        if isinstance(v, np.integer):
            return {"__np__": type(v).__name__, "v": int(v)}
        if isinstance(v, np.floating):
            return {"__np__": type(v).__name__, "v": float(v)}
        if isinstance(v, np.str_):
            return {"__np__": "str_", "v": str(v)}
        raise TypeError(type(v))
    if isinstance(v, tuple):
        return {"__tuple__": [enc(x) for x in v]}
    if isinstance(v, dict):
        return {"__dict__": [[enc(k), enc(x)] for k, x in v.items()]}
    if isinstance(v, list):
        return [enc(x) for x in v]
    if v is None or isinstance(v, (bool, int, float, str)):
        return v
    raise TypeError(type(v))


def _same_object(a, b):
    """the interpreter rebuilds exactly the object the scenario talks about (self-check of the harness)"""
    if isinstance(b, Unser):
        return True
    if type(a) is not type(b):
        return False
    if isinstance(b, dict):
        return len(a) == len(b) and all(_same_object(ka, kb) and _same_object(a[ka], b[kb]) for ka, kb in zip(a, b))
    if isinstance(b, (list, tuple)):
        return len(a) == len(b) and all(_same_object(x, y) for x, y in zip(a, b))
    if isinstance(b, (float, np.floating)):
        return (a != a and b != b) or (a == b and math.copysign(1.0, float(a)) == math.copysign(1.0, float(b)))
    return a == b


def enc_ops(ops):
    out = []
    for op in ops:
        if op[0] == "report":
            e = enc(op[1])
            back = _dec(json.loads(json.dumps(e)))
            if not _same_object(back, op[1]):
                raise HarnessError("scenario value does not survive the plan encoding: %r" % (op[1],))
            out.append(["report", e])
        else:
            out.append(list(op))
    return out


# ----------------------------------------------------------------------------------------------------------------
# catalogue of hostile material
# ----------------------------------------------------------------------------------------------------------------
STRINGS = [
    ("plain", "plain"),
    ("empty", ""),
    ("space", " "),
    ("close-brace", "}"),
    ("open-brace", "{"),
    ("braces", "}{"),
    ("brackets-braces", "]}[{"),
    ("json-like", '{"a": 1}'),
    ("quote", 'quote " inside'),
    ("single-quote", "it's"),
    ("backslash", "back\\slash"),
    ("backslash-quote", '\\"'),
    ("backslash-end", "ends with \\"),
    ("newline", "new\nline"),
    ("crlf", "cr\rlf\r\nend"),
    ("tab", "tab\there"),
    ("trailing-newline", "ends with newline\n"),
    ("tag", TAG),
    ("tag-dict", TAG + '{"fake": 1}'),
    ("tag-open", TAG + "{"),
    ("tag-close", TAG + "}"),
    ("newline-tag", "\n" + TAG + '{"x": 2}\n'),
    ("unicode", "é ✓ 漢字"),
    ("line-separators", "a\u2028b\u2029c\x85d\x0be\x0cf\x1cg"),
    ("emoji", "\U0001f600"),
    ("lone-surrogate", "\ud83d"),
    ("controls", "\x00\x01\x1f\x7f"),
    ("null-word", "null"),
    ("nan-word", "NaN"),
    ("long-braces", "x}" * 500),
    ("format", "100%s %d {0} {}"),
    ("reserved-as-value", "st_worker_iter"),
]

NUMBERS = [
    ("zero", 0),
    ("minus-one", -1),
    ("int-not-double", 2**53 + 1),
    ("int64-min", -(2**63)),
    ("two-to-64", 2**64),
    ("ten-to-30", 10**30),
    ("true", True),
    ("false", False),
    ("tenth", 0.1),
    ("third", 1.0 / 3.0),
    ("neg-zero", -0.0),
    ("denormal", 1e-320),
    ("min-denormal", 5e-324),
    ("max-double", 1.7976931348623157e308),
    ("1e22", 1e22),
    ("1e16", 1e16),
    ("float-integral", 1.0),
    ("small-neg", -1e-7),
    ("many-digits", 123456789.12345679),
    ("nan", float("nan")),
    ("inf", float("inf")),
    ("neg-inf", float("-inf")),
]

NUMPY = [
    ("int8-min", np.int8(-128)),
    ("int16-max", np.int16(32767)),
    ("int32", np.int32(3)),
    ("int32-min", np.int32(-(2**31))),
    ("int64", np.int64(7)),
    ("int64-not-double", np.int64(2**53 + 1)),
    ("int64-min", np.int64(-(2**63))),
    ("int64-max", np.int64(2**63 - 1)),
    ("uint8", np.uint8(255)),
    ("uint16", np.uint16(65535)),
    ("uint32", np.uint32(2**32 - 1)),
    ("uint64-max", np.uint64(2**64 - 1)),
    ("uint64-not-double", np.uint64(2**53 + 1)),
    ("intp", np.intp(5)),
    ("bool-true", np.bool_(True)),
    ("bool-false", np.bool_(False)),
    ("float16", np.float16(0.333)),
    ("float32-tenth", np.float32(0.1)),
    ("float32-quarter", np.float32(0.25)),
    ("float32-integral", np.float32(3.0)),
    ("float64-tenth", np.float64(0.1)),
    ("float64-neg-zero", np.float64(-0.0)),
    ("float32-nan", np.float32("nan")),
    ("float64-inf", np.float64("inf")),
    ("float32-neg-inf", np.float32("-inf")),
    ("str", np.str_("np}str")),
]

NESTED = [
    ("empty-dict", {}),
    ("empty-list", []),
    ("list-of-empty-list", [[]]),
    ("list-of-empty-dict", [{}]),
    ("dict-of-empty-dict", {"a": {}}),
    ("tuple", (1, 2)),
    ("tuple-nested", ((1,), [2])),
    ("deep-list", [1, [2, [3, {"k": "}"}]]]),
    ("deep-dict", {"nested": {"deep": [1, "}"]}}),
    ("numpy-inside", [np.int32(3), {"k": np.int64(-(2**62))}]),
    ("alternating", {"a": [{"b": [{"c": {}}]}]}),
    ("none-in-list", [None]),
    ("none-in-dict", {"n": None}),
    ("mixed-scalars", [True, None, 1.5, "s", 2]),
    ("brace-keys", {"}": "{"}),
    ("tag-inside", {"k": [TAG + "{}"]}),
    ("per-class", {"cat": 0.25, "dog": 0.75}),
    ("history", [{"lr": 0.1}, {"lr": 0.01}]),
    ("many-dicts", [{"i": i, "s": "}"} for i in range(100)]),
    ("depth-30", None),  # filled below
    ("np-str-key", {np.str_("npkey"): 1}),
]


def _deep(n):
    v = {"leaf": "}"}
    for i in range(n):
        v = [v] if i % 2 else {"d": v}
    return v


NESTED = [(k, _deep(30) if k == "depth-30" else v) for k, v in NESTED]

GOOD_KEYS = [
    "loss", "a b", "}", "{", '"', "\\", "\n", TAG, TAG + "{", "é✓", "", "ST_upper", "st", "St_x", "xst_",
    "_st_x", " st_x", "s", "[", "]: {", "key with } and { and \" and \\n", "\ud83d", "0", "-", "--plan",
]
RESERVED_KEYS = ["st_", "st_x", "st_worker_iter", "st_worker_timestamp", "st_worker_time", "st_decision", "st_tuner_time"]
UNSER_KINDS = ["object", "set", "bytes", "complex", "function", "ndarray", "npcomplex", "circular", "tuplekey", "datetime"]

NOISE_NL = [
    "some log line\n",
    "{not json}\n",
    "epoch 1: {'loss': 0.5}\n",
    "} stray closing brace\n",
    "[tune_metric]: {\"x\": 1}\n",
    "[TUNE-METRIC]: {\"x\": 1}\n",
    "\n",
    "multi\nline\nblock }\n",
    "unicode é ✓ 漢\n",
    "INFO:root:[tune]: {}\n",
    "100%|████| 10/10 [00:01<00:00]\n",
    "carriage\rreturn\r\n",
]
NOISE_NONL = [
    "progress 50% ",
    "epoch 2: training ... ",
    "{",
    "}",
    "[",
    "{\"open\": ",
    "loss={'a': 1} ",
    "\rstep 3/10",
    "a\nb",
    "é ✓ ",
    "x",
    "]: {",
    "[tune_metric]: {\"x\": 1} ",
    "   ",
    "\t",
    "100%|███| ",
    "\\",
    "\"",
]
FD_NOISE = [
    "[monitor] gpu {util: 93%, mem: 4GB}\n",
    "}\n",
    "{\n",
    "} {\n",
    "raw fd line\n",
    "no newline }",
    "{\"k\": 1}",
    "\n",
    "x",
]
NONUTF8 = ["636166e9206c6174696e2d310a", "fffe0a", "80616263", "c3280a"]  # latin-1 text, BOM-like, stray continuation, bad pair
MODES = ["block", "line", "tiny", "unbuffered"]


def open_stream(path, mode):
    if mode == "block":
        return open(path, "a", encoding="utf-8")
    if mode == "line":
        return open(path, "a", buffering=1, encoding="utf-8")
    if mode == "tiny":
        return open(path, "a", buffering=32, encoding="utf-8")
    if mode == "unbuffered":
        return io.TextIOWrapper(open(path, "ab", buffering=0), encoding="utf-8", write_through=True)
    raise ValueError(mode)


def flat(i):
    return {"epoch": i, "loss": 1.0 / (i + 1)}


def nested(i):
    return {"epoch": i, "per_class": {"cat": 0.25, "dog": [i, {"k": "}"}]}, "note": "set {a} and {b}]"}


def big(shape, target, i=0):
    """a report whose JSON text has about ``target`` characters (own sizing, only used to choose the input)"""
    if shape == "string":
        d = {"step": i, "blob": "ab}" * max(1, (target - 40) // 3)}
    elif shape == "floats":
        d = {"step": i, "curve": [(i + k) / 1000.0 for k in range(max(1, (target - 40) // 7))]}
    elif shape == "nested":
        d = {"step": i, "hist": [{"lr": 0.5, "s": "}"} for _ in range(max(1, (target - 40) // 24))]}
    else:
        raise ValueError(shape)
    return d


def json_len(d):
    return len(json.dumps(plain(d)))


def placements(v):
    return [("top", v), ("in-list", [1, v, "x"]), ("in-dict", {"k": v, "z": 0})]


class Scenario:
    def __init__(self, sid, clause, ops, mode="block", reporter=None, family=None):
        self.sid = sid
        self.clause = clause
        self.ops = ops  # ("report", kwargs, expect, reject_clause) | other operations as tuples
        self.mode = mode
        self.reporter = reporter if reporter is not None else {}
        self.family = family or clause

    def noise_text(self):
        parts = []
        for op in self.ops:
            if op[0] in ("print",):
                parts.append(op[1] + op[2])
            elif op[0] in ("write", "fd", "child"):
                parts.append(op[1])
        return "".join(parts)

    def describe(self, channel):
        return {"scenario": self.sid, "channel": channel, "stdout_mode": self.mode if channel == "in-process" else "block-buffered file (subprocess)", "reporter": self.reporter, "ops": _short([_op_repr(o) for o in self.ops], 700)}


def _op_repr(op):
    if op[0] == "report":
        return ("report", op[1], op[2])
    return op


def R(kwargs, expect="ok", reject_clause=None):
    return ("report", kwargs, expect, reject_clause)


def P(text, end="\n"):
    return ("print", text, end)


def noise_op(text, writer="print"):
    """other output through sys.stdout; ``text`` carries its own newline (or none)"""
    if writer == "write":
        return ("write", text)
    if text.endswith("\n"):
        return ("print", text[:-1], "\n")
    return ("print", text, "")


# ----------------------------------------------------------------------------------------------------------------
# bookkeeping
# ----------------------------------------------------------------------------------------------------------------
class Ctx:
    def __init__(self, tier, seed):
        self.tier = tier
        self.seed = seed
        self.counts = {c: 0 for c in CLAUSES}
        self.failed = {c: 0 for c in CLAUSES}
        self.violations = []
        self.evaluations = 0
        self.scenarios = {"in-process": 0, "subprocess": 0}
        self.reports = 0
        self.samples = []

    def check(self, clause, ok, details):
        self.counts[clause] += 1
        self.evaluations += 1
        if not ok:
            self.failed[clause] += 1
            if self.failed[clause] <= MAX_STORED:
                v = {"clause": clause, "seed": self.seed, "tier": self.tier}
                v.update(details() if callable(details) else details)
                self.violations.append(v)
        return ok


def stream_diff(expected, received):
    """None if ``received`` (dictionaries handed to the tuner) are exactly the ``expected`` user dictionaries, in order,
    each extended by keys of the reserved namespace only"""
    n = min(len(expected), len(received))
    for i in range(n):
        g = received[i]
        if not isinstance(g, dict):
            return {"kind": "not-a-dictionary", "position": i, "received": _short(g)}
        user = {k: v for k, v in g.items() if not (isinstance(k, str) and k.startswith("st_"))}
        d = value_diff(user, expected[i], "report#%d" % i)
        if d:
            kind = "changed"
            if len(expected) != len(received):
                kind = "lost-or-changed" if len(received) < len(expected) else "extra-or-duplicated"
            return {"kind": kind, "position": i, "difference": d, "reported_n": len(expected), "received_n": len(received)}
    if len(expected) != len(received):
        return {"kind": "lost" if len(received) < len(expected) else "extra-or-duplicated", "position": n, "reported_n": len(expected), "received_n": len(received), "first_unmatched": _short(expected[n] if len(expected) > n else received[n])}
    return None


class Run:
    """state of one scenario on one channel"""

    def __init__(self, env, sc, channel, backend, trial_id):
        self.env = env
        self.ctx = env.ctx
        self.sc = sc
        self.channel = channel
        self.backend = backend
        self.tid = trial_id
        self.events = []  # from the interpreter
        self.delivered = []  # metrics handed out by fetch_status_results so far
        self.flagged = set()
        self.stopped = False
        self.wrongly_accepted = False
        self.n_polls = 0

    # -- reference ---------------------------------------------------------------------------------------------
    def accepted(self, before_op=None):
        """reports whose call returned normally (by the interpreter's log), as plain dictionaries, in order"""
        out = []
        for ev in self.events:
            if ev.get("ret") == "ok" and (before_op is None or ev["i"] < before_op):
                op = self.sc.ops[ev["i"]]
                if op[2] == "reject":
                    # a report that had to be rejected was accepted: flagged in finish(); what such a report should
                    # look like at the tuner is undefined, the stream comparisons of this scenario are skipped
                    self.wrongly_accepted = True
                    continue
                out.append((ev, plain(op[1])))
        return out

    def details(self, **extra):
        d = self.sc.describe(self.channel)
        d.update(extra)
        return d

    def flag_once(self, clause, ok, **extra):
        """at most one stored violation per clause and scenario (every check is counted)"""
        if not ok and (clause in self.flagged):
            self.ctx.counts[clause] += 1
            self.ctx.evaluations += 1
            return ok
        if not ok:
            self.flagged.add(clause)
        return self.ctx.check(clause, ok, lambda: self.details(**extra))

    # -- a poll of the tuner while the script is quiescent -----------------------------------------------------
    def poll(self, op_index):
        self.n_polls += 1
        want = [p for _, p in self.accepted(before_op=op_index)]
        if self.wrongly_accepted:
            return
        try:
            _, new = self.backend.fetch_status_results([self.tid])
        except Exception as exc:  # parsing a legitimate stream must not raise
            self.flag_once(self.sc.clause, False, step="poll at operation %d" % op_index, raised=_short(exc, 300))
            return
        new = [m for t, m in new if t == self.tid]
        pending = want[len(self.delivered):]
        got_all = self.delivered + new
        late = len(new) < len(pending) and stream_diff(pending[: len(new)], new) is None
        self.flag_once(C_VISIBLE, not late, step="poll at operation %d" % op_index, returned_reports_not_yet_delivered=len(pending), delivered_by_this_poll=len(new))
        if not late:
            d = stream_diff(pending, new)
            self.flag_once(C_ONCE, d is None, step="poll at operation %d" % op_index, problem=d, already_delivered=len(self.delivered))
        self.delivered = got_all

    # -- after the script ended / was killed -------------------------------------------------------------------
    def finish(self):
        sc, ctx = self.sc, self.ctx
        acc = self.accepted()
        want = [p for _, p in acc]
        ctx.reports += len(want)
        # 1. every valid report call returned, every invalid one raised
        for ev in self.events:
            if "ret" not in ev:
                continue
            op = sc.ops[ev["i"]]
            if op[2] == "ok":
                self.flag_once(C_VALID, ev["ret"] == "ok", step="operation %d" % ev["i"], report=_short(op[1], 300), raised=ev.get("exc"))
            elif op[2] == "reject":
                self.flag_once(op[3], ev["ret"] == "raised", step="operation %d" % ev["i"], report=_short(op[1], 300), problem="report was accepted")
        if self.wrongly_accepted:
            self.flag_once(sc.clause, False, step="end of script", problem="a report that had to be rejected was accepted and written to the stream; the stream comparison is skipped")
            return
        # 2. what the tuner gets
        received = None
        try:
            if self.stopped:
                # results of a stopped trial are (by design of the tuning loop) not handed out by fetch_status_results
                # any more; the parsed stream is what _all_trial_results returns
                received = list(self.backend._all_trial_results([self.tid])[0].metrics)
                all_metrics = received
            else:
                _, new = self.backend.fetch_status_results([self.tid])
                received = self.delivered + [m for t, m in new if t == self.tid]
                all_metrics = list(self.backend._all_trial_results([self.tid])[0].metrics)
        except Exception as exc:
            self.flag_once(sc.clause, False, step="final fetch", raised=_short(exc, 300))
            return
        d = stream_diff(want, received)
        self.flag_once(sc.clause, d is None, step="final fetch", problem=d)
        if not self.stopped:
            d2 = stream_diff(want, all_metrics) if d is None else None
            same = d is not None or (d2 is None and len(all_metrics) == len(received) and all(a == b or _nan_equal(a, b) for a, b in zip(all_metrics, received)))
            self.flag_once(C_ALL, same, step="_all_trial_results after the final fetch", problem=d2, n_all=len(all_metrics), n_fetched=len(received))
        if d is not None:
            return
        # 3. counter and time stamps (only meaningful when the stream itself is right)
        E = self.env
        iters = [m.get(E.K_ITER) for m in received]
        if received:
            ok = all(type(x) is int for x in iters) and all(a < b for a, b in zip(iters, iters[1:]))
            self.flag_once(C_COUNTER, ok, counters=_short(iters, 300))
            stamps = [m.get(E.K_STAMP) for m in received]
            ok = all(type(x) in (int, float) and x == x for x in stamps) and all(a <= b for a, b in zip(stamps, stamps[1:]))
            if ok and sc.reporter.get("add_time", True):
                el = [m.get(E.K_TIME) for m in received]
                ok = all(type(x) in (int, float) and x >= 0 for x in el) and all(a <= b for a, b in zip(el, el[1:]))
            self.flag_once(C_TIME, ok, time_stamps=_short(stamps, 300))
            if ok:
                bad = [(i, ev["t0"], m[E.K_STAMP], ev["t1"]) for i, ((ev, _), m) in enumerate(zip(acc, received)) if not (ev["t0"] <= m[E.K_STAMP] <= ev["t1"])]
                self.flag_once(C_TIME_CALL, not bad, outside_call_window=_short(bad[:3], 300))


def _nan_equal(a, b):
    return value_diff(a, b, "") is None


# ----------------------------------------------------------------------------------------------------------------
# in-process channel
# ----------------------------------------------------------------------------------------------------------------
class _Die(Exception):
    def __init__(self, code):
        self.code = code


class _FakeProc:
    """stand-in for the Popen handle of a trial whose output is produced in-process"""

    def __init__(self):
        self.code = None
        self.on_kill = None

    def poll(self):
        return self.code

    def wait(self, timeout=None):
        return self.code

    def kill(self):
        if self.code is None:
            if self.on_kill is not None:
                self.on_kill()
            self.code = -9


def make_hand_backend(LocalBackend):
    class HandBackend(LocalBackend):
        """LocalBackend whose trial processes are played by the monitor: only the launch is replaced"""

        def _schedule(self, trial_id, config):
            trial_path = self.trial_path(trial_id)
            os.makedirs(trial_path, exist_ok=True)
            for name in ("std.out", "std.err"):
                with open(trial_path / name, "a"):
                    pass
            self.trial_subprocess[trial_id] = _FakeProc()
            self._busy_trial_id_candidates.add(trial_id)

    return HandBackend


def run_in_process(env, sc):
    ctx = env.ctx
    backend = env.hand
    eops = enc_ops(sc.ops)
    trial = backend.start_trial(config={"scenario": len(backend.trial_ids)})
    tid = trial.trial_id
    path = backend.trial_path(tid) / "std.out"
    proc = backend.trial_subprocess[tid]
    run = Run(env, sc, "in-process", backend, tid)
    state = {"snapshot": None}

    def snapshot():
        with open(path, "rb") as f:
            state["snapshot"] = f.read()

    proc.on_kill = snapshot

    def sync(idx, name):
        if name.startswith("poll"):
            run.poll(idx)
        elif name.startswith("stop"):
            backend.stop_trial(tid)  # real method: stop file + kill() of the process handle
            run.stopped = True
            raise _Die(-9)
        else:
            raise ValueError(name)

    def do_exit(code):
        snapshot()  # os._exit: whatever is still buffered never reaches the file
        raise _Die(code)

    stream = open_stream(path, sc.mode)
    code = 0
    try:
        with contextlib.redirect_stdout(stream):
            reporter = env.Reporter(**sc.reporter)
            try:
                _run_ops(eops, reporter, stream.fileno(), run.events.append, {"sync": sync, "exit": do_exit})
            except _Die as die:
                code = die.code
            except RuntimeError as exc:
                if "on purpose" not in str(exc):
                    raise
                code = 1
    finally:
        stream.close()  # regular interpreter shutdown flushes; for a hard exit the snapshot is restored below
    if state["snapshot"] is not None:
        with open(path, "wb") as f:
            f.write(state["snapshot"])
    if proc.code is None:
        proc.code = code
    run.finish()
    ctx.scenarios["in-process"] += 1
    shutil.rmtree(backend.trial_path(tid), ignore_errors=True)
    return run


# ----------------------------------------------------------------------------------------------------------------
# subprocess channel (real LocalBackend trials), cooperative drivers
# ----------------------------------------------------------------------------------------------------------------
def drive_subprocess(env, sc, number):
    ctx = env.ctx
    backend = env.local
    d = env.workdir / "plans" / ("t%02d" % number)
    os.makedirs(d)
    plan = {"ops": enc_ops(sc.ops), "reporter": sc.reporter, "events": str(d / "events.jsonl"), "dir": str(d), "patience": TRIAL_TIMEOUT}
    with open(d / "plan.json", "w") as f:
        json.dump(plan, f)
    trial = backend.start_trial(config={"plan": str(d / "plan.json")})
    tid = trial.trial_id
    proc = backend.trial_subprocess[tid]
    env.procs.append(proc)
    run = Run(env, sc, "subprocess", backend, tid)
    started = time.time()

    def read_events():
        p = d / "events.jsonl"
        if not p.exists():
            return []
        with open(p, "r") as f:
            return [json.loads(line) for line in f if line.strip()]

    def overdue():
        if time.time() - started > TRIAL_TIMEOUT:
            raise HarnessError("trial script of scenario %s did not get anywhere within %.0f s; stderr: %s" % (sc.sid, TRIAL_TIMEOUT, "".join(backend.stderr(tid))[-600:]))

    for idx, op in enumerate(sc.ops):
        if op[0] != "sync":
            continue
        name = op[1]
        while not (d / (name + ".reached")).exists():
            if proc.poll() is not None:
                raise HarnessError("trial script of scenario %s ended (code %s) before reaching %s; stderr: %s" % (sc.sid, proc.poll(), name, "".join(backend.stderr(tid))[-600:]))
            overdue()
            yield
        run.events = read_events()
        if name.startswith("poll"):
            run.poll(idx)
        elif name.startswith("stop"):
            backend.stop_trial(tid)
            run.stopped = True
            break
        with open(d / (name + ".ack"), "w"):
            pass
    while proc.poll() is None:
        overdue()
        yield
    run.events = read_events()
    start = [e for e in run.events if e.get("start")]
    if not start:
        raise HarnessError("trial script of scenario %s did not start properly; stderr: %s" % (sc.sid, "".join(backend.stderr(tid))[-600:]))
    s = start[0]
    if s["env_unbuffered"] is not None or s["line_buffering"] or s["write_through"] or s["isatty"]:
        raise HarnessError("stdout of the trial script is not block-buffered: %r" % (s,))
    if os.path.realpath(s["pkg"]) != os.path.realpath(env.pkg_dir):
        raise HarnessError("trial script imported syne_tune from %s, monitor from %s" % (s["pkg"], env.pkg_dir))
    ends_normally = not any(op[0] in ("exit", "raise") or (op[0] == "sync" and op[1].startswith("stop")) for op in sc.ops)
    if ends_normally and not any(e.get("end") for e in run.events):
        raise HarnessError("trial script of scenario %s crashed: %s" % (sc.sid, "".join(backend.stderr(tid))[-600:]))
    run.finish()
    ctx.scenarios["subprocess"] += 1
    if len(ctx.samples) < 2:
        ctx.samples.append({"channel": "subprocess", "scenario": sc.sid, "reports_received": len(run.accepted()), "polls": run.n_polls, "exit_code": proc.poll()})


# ----------------------------------------------------------------------------------------------------------------
# scenario catalogues
# ----------------------------------------------------------------------------------------------------------------
def rot(seq, i):
    return seq[i % len(seq)]


def catalogue_in_process(tier, rs):
    quick = tier == "quick"
    S = []
    k = [0]

    def mode():
        k[0] += 1
        return rot(MODES, k[0])

    def modes(n_quick):
        if not quick:
            return list(MODES)
        return [mode() for _ in range(n_quick)]

    # A: plain reports, ordinary newline-terminated log lines in between
    for n in (1, 2, 4):
        for j, nz in enumerate([None] + NOISE_NL):
            if quick and (j + n) % 3:
                continue
            for m in modes(1):
                ops = []
                for i in range(n):
                    if nz:
                        ops.append(noise_op(nz, "print" if i % 2 else "write"))
                    ops.append(R(flat(i)))
                if nz:
                    ops.append(noise_op(nz))
                S.append(Scenario("plain/n=%d/noise=%d/%s" % (n, j, m), C_PLAIN, ops, m, {"add_time": bool(j % 2), "add_cost": False} if j % 3 == 0 else {}))
    # B: other output WITHOUT trailing newline right before a report
    for j, nz in enumerate(NOISE_NONL):
        for w, writer in enumerate(("print", "write", "print+flush")):
            for m in modes(1):
                pre = [noise_op(nz, "write" if writer == "write" else "print")] + ([("flush",)] if writer == "print+flush" else [])
                ops = [R(flat(0))] + pre + [R(nested(1)), noise_op(rot(NOISE_NL, j))] + pre + [R(flat(2))] + pre + [R(flat(3)), noise_op("finished without newline")]
                if (j + w) % 2:
                    ops = ops[1:]  # the very first bytes of the stream are other output without newline
                S.append(Scenario("same-line/noise=%d/%s/%s" % (j, writer, m), C_SAMELINE, ops, m))
    # C: output written straight to the descriptor (os.write / child process) right after a report
    for j, nz in enumerate(FD_NOISE):
        for s, size in enumerate((0, 9000, 20000)):
            for via in ("fd", "child"):
                if via == "child" and quick and (j + s) % 4:
                    continue
                for m in (["block", "tiny"] if quick else MODES):
                    if quick and via == "child" and m != "block":
                        continue
                    mk = (lambda i: nested(i)) if size == 0 else (lambda i: big(rot(("floats", "string", "nested"), i + j), size, i))
                    ops = [R(mk(0)), (via, nz), R(mk(1)), (via, nz), noise_op("ordinary line\n"), R(mk(2)), (via, nz)]
                    S.append(Scenario("fd/noise=%d/size=%d/%s/%s" % (j, size, via, m), C_FD, ops, m))
    # D: large reports (> 8 KB text buffer, below the 50 KB limit)
    sizes = (8000, 8191, 8192, 8193, 8300, 12000, 16384, 16500, 24576, 32768, 45000)
    for j, size in enumerate(sizes):
        for s, shape in enumerate(("string", "floats", "nested")):
            if quick and (j + s) % 2:
                continue
            for m in modes(1):
                ops = [noise_op(rot(NOISE_NL, j)), R(big(shape, size, 0)), R(flat(1)), noise_op(rot(NOISE_NONL, j + s)), R(big(shape, size + 5, 2)), R(big(rot(("string", "floats", "nested"), s + 1), size, 3))]
                S.append(Scenario("large/size=%d/%s/%s" % (size, shape, m), C_LARGE, ops, m))
    # E: hard exit / kill right after reporting
    for n in (1, 2, 3):
        for s, size in enumerate((0, 9000, 30000)):
            for v, variant in enumerate(("exit0", "exit3", "stop", "poll-then-stop", "exit-after-noise")):
                if quick and (n + s + v) % 2:
                    continue
                for m in (sorted({"block", mode()}) if quick else MODES):
                    ops = [noise_op("starting\n")]
                    for i in range(n):
                        ops.append(R(nested(i) if size == 0 else big(rot(("floats", "string", "nested"), i), size, i)))
                        if variant == "poll-then-stop" and i == 0 and n > 1:
                            ops.append(("sync", "poll"))
                    if variant == "exit-after-noise":
                        ops.append(noise_op("bye", "write"))
                    if variant.startswith("exit"):
                        ops.append(("exit", 3 if variant == "exit3" else 0))
                        clause = C_EXIT
                    else:
                        ops.append(("sync", "stop"))
                        clause = C_KILL
                    S.append(Scenario("%s/n=%d/size=%d/%s" % (variant, n, size, m), clause, ops, m))
    # F: the tuner polls right after each report returned
    for n in (1, 2, 3, 5):
        for j, nz in enumerate((None, NOISE_NONL[0], NOISE_NL[1], NOISE_NONL[8])):
            for m in (MODES if not quick or (n + j) % 2 == 0 else ["block"]):
                ops = []
                for i in range(n):
                    if nz:
                        ops.append(noise_op(nz))
                    ops.append(R(nested(i) if i % 2 else flat(i)))
                    ops.append(("sync", "poll"))
                    if i % 2:
                        ops.append(("sync", "poll"))  # a second poll without anything new
                if n == 3:
                    ops.append(("raise",))
                # the stream comparison belongs to the plain clause, the polls are judged by C_VISIBLE / C_ONCE
                S.append(Scenario("poll-each/n=%d/noise=%d/%s" % (n, j, m), C_SAMELINE if nz and not nz.endswith("\n") else C_PLAIN, ops, m))
    # G .. K: hostile values and keys, one per report
    for group, clause in ((STRINGS, C_STR), (NUMBERS, C_NUM), (NUMPY, C_NUMPY), (NESTED, C_NEST)):
        for j, (name, v) in enumerate(group):
            for p, (where, placed) in enumerate(placements(v)):
                if quick and clause in (C_NUM, C_NEST) and (j + p) % 2:
                    continue
                for m in modes(1):
                    ops = [noise_op(rot(NOISE_NL, j)), R({"v": placed, "epoch": j}), R(flat(1))]
                    S.append(Scenario("value/%s/%s/%s" % (name, where, m), clause, ops, m))
    for j, (name, v) in enumerate(STRINGS):
        for m in modes(1):
            S.append(Scenario("value/%s/nested-key/%s" % (name, m), C_STR, [R({"v": {v: 1, "other": [v]}}), R(flat(1))], m))
    for j, key in enumerate(GOOD_KEYS):
        for m in modes(1):
            S.append(Scenario("key/%d/%s" % (j, m), C_KEYS, [noise_op(rot(NOISE_NL, j)), R({key: j, "loss": 0.5}), R({key: {"k": [j]}}), R(flat(2))], m))
    # rejected reports: reserved namespace, unserialisable, oversized
    def around(bad_op, pos):
        good = [R(flat(0)), R(nested(1)), R(flat(2))]
        return [noise_op("before\n")] + good[:pos] + [bad_op] + good[pos:] + [noise_op("after", "write")]

    for j, key in enumerate(RESERVED_KEYS):
        for pos in (0, 1, 3):
            if quick and (j + pos) % 2:
                continue
            for kw in ({key: 1}, {"loss": 0.5, key: 2.0}):
                m = mode()
                S.append(Scenario("reserved/%s/pos=%d/%d-keys/%s" % (key, pos, len(kw), m), C_RESERVED, around(R(kw, "reject", C_RESERVED), pos), m))
    for j, kind in enumerate(UNSER_KINDS):
        for p, (where, placed) in enumerate(placements(Unser(kind))):
            for pos in (0, 2):
                if quick and (j + p + pos // 2) % 2:
                    continue
                m = mode()
                S.append(Scenario("unserialisable/%s/%s/pos=%d/%s" % (kind, where, pos, m), C_UNSER, around(R({"v": placed, "loss": 1.0}, "reject", C_UNSER), pos), m))
    for j, size in enumerate((60000, 100000, 400000)):
        for s, shape in enumerate(("string", "floats", "nested")):
            if quick and (j + s) % 2:
                continue
            for pos in (0, 2):
                m = mode()
                S.append(Scenario("oversized/%d/%s/pos=%d/%s" % (size, shape, pos, m), C_OVERSIZED, around(R(big(shape, size), "reject", C_OVERSIZED), pos), m))
    # borderline: the statement does not say whether these are accepted; either way nothing may be corrupted
    for j, kw in enumerate(({"x": None}, {"a": 1, "b": None})):
        for pos in (0, 2):
            m = mode()
            S.append(Scenario("borderline/none-%d/pos=%d/%s" % (j, pos, m), C_BORDER, around(R(kw, "either"), pos), m))
    for j, size in enumerate((48500, 49500, 49880, 49900, 49950, 50000, 50100, 51200, 51900)):
        if quick and j % 2:
            continue
        m = mode()
        S.append(Scenario("borderline/size=%d/%s" % (size, m), C_BORDER, around(R(big("string", size), "either"), 1), m))
    # mixed kinds of rejected reports in one stream
    for j in range(3 if quick else 10):
        m = mode()
        ops = [R(flat(0)), R({rot(RESERVED_KEYS, j): 1}, "reject", C_RESERVED), noise_op(rot(NOISE_NONL, j)), R(nested(1)), R({"v": Unser(rot(UNSER_KINDS, j))}, "reject", C_UNSER), R(flat(2)), R(big("floats", 70000), "reject", C_OVERSIZED), R(big("nested", 9000, 3)), R({"x": None}, "either"), R(flat(4))]
        S.append(Scenario("mixed-rejects/%d/%s" % (j, m), C_AROUND, ops, m))
    # other output that is not valid UTF-8 (a C library / child with another locale writing to the same descriptor)
    for j, hx in enumerate(NONUTF8):
        for pos in ((1,) if quick else (0, 1, 2)):
            good = [R(flat(0)), R(nested(1)), R(flat(2))]
            ops = good[:pos] + [("fdhex", hx)] + good[pos:]
            S.append(Scenario("non-utf8/%s/pos=%d" % (hx, pos), C_NONUTF8, ops, "block"))
    return S


FRAGMENTS = ["}", "{", "]", "[", '"', "\\", "\n", "\r", " ", ":", ",", "é", "✓", "x", "0", "null", TAG, "[tune", "]: {", "\t", "'", "%s", " ", "\U0001f600"]
NOISE_FRAGMENTS = ["}", "{", "]", "[", '"', "\\", "\n", "\r", " ", ":", ",", "é", "✓", "x", "0", "[tune_metric]: {", "]: {", "\t", "epoch", "{'a': 1}", "█"]


def rand_string(rs):
    return "".join(rot(FRAGMENTS, int(rs.randint(len(FRAGMENTS)))) for _ in range(int(rs.randint(0, 7))))


def rand_scalar(rs):
    c = int(rs.randint(8))
    if c == 0:
        return rand_string(rs)
    if c == 1:
        return int(rs.randint(-5, 6)) * int(rot((1, 2**31, 2**53 + 1, 10**20), int(rs.randint(4))))
    if c == 2:
        return float(rs.standard_normal()) * 10.0 ** int(rs.randint(-30, 30))
    if c == 3:
        return rot(NUMPY, int(rs.randint(len(NUMPY))))[1]
    if c == 4:
        return rot(NUMBERS, int(rs.randint(len(NUMBERS))))[1]
    if c == 5:
        return rot(STRINGS, int(rs.randint(len(STRINGS))))[1]
    if c == 6:
        return rot((np.float32, np.float64, np.float16), int(rs.randint(3)))(rs.uniform(-100, 100))
    return rot((np.int8, np.int16, np.int32, np.int64, np.uint8, np.uint32), int(rs.randint(6)))(int(rs.randint(0, 100)))


def rand_value(rs, depth):
    c = int(rs.randint(10))
    if depth <= 0 or c < 5:
        return rand_scalar(rs)
    if c < 7:
        return [rand_value(rs, depth - 1) for _ in range(int(rs.randint(0, 4)))]
    if c == 7:
        return tuple(rand_value(rs, depth - 1) for _ in range(int(rs.randint(0, 3))))
    out = {}
    for _ in range(int(rs.randint(0, 4))):
        out[rand_string(rs)] = rand_value(rs, depth - 1)
    return out


def rand_report(rs, i):
    c = int(rs.randint(10))
    if c == 0:
        return big(rot(("string", "floats", "nested"), i), int(rs.randint(8000, 46000)), i)
    d = {"epoch": i}
    for _ in range(int(rs.randint(0, 4))):
        key = rand_string(rs) if rs.randint(3) == 0 else rot(GOOD_KEYS, int(rs.randint(len(GOOD_KEYS))))
        if key.startswith("st_") or key == "self":
            key = "k" + key
        d[key] = rand_value(rs, 3)
    return d


def rand_noise(rs, newline):
    s = "".join(rot(NOISE_FRAGMENTS, int(rs.randint(len(NOISE_FRAGMENTS)))) for _ in range(int(rs.randint(1, 8))))
    s = s.rstrip("\n\r")
    if not newline and not s:
        s = "x"
    return s + ("\n" if newline else "")


def random_scenario(rs, number, subprocess_channel):
    ops = []
    n_ops = int(rs.randint(4, 13 if not subprocess_channel else 40))
    n_rep = 0
    n_sync = 0
    for _ in range(n_ops):
        c = int(rs.randint(100))
        if c < 45:
            ops.append(R(rand_report(rs, n_rep)))
            n_rep += 1
        elif c < 55:
            ops.append(noise_op(rand_noise(rs, True), "print" if rs.randint(2) else "write"))
        elif c < 67:
            ops.append(noise_op(rand_noise(rs, False), "print" if rs.randint(2) else "write"))
        elif c < 79:
            ops.append(("fd", rand_noise(rs, bool(rs.randint(2)))))
        elif c < 82:
            ops.append(("child", rand_noise(rs, bool(rs.randint(2)))))
        elif c < 86:
            ops.append(("flush",))
        elif c < 94:
            n_sync += 1
            ops.append(("sync", "poll%d" % n_sync))
        elif c < 96:
            ops.append(R({rot(RESERVED_KEYS, int(rs.randint(len(RESERVED_KEYS)))): 1, "loss": 0.5}, "reject", C_RESERVED))
        elif c < 98:
            ops.append(R({"v": [Unser(rot(UNSER_KINDS, int(rs.randint(len(UNSER_KINDS)))))]}, "reject", C_UNSER))
        else:
            ops.append(R(big("string", 65000), "reject", C_OVERSIZED))
    if n_rep == 0:
        ops.append(R(rand_report(rs, 0)))
    e = int(rs.randint(100))
    if e < 15:
        ops.append(("exit", int(rot((0, 0, 5), e))))
    elif e < 30:
        ops.append(("sync", "stop"))
    elif e < 36:
        ops.append(("raise",))
    elif e < 60:
        ops.append(noise_op(rand_noise(rs, False)))
    mode = rot(MODES, int(rs.randint(len(MODES))))
    reporter = {} if rs.randint(3) else {"add_time": bool(rs.randint(2)), "add_cost": bool(rs.randint(2))}
    return Scenario("random/%s%d" % ("sub" if subprocess_channel else "", number), C_RANDOM, ops, mode, reporter)


def catalogue_subprocess(tier, rs):
    S = []
    # 1 other output without trailing newline right before reports
    ops = []
    for j, nz in enumerate(NOISE_NONL):
        ops.append(noise_op(nz, "write" if j % 2 else "print"))
        if j % 5 == 4:
            ops.append(("flush",))
        ops.append(R(nested(j) if j % 3 else flat(j)))
        if j % 4 == 0:
            ops.append(noise_op(rot(NOISE_NL, j)))
    ops.append(noise_op("finished", "print"))
    S.append(Scenario("sub/same-line", C_SAMELINE, ops))
    # 2 os.write(1, ...) right after reports, small and large
    ops = []
    for j, nz in enumerate(FD_NOISE):
        ops.append(R(nested(j) if j % 3 else big(rot(("floats", "string", "nested"), j), (9000, 20000, 45000)[(j // 3) % 3], j)))
        ops.append(("fd", nz))
    ops += [R(big("floats", 10000, 98)), ("fd", FD_NOISE[0]), R(big("floats", 10000, 99)), ("fd", FD_NOISE[0])]
    S.append(Scenario("sub/fd1-after-report", C_FD, ops))
    # 3 child process output right after reports
    ops = [R(big("floats", 10000, 0)), ("child", FD_NOISE[0]), R(nested(1)), ("child", "child says } {"), R(big("nested", 20000, 2)), ("child", "}\n"), R(flat(3)), ("child", FD_NOISE[5])]
    S.append(Scenario("sub/child-after-report", C_FD, ops))
    # 4 / 5 hard exit right after reporting
    S.append(Scenario("sub/os-exit-0", C_EXIT, [noise_op("start\n"), R(flat(0)), R(big("floats", 10000, 1)), R(nested(2)), ("exit", 0)]))
    S.append(Scenario("sub/os-exit-3", C_EXIT, [R(nested(0)), noise_op("dying", "write"), R(flat(1)), ("exit", 3)], reporter={"add_time": False}))
    # 6 / 7 killed by stop_trial (with and without an earlier poll)
    S.append(Scenario("sub/poll-then-stop", C_KILL, [R(flat(0)), R(nested(1)), R(big("string", 9000, 2)), ("sync", "poll1"), noise_op("more ", "write"), R(flat(3)), R(nested(4)), ("sync", "stop")]))
    S.append(Scenario("sub/stop-without-poll", C_KILL, [noise_op("start\n"), R(flat(0)), R(big("nested", 12000, 1)), R(nested(2)), R(flat(3)), ("sync", "stop")]))
    # 8 polls between stages while the script is alive
    ops = [R(flat(0)), ("sync", "poll1"), ("sync", "poll2"), noise_op("progress 10% "), R(nested(1)), R(big("floats", 9000, 2)), ("fd", "} fd\n"), ("sync", "poll3"), noise_op("a line\n"), R(flat(3)), ("sync", "poll4"), R(nested(4)), noise_op("the end")]
    S.append(Scenario("sub/polls-between-stages", C_PLAIN, ops))
    # 9 the whole value catalogue, one hostile value per report
    ops = []
    j = 0
    for group in (STRINGS, NUMBERS, NUMPY, NESTED):
        for name, v in group:
            where, placed = placements(v)[j % 3]
            ops.append(R({"v": placed, "epoch": j}))
            if j % 7 == 0:
                ops.append(noise_op(rot(NOISE_NL, j)))
            j += 1
    for key in GOOD_KEYS:
        ops.append(R({key: 1, "loss": [key]}))
    S.append(Scenario("sub/value-catalogue", C_E2E_VALUES, ops))
    # 10 rejected reports in between
    ops = [R(flat(0)), R({"st_x": 1}, "reject", C_RESERVED), R(nested(1)), R({"v": Unser("object")}, "reject", C_UNSER), noise_op("no newline "), R(flat(2)), R(big("floats", 70000), "reject", C_OVERSIZED), R(big("nested", 30000, 3)), R({"x": None}, "either"), R({"loss": 1, "st_worker_iter": 7}, "reject", C_RESERVED), R({"v": {"k": Unser("set")}}, "reject", C_UNSER), R(flat(4)), ("raise",)]
    S.append(Scenario("sub/rejected-in-between", C_AROUND, ops))
    # 11, 12 (+ more in thorough) seed-dependent mixtures
    for n in range(2 if tier == "quick" else 14):
        S.append(random_scenario(rs, n, True))
    return S


# ----------------------------------------------------------------------------------------------------------------
class Env:
    pass


def _check_noise(sc):
    text = sc.noise_text()
    if WORD in text:
        raise HarnessError("other output of scenario %s contains the metric tag" % sc.sid)
    for op in sc.ops:
        if op[0] == "fdhex" and WORD.encode() in bytes.fromhex(op[1]):
            raise HarnessError("other output of scenario %s contains the metric tag" % sc.sid)


def monitor_backend_stream(tier="quick", seed=0):
    saved_env = {k: os.environ.get(k) for k in ("PYTHONUNBUFFERED", "PYTHONPATH", "OMP_NUM_THREADS")}
    st_logger = logging.getLogger("syne_tune")
    saved_level = st_logger.level
    workdir = Path(tempfile.mkdtemp(prefix="c18native-"))
    env = Env()
    env.procs = []
    try:
        os.environ.pop("PYTHONUNBUFFERED", None)  # the trial scripts must see an ordinary block-buffered stdout
        os.environ.setdefault("OMP_NUM_THREADS", "1")
        sys.modules.setdefault("yahpo_gym", None)
        st_logger.setLevel(logging.CRITICAL)
        return _monitor(env, workdir, tier, int(seed))
    finally:
        for p in env.procs:
            try:
                if p.poll() is None:
                    p.kill()
                p.wait(timeout=30)
            except Exception:
                pass
        st_logger.setLevel(saved_level)
        for k, v in saved_env.items():
            if v is None:
                os.environ.pop(k, None)
            else:
                os.environ[k] = v
        shutil.rmtree(workdir, ignore_errors=True)


def _monitor(env, workdir, tier, seed):
    t_start = time.time()
    import syne_tune
    from syne_tune.backend import LocalBackend
    from syne_tune.constants import ST_SAGEMAKER_METRIC_TAG, ST_WORKER_ITER, ST_WORKER_TIMESTAMP, ST_WORKER_TIME
    from syne_tune.report import Reporter

    if ST_SAGEMAKER_METRIC_TAG != WORD:
        raise HarnessError("metric tag is %r, the catalogue was built for %r" % (ST_SAGEMAKER_METRIC_TAG, WORD))
    rs = np.random.RandomState(seed)
    ctx = Ctx(tier, seed)
    env.ctx = ctx
    env.workdir = workdir
    env.Reporter = Reporter
    env.K_ITER, env.K_STAMP, env.K_TIME = ST_WORKER_ITER, ST_WORKER_TIMESTAMP, ST_WORKER_TIME
    env.pkg_dir = os.path.dirname(os.path.abspath(syne_tune.__file__))
    root = os.path.dirname(env.pkg_dir)
    os.environ["PYTHONPATH"] = root + (os.pathsep + os.environ["PYTHONPATH"] if os.environ.get("PYTHONPATH") else "")
    script = workdir / "train_script.py"
    with open(script, "w") as f:
        f.write(_EXEC_SRC)
    env.local = LocalBackend(entry_point=str(script), rotate_gpus=False)
    env.local.set_path(results_root=str(workdir / "local"))
    env.hand = make_hand_backend(LocalBackend)(entry_point=str(script), rotate_gpus=False)
    env.hand.set_path(results_root=str(workdir / "hand"))

    sub = catalogue_subprocess(tier, rs)
    inp = catalogue_in_process(tier, rs)
    for n in range(150 if tier == "quick" else 1500):
        inp.append(random_scenario(rs, n, False))
    for sc in sub + inp:
        _check_noise(sc)
    if tier == "quick" and len(sub) > 12:
        raise HarnessError("more than 12 subprocess trials in the quick tier")

    # subprocess trials run while the in-process catalogue is worked through (cooperative drivers)
    pending = list(enumerate(sub))
    active = []
    width = 3
    todo = list(inp)
    per_round = max(1, len(todo) // 400)
    while pending or active or todo:
        while pending and len(active) < width:
            number, sc = pending.pop(0)
            active.append(drive_subprocess(env, sc, number))
        still = []
        for g in active:
            try:
                next(g)
                still.append(g)
            except StopIteration:
                pass
        active = still
        if todo:
            for sc in todo[:per_round]:
                run = run_in_process(env, sc)
                if len(ctx.samples) < 4 and sc.sid.split("/")[0] in ("same-line", "fd") and not any(s.get("scenario", "").split("/")[0] == sc.sid.split("/")[0] for s in ctx.samples):
                    ctx.samples.append({"channel": "in-process", "scenario": sc.sid, "stdout_mode": sc.mode, "ops": _short([_op_repr(o) for o in sc.ops], 300), "reports_received": len(run.accepted())})
            del todo[:per_round]
        elif active:
            time.sleep(0.01)

    # an empty check must not look green; clauses that depend on a correct stream (counter, time stamps) can only be
    # skipped everywhere when other clauses (apart from the separately listed non-UTF-8 one) report violations
    missing = [c for c in CLAUSES if ctx.counts[c] == 0]
    if missing and not any(n for c, n in ctx.failed.items() if c != C_NONUTF8):
        raise HarnessError("clauses never exercised: %s" % missing)
    if ctx.scenarios["subprocess"] != len(sub):
        raise HarnessError("only %d of %d subprocess trials were evaluated" % (ctx.scenarios["subprocess"], len(sub)))
    n_failed = {c: n for c, n in ctx.failed.items() if n}
    return {
        "evaluations": ctx.evaluations,
        "distinct": ctx.scenarios["in-process"] + ctx.scenarios["subprocess"],
        "clauses": list(CLAUSES),
        "violations": ctx.violations,
        "samples": ctx.samples[:4],
        "summary": (
            "tier %s seed %d: %d real LocalBackend subprocess trials (rotate_gpus=False, PYTHONUNBUFFERED unset, block-buffered stdout, <= %d "
            "operations each, polls only while the script is quiescent) + %d in-process scenarios on std.out files of a LocalBackend "
            "whose process launch is replaced (stdout modes %s; %d seed-dependent random ones, <= 12 operations); %d accepted reports; "
            "catalogue: %d strings, %d numbers, %d numpy scalars, %d nested values (x top / in list / in dict), %d keys, %d reserved keys, "
            "%d unserialisable kinds, report sizes 8000..45000 accepted / >= 60000 rejected / 48500..51900 either, %d + %d + %d kinds of "
            "other output (newline-terminated / without newline / straight to the descriptor), hard exit and stop_trial after 1..3 reports; "
            "%.0f s; failed checks per clause: %s (at most %d stored per clause)"
            % (
                tier, seed, ctx.scenarios["subprocess"], max(len(s.ops) for s in sub), ctx.scenarios["in-process"], ",".join(MODES),
                150 if tier == "quick" else 1500, ctx.reports, len(STRINGS), len(NUMBERS), len(NUMPY), len(NESTED), len(GOOD_KEYS),
                len(RESERVED_KEYS), len(UNSER_KINDS), len(NOISE_NL), len(NOISE_NONL), len(FD_NOISE), time.time() - t_start,
                n_failed if n_failed else "none", MAX_STORED,
            )
        ),
    }
