"""C04 -- promotion-type Hyperband promotes only eligible trials."""
from pyvc.spec import *
from contracts.hb import *
from contracts.c03 import Rung_quantile, Rung_add, Rung_pop  # noqa: F401  (shared obligations)

EXPLANATION = (
    "PromotionRungSystem: _find_promotable_trial is proved (loop invariant, rung of any length) to return exactly the "
    "first un-promoted entry when it is not worse than the numpy quantile; on_task_schedule / on_task_report / "
    "on_task_add / on_task_remove / _mark_as_promoted are proved for 0..3 rungs with unbounded rung contents. "
    "Cost-aware eligibility is checked in bounded mode (sum over the rung)."
)
ASSUMPTIONS = [
    "A-REAL: floats are mathematical reals",
    "metric / resource / cost attribute names are fixed distinct literals",
    "number of rungs per system concrete (0..3) in proof units; rung contents unbounded",
    "cost values recorded in a rung are non-negative (cost-aware variant)",
]


@contract(HB_PROM + ":PromotionRungSystem._find_promotable_trial", props=("C04", "C15"))
class Prom_find_promotable:
    params = dict(self=Obj("PromotionRungSystem"), rung=Obj("PRung"))
    proof_shapes = [{"self._rungs": 0}]
    shapes = [{"self._rungs": 0, "*": k} for k in range(0, 5)]
    loops = {1: "inv_scan"}
    loop_types = {1: {"result": Opt(Tup(Str, Int)), "metric_val": Opt(Real), "pos": Int, "entry": Obj("PEntry")}}
    returns = Opt(Tup(Str, Int))
    modular = True

    def requires(s):
        return {"mode": s.rung._is_min == (s.self._mode == "min")}

    def inv_scan(s):
        # every entry scanned so far was already promoted and nothing has been found yet
        return {
            "nothing-yet": s.result is None and s.metric_val is None,
            "prefix-promoted": forall(range(0, len(s.rung.data)), lambda i: s.rung.data[i].was_promoted if i < s.k else True),
        }

    def ensures(old, s, result):
        return {"spec": promotable_spec(old.rung, result), "frame": unchanged(s.rung, old.rung)}


@contract(HB_PROM + ":PromotionRungSystem._mark_as_promoted", props=("C04",))
class Prom_mark_as_promoted:
    params = dict(rung=Obj("PRung"), pos=Int)
    raises = {"AssertionError": "already_promoted"}
    modular = True
    modifies = {"rung.data": SortedListT(Obj("PEntry"), key="rung_key"), "rung._trial_ids": SetT(Str)}

    def requires(s):
        return {"in-range": 0 <= s.pos and s.pos < len(s.rung.data)}

    def already_promoted(old):
        return old.rung.data[old.pos].was_promoted

    def ensures(old, s, result):
        return {"moved": moved_promoted(s.rung, old.rung, old.pos), "inv": rung_inv(s.rung)}


def _eligible(rs, j):
    """rung j of system rs is below the effective maximum and holds an eligible trial
    (three-valued: returns (must, may))"""
    return None


def schedule_post(old, s, result, cap):
    """common postcondition of on_task_schedule; ``cap`` is the effective maximum resource
    (max_t for ASHA, the current cap for PASHA)"""
    rs0 = old.self
    rs1 = s.self
    n = len(rs0._rungs)
    out = {"running-unchanged": unchanged(rs1._running, rs0._running)}
    if "trial_id" not in result:
        out["empty"] = len(result) == 0
        out["frame"] = unchanged(rs1._rungs, rs0._rungs)
        # no rung below the cap holds a candidate that is strictly better than its quantile
        out["none-eligible"] = forall(range(0, n), lambda j: none_eligible(rs0._rungs[j]) if rs0._rungs[j].level < cap else True)
        return out
    # promoted from rung j
    lvl = result["resume_from"]
    j = None
    for i in range(n):
        if rs0._rungs[i].level == lvl:
            j = i
    out["from-a-rung"] = j is not None
    if j is None:
        return out
    r0 = rs0._rungs[j]
    out["below-cap"] = lvl < cap
    out["target-next-level"] = result["milestone"] == (rs0._rungs[j - 1].level if j > 0 else rs0._max_t)
    out["target-within-cap"] = result["milestone"] <= cap
    out["rung-has-2"] = len(r0.data) >= 2
    # the promoted trial is the first un-promoted entry of its rung, not strictly worse than the quantile
    out["eligible"] = exists(
        range(0, len(r0.data)),
        lambda f: first_unpromoted(r0, f)
        and r0.data[f].trial_id == result["trial_id"]
        and (not strictly_worse(r0, r0.data[f].metric_val, np_quantile_linear(r0)))
        and moved_promoted(rs1._rungs[j], r0, f),
    )
    # no higher rung below the cap held a strictly eligible trial
    out["highest"] = forall(range(0, n), lambda i: none_eligible(rs0._rungs[i]) if (i < j and rs0._rungs[i].level < cap) else True)
    out["others-unchanged"] = forall(range(0, n), lambda i: unchanged(rs1._rungs[i], rs0._rungs[i]) if i != j else True)
    return out


@contract(HB_PROM + ":PromotionRungSystem.on_task_schedule", props=("C04",))
class Prom_on_task_schedule:
    spec_total = False  # the exists/forall clauses are discharged per path
    params = dict(self=Obj("PromotionRungSystem"), new_trial_id=Str)
    proof_shapes = [{"self._rungs": k} for k in range(0, 3)]
    shapes = [{"self._rungs": 1, "*": n} for n in range(0, 4)] + [{"self._rungs": 2, "*": n} for n in range(0, 3)]
    shapes_thorough = [{"self._rungs": k, "*": n} for k in range(0, 4) for n in range(0, 4)]

    def requires(s):
        return True

    def ensures(old, s, result):
        return schedule_post(old, s, result, old.self._max_t)


@contract(HB_PROM + ":PromotionRungSystem.on_task_schedule", props=("C04",))
class Pasha_on_task_schedule:
    """PASHA inherits on_task_schedule; the effective maximum is the current (growing) cap"""

    label = "PASHARungSystem.on_task_schedule"
    spec_total = False
    params = dict(self=Obj("PASHARungSystem"), new_trial_id=Str)
    proof_shapes = [{"self._rungs": k} for k in range(1, 3)]
    shapes = [{"self._rungs": 1, "*": n} for n in range(0, 4)] + [{"self._rungs": 2, "*": n} for n in range(0, 3)] + [{"self._rungs": 3, "*": 1}]
    shapes_thorough = [{"self._rungs": k, "*": n} for k in range(1, 4) for n in range(0, 4)]

    def requires(s):
        return True

    def ensures(old, s, result):
        out = schedule_post(old, s, result, old.self.current_max_t)
        out["cap-unchanged"] = s.self.current_max_t == old.self.current_max_t
        return out


@contract(HB_PROM + ":PromotionRungSystem.on_task_add", props=("C04",))
class Prom_on_task_add_new:
    label = "PromotionRungSystem.on_task_add(new)"
    params = dict(self=Obj("PromotionRungSystem"), trial_id=Str, skip_rungs=Int)
    proof_shapes = [{"self._rungs": k} for k in range(0, 4)]
    shapes = []

    def requires(s):
        return {"skip": 0 <= s.skip_rungs}

    def ensures(old, s, result):
        rs0 = old.self
        n = len(rs0._rungs)
        first = rs0._rungs[n - 1 - old.skip_rungs].level if old.skip_rungs < n else rs0._max_t
        return {
            "registered": old.trial_id in s.self._running,
            "milestone-first-rung": s.self._running[old.trial_id]["milestone"] == first,
            "no-resume": s.self._running[old.trial_id]["resume_from"] is None,
            "rungs-unchanged": unchanged(s.self._rungs, rs0._rungs),
        }


@contract(HB_PROM + ":PromotionRungSystem.on_task_add", props=("C04",))
class Prom_on_task_add_resumed:
    label = "PromotionRungSystem.on_task_add(resumed)"
    params = dict(self=Obj("PromotionRungSystem"), trial_id=Str, skip_rungs=Int, new_config=Lit(False), milestone=Int, resume_from=Int)
    proof_shapes = [{"self._rungs": k} for k in range(0, 2)]
    shapes = []
    raises = {"AssertionError": "bad_order"}

    def requires(s):
        return {"skip": 0 <= s.skip_rungs}

    def bad_order(old):
        return not (old.resume_from < old.milestone)

    def ensures(old, s, result):
        return {
            "milestone": s.self._running[old.trial_id]["milestone"] == old.milestone,
            "resume": s.self._running[old.trial_id]["resume_from"] == old.resume_from,
            "rungs-unchanged": unchanged(s.self._rungs, old.self._rungs),
        }


@contract(HB_PROM + ":PromotionRungSystem.on_task_report", props=("C04",))
class Prom_on_task_report:
    params = dict(self=Obj("PromotionRungSystem"), trial_id=Str, result=Rec(epoch=Int, loss=Real), skip_rungs=Int)
    proof_shapes = [{"self._rungs": k} for k in range(0, 4)]
    shapes = [{"self._rungs": k, "*": n} for k in range(0, 3) for n in range(0, 3)]
    raises = {"AssertionError": "jumped_over_or_duplicate", "KeyError": "not_running"}

    def requires(s):
        return {"resource": 1 <= s.result["epoch"]}

    def not_running(old):
        return old.trial_id not in old.self._running

    def jumped_over_or_duplicate(old):
        ms = old.self._running[old.trial_id]["milestone"]
        res = old.result["epoch"]
        j = None
        for i in range(len(old.self._rungs)):
            if old.self._rungs[i].level == ms:
                j = i
        # never silently skipped: resource beyond the milestone, or the trial already sits in that rung
        return res > ms or (j is not None and res == ms and (old.trial_id in old.self._rungs[j]))

    def ensures(old, s, result):
        rs0 = old.self
        rs1 = s.self
        n = len(rs0._rungs)
        res = old.result["epoch"]
        ms = rs0._running[old.trial_id]["milestone"]
        rf = rs0._running[old.trial_id]["resume_from"]
        out = {
            "pause-exactly-at-milestone": result["task_continues"] == (res < ms),
            "milestone_reached": result["milestone_reached"] == (res >= ms),
            "ignore_data": result["ignore_data"] == (rf is not None and res <= rf),
            "running-unchanged": unchanged(rs1._running, rs0._running),
        }
        j = None
        for i in range(n):
            if rs0._rungs[i].level == ms:
                j = i
        if res == ms and j is not None:
            out["recorded-once"] = inserted(rs1._rungs[j], rs0._rungs[j], old.trial_id, old.result["loss"])
            out["recorded-unpromoted"] = exists(range(0, len(rs1._rungs[j].data)), lambda p: rs1._rungs[j].data[p].trial_id == old.trial_id and not rs1._rungs[j].data[p].was_promoted)
            out["next"] = result["next_milestone"] == (rs0._rungs[j - 1].level if j > 0 else rs0._max_t)
            out["others-unchanged"] = forall(range(0, n), lambda i: unchanged(rs1._rungs[i], rs0._rungs[i]) if i != j else True)
        else:
            out["frame"] = unchanged(rs1._rungs, rs0._rungs)
        return out


@contract(HB_PROM + ":PromotionRungSystem.on_task_remove", props=("C04", "C13"))
class Prom_on_task_remove:
    params = dict(self=Obj("PromotionRungSystem"), trial_id=Str)
    proof_shapes = [{"self._rungs": k} for k in range(0, 3)]
    shapes = []

    def requires(s):
        return True

    def ensures(old, s, result):
        return {
            "removed": old.trial_id not in s.self._running,
            "rungs-unchanged": unchanged(s.self._rungs, old.self._rungs),
            "others-kept": forall_keys_kept(s.self._running, old.self._running, old.trial_id),
        }


def cumcost(r, f):
    return sum(r.data[i].cost_val for i in range(0, f + 1))


def cost_promotable_spec(r, result):
    """cost-aware eligibility (bounded shapes): candidate = first un-promoted entry; eligible iff the
    cumulative cost of all better entries including its own is at most q * total (equality either way)"""
    n = len(r.data)
    if n < 2:
        return result is None
    thr = cumcost(r, n - 1) * r.prom_quant
    if result is None:
        return forall(range(0, n), lambda f: (not (cumcost(r, f) < thr)) if first_unpromoted(r, f) else True)
    pos = result[1]
    return first_unpromoted(r, pos) and result[0] == r.data[pos].trial_id and cumcost(r, pos) <= thr


@contract(HB_COST + ":CostPromotionRungSystem._find_promotable_trial", props=("C04",))
class Cost_find_promotable:
    params = dict(self=Obj("CostPromotionRungSystem"), rung=Obj("CRung"))
    unbounded = False  # sum over the rung: bounded stand-in only
    shapes = [{"self._rungs": 0, "*": k} for k in range(0, 5)]

    def requires(s):
        # costs are accumulated training costs: non-negative (domain invariant of the cost attribute)
        return {"mode": s.rung._is_min == (s.self._mode == "min"), "costs-nonneg": forall(range(0, len(s.rung.data)), lambda i: s.rung.data[i].cost_val >= 0)}

    def ensures(old, s, result):
        return {"spec": cost_promotable_spec(old.rung, result), "frame": unchanged(s.rung, old.rung)}


from pyvc.native import native_monitor  # noqa: E402

EXTRA_CHECKS = [native_monitor("C04", "contracts.c04_native", "monitor_hyperband", "hyperband", "631 (thorough 3598) scenarios: the real HyperbandScheduler (promotion, pasha, rush, cost-aware, stopping; 1..3 brackets; all data policies; random and GP searcher) under a Tuner-like event loop with failures and self-completion, compared with an independent ledger (numpy quantiles, three-valued eligibility with tie latitude, total cost, PASHA min/max twin)")]
