"""Interface contracts of the abstract collaborators of the tuning loop (DESIGN Appendix A).

When ``Tuner`` is the verified caller these are ASSUMED (every use is listed in the evidence);
their ``requires`` are the protocol preconditions that become call-pre obligations at every call site.
Ghost state (threaded through all contracts as ``s.G``):
  G.sched[t]  what the scheduler has been told about trial t: 0 nothing, 1 started (added / resumed),
              2 reporting, 3 run ended (removed / completed / error)
  G.phase[t]  what the tuner/back end did to t: 0 none, 1 running, 2 paused, 3 stopped
  G.nres[t]   number of results of t handed to the scheduler
  G.ckpt[t]   1 once the checkpoint of t has been deleted
  G.started   number of trials started so far (== next trial id)
  G.nrun      number of trials that occupy a worker; G.nw = n_workers; G.stop = 1 once the stopping criterion held
"""
from pyvc.spec import *

try:  # native side; symbolically resolved from /repo's source
    from syne_tune.backend.trial_status import Trial
except ImportError:
    pass

GHOST = dict(sched=TotalMap(Int, Int), phase=TotalMap(Int, Int), nres=TotalMap(Int, Int), ckpt=TotalMap(Int, Int), started=Int, nrun=Int, nw=Int, stop=Int, last=TotalMap(Int, Str))

RESULT_T = Rec(epoch=Int, loss=Real)
DECISION_T = Enum("CONTINUE", "PAUSE", "STOP")
STATUS_T = Enum("Completed", "InProgress", "Failed", "Paused", "Stopped", "Stopping")

declare_class("Trial", "syne_tune.backend.trial_status:Trial", dict(trial_id=Int), builder="trial")
declare_class("TrialSuggestion", "syne_tune.optimizer.scheduler:TrialSuggestion", dict(spawn_new_trial_id=Bool, checkpoint_trial_id=Opt(Int), config=Opt(Rec(x=Int))), inv="suggestion_inv")


def suggestion_inv(sg):
    # TrialSuggestion.__post_init__
    return {
        "new-needs-config-or-ckpt": implies(sg.spawn_new_trial_id, sg.checkpoint_trial_id is not None or sg.config is not None),
        "resume-needs-ckpt": implies(not sg.spawn_new_trial_id, sg.checkpoint_trial_id is not None),
    }


def live(G, t):
    return G.sched[t] == 1 or G.sched[t] == 2


# -- TrialScheduler ---------------------------------------------------------------------------


@contract("iface:TrialScheduler.on_trial_result")
class I_sched_on_trial_result:
    params = dict(self=None, trial=None, result=None)
    returns = DECISION_T

    def requires(s):
        return {"run-live": live(s.G, s.trial.trial_id), "trial-running": s.G.phase[s.trial.trial_id] == 1}

    def effect(s):
        s.G.sched[s.trial.trial_id] = 2
        s.G.nres[s.trial.trial_id] = s.G.nres[s.trial.trial_id] + 1


@contract("iface:TrialScheduler.on_trial_remove")
class I_sched_on_trial_remove:
    params = dict(self=None, trial=None)

    def requires(s):
        return {"run-live": live(s.G, s.trial.trial_id)}

    def effect(s):
        s.G.sched[s.trial.trial_id] = 3


@contract("iface:TrialScheduler.on_trial_complete")
class I_sched_on_trial_complete:
    params = dict(self=None, trial=None, result=None)

    def requires(s):
        return {"run-live": live(s.G, s.trial.trial_id)}

    def effect(s):
        s.G.sched[s.trial.trial_id] = 3


@contract("iface:TrialScheduler.on_trial_error")
class I_sched_on_trial_error:
    params = dict(self=None, trial=None)

    def requires(s):
        return {"run-live": live(s.G, s.trial.trial_id)}

    def effect(s):
        s.G.sched[s.trial.trial_id] = 3


@contract("iface:TrialScheduler.on_trial_add")
class I_sched_on_trial_add:
    params = dict(self=None, trial=None)

    def requires(s):
        return {"fresh-trial": s.G.sched[s.trial.trial_id] == 0}

    def effect(s):
        s.G.sched[s.trial.trial_id] = 1


@contract("iface:TrialScheduler.suggest")
class I_sched_suggest:
    params = dict(self=None, trial_id=None)
    returns = Opt(Obj("TrialSuggestion"))

    def requires(s):
        return {"next-id": s.trial_id == s.G.started}

    def ensures(old, s, result):
        if result is None:
            return True
        out = suggestion_inv(result)
        # what every shipped scheduler guarantees (assumed here for the abstract scheduler; the resume clauses
        # are obligations of the concrete pause-and-resume schedulers, cf. C04 / C05 / C20)
        out["new-trial-has-config"] = implies(result.spawn_new_trial_id, result.config is not None)
        out["resumes-only-paused"] = implies(not result.spawn_new_trial_id, s.G.phase[result.checkpoint_trial_id] == 2 and s.G.ckpt[result.checkpoint_trial_id] == 0)
        out["clone-source-has-checkpoint"] = implies(result.spawn_new_trial_id and result.checkpoint_trial_id is not None, s.G.ckpt[result.checkpoint_trial_id] == 0)
        return out


@contract("iface:TrialScheduler.metric_names")
class I_sched_metric_names:
    params = dict(self=None)
    returns = Lit(["loss"])


@contract("iface:TrialScheduler.metric_mode")
class I_sched_metric_mode:
    params = dict(self=None)
    returns = Enum("min", "max")


# -- TrialBackend ---------------------------------------------------------------------------------


@contract("iface:TrialBackend.new_trial_id")
class I_be_new_trial_id:
    params = dict(self=None)

    def make_result(s):
        return s.G.started


@contract("iface:TrialBackend.start_trial")
class I_be_start_trial:
    params = dict(self=None, config=None, checkpoint_trial_id=None)
    defaults = dict(checkpoint_trial_id=None)
    returns = Obj("Trial")

    def requires(s):
        return {
            "checkpoint-exists": s.checkpoint_trial_id is None or s.G.ckpt[s.checkpoint_trial_id] == 0,
            "worker-free": s.G.nrun < s.G.nw,
            "not-after-stop-criterion": s.G.stop == 0,
        }

    def effect(s):
        s.G.phase[s.G.started] = 1
        s.G.started = s.G.started + 1
        s.G.nrun = s.G.nrun + 1

    def make_result(s):
        # (start_trial is called after the effect: the id just issued is started - 1)
        return Trial(trial_id=s.G.started - 1, config=s.config, creation_time=None)

    def ensures(old, s, result):
        return {"id-issued-in-sequence": result.trial_id == old.G.started}

    returns = None


@contract("iface:TrialBackend.resume_trial")
class I_be_resume_trial:
    params = dict(self=None, trial_id=None, new_config=None)
    defaults = dict(new_config=None)
    returns = Obj("Trial")

    def requires(s):
        return {
            "only-paused-is-resumed": s.G.phase[s.trial_id] == 2,
            "checkpoint-exists": s.G.ckpt[s.trial_id] == 0,
            "worker-free": s.G.nrun < s.G.nw,
            "not-after-stop-criterion": s.G.stop == 0,
        }

    def effect(s):
        s.G.phase[s.trial_id] = 1
        s.G.nrun = s.G.nrun + 1
        s.G.sched[s.trial_id] = 1  # the scheduler asked for the resume: a new run of the trial starts

    def ensures(old, s, result):
        return {"same-trial": result.trial_id == old.trial_id}


@contract("iface:TrialBackend.stop_trial")
class I_be_stop_trial:
    params = dict(self=None, trial_id=None, result=None)
    defaults = dict(result=None)

    def requires(s):
        return {"running": s.G.phase[s.trial_id] == 1}

    def effect(s):
        s.G.phase[s.trial_id] = 3
        s.G.ckpt[s.trial_id] = 1  # with delete_checkpoints the checkpoint is gone (worst case)
        s.G.nrun = s.G.nrun - 1


@contract("iface:TrialBackend.pause_trial")
class I_be_pause_trial:
    params = dict(self=None, trial_id=None, result=None)
    defaults = dict(result=None)

    def requires(s):
        return {"running": s.G.phase[s.trial_id] == 1}

    def effect(s):
        s.G.phase[s.trial_id] = 2
        s.G.nrun = s.G.nrun - 1


@contract("iface:TrialBackend.stdout")
class I_be_stdout:
    params = dict(self=None, trial_id=None)
    returns = Lit([])


@contract("iface:TrialBackend.stderr")
class I_be_stderr:
    params = dict(self=None, trial_id=None)
    returns = Lit([])


# -- callbacks: frame = callback state only -------------------------------------------------------------


@contract("iface:TunerCallback.on_trial_result")
class I_cb_on_trial_result:
    params = dict(self=None, trial=None, status=None, result=None, decision=None)


@contract("iface:TunerCallback.on_trial_complete")
class I_cb_on_trial_complete:
    params = dict(self=None, trial=None, result=None)


@contract("iface:TunerCallback.on_start_trial")
class I_cb_on_start_trial:
    params = dict(self=None, trial=None)


@contract("iface:TunerCallback.on_resume_trial")
class I_cb_on_resume_trial:
    params = dict(self=None, trial=None)


@contract("iface:TunerCallback.on_tuning_sleep")
class I_cb_on_tuning_sleep:
    params = dict(self=None, sleep_time=None)


@contract("iface:TunerCallback.on_fetch_status_results")
class I_cb_on_fetch:
    params = dict(self=None, trial_status_dict=None, new_results=None)


@contract("iface:TuningStatus.update")
class I_ts_update:
    params = dict(self=None, trial_status_dict=None, new_results=None)

    def effect(s):
        # G.last[t]: status of trial t in the most recent update that mentioned it
        for t, v in s.trial_status_dict.items():
            s.G.last[t] = v[1]


@contract("iface:TuningStatus.num_trials_failed")
class I_ts_num_trials_failed:
    """number of trials whose last reported status is Failed (each failed trial is reported once)"""

    params = dict(self=None)
    attribute = True

    def make_result(s):
        n = 0
        for t in range(s.G.started):
            n = n + ite(s.G.last[t] == "Failed", 1, 0)
        return n


@contract("iface:TrialBackend.busy_trial_ids")
class I_be_busy_trial_ids:
    params = dict(self=None)
    returns = List(Tup(Int, Lit("InProgress")))

    def ensures(old, s, result):
        n = len(result)
        return {
            "busy-are-running": forall(range(0, n), lambda i: s.G.phase[result[i][0]] == 1),
            "distinct": forall(range(0, n), lambda i: forall(range(0, n), lambda j: result[i][0] != result[j][0] if i < j else True)),
        }

    def after(s, result):
        # the back end's own view of the occupied workers is authoritative
        s.G.nrun = len(result)


# -- additional collaborators of Tuner.run ------------------------------------------------------------------
# ghost for the loop: G.iter   number of evaluations of the stopping criterion so far
#                     G.stop   1 once the criterion has answered True
#                     G.nrun   number of trials that occupy a worker (started/resumed and not yet ended)
#                     G.nw     n_workers
#                     G.K      bound on loop iterations of the harness (the criterion answers True at iteration K)

RUN_GHOST = dict(GHOST, iter=Lit(0), stop=Lit(0), nrun=Lit(0), nw=Int, K=Int, script=Int)
# G.script directs the environment of the Tuner.run harness:
#   0  free: statuses, reports, decisions, resumes and exhaustion are all arbitrary
#   1  pause-and-resume: trials stay InProgress and report every poll; results delivered in the
#      second loop iteration are answered PAUSE, all others CONTINUE; a paused trial is resumed at once
RUN_GHOST["started"] = Lit(0)


@contract("iface:StoppingCriterion.__call__")
class I_stop_criterion:
    params = dict(self=None, status=None)
    returns = Bool

    def effect(s):
        s.G.iter = s.G.iter + 1

    def ensures(old, s, result):
        # the harness bounds the number of loop iterations: at the K-th evaluation the criterion holds
        return {"bounded-run": implies(s.G.iter >= s.G.K, result), "sticky": implies(old.G.stop == 1, result)}

    def after(s, result):
        if result:
            s.G.stop = 1


@contract("iface:TrialBackend.fetch_status_results")
class I_be_fetch_status_results:
    """one entry per polled trial; statuses of polled trials are never Paused/Stopping (they are running for
    the tuner); results belong to polled trials"""

    params = dict(self=None, trial_ids=None)

    def requires(s):
        # every trial the tuner started or resumed and whose run has not ended yet is polled (otherwise its results are
        # never fetched and its end is never noticed)
        return {"running-trials-are-polled": forall(range(0, 6), lambda t: (t in s.trial_ids) if (t < s.G.started and s.G.phase[t] == 1 and live(s.G, t)) else True)}

    def make_result(s):
        d = dict()
        res = []
        for t in s.trial_ids:
            if s.G.stop == 1:
                st = "Completed"  # once the criterion held, running trials finish (the loop may wait for them)
            elif s.G.script == 1:
                st = "InProgress"
            else:
                st = arbitrary("status", Enum("InProgress", "Completed", "Failed", "Stopped"))
            d[t] = (Trial(trial_id=t, config=dict(), creation_time=None), st)
            if s.G.script == 1 or s.G.stop == 1 or arbitrary("reports", Bool):
                res.append((t, {"epoch": arbitrary("epoch", Int), "loss": arbitrary("loss", Real)}))
        return (d, res)

    def after(s, result):
        for t in s.trial_ids:
            if result[0][t][1] != "InProgress":
                s.G.nrun = s.G.nrun - 1  # the worker of a completed / failed / externally stopped trial is free


@contract("iface:TrialBackend.stop_all")
class I_be_stop_all:
    params = dict(self=None)


@contract("iface:TuningStatus.mark_running_job_as_stopped")
class I_ts_mark:
    params = dict(self=None)


@contract("iface:TunerCallback.on_tuning_start")
class I_cb_on_tuning_start:
    params = dict(self=None, tuner=None)


@contract("iface:TunerCallback.on_tuning_end")
class I_cb_on_tuning_end:
    params = dict(self=None)


@contract("iface:TunerCallback.on_loop_start")
class I_cb_on_loop_start:
    params = dict(self=None)


@contract("iface:TunerCallback.on_loop_end")
class I_cb_on_loop_end:
    params = dict(self=None)


@contract("iface:Path.mkdir")
class I_path_mkdir:
    params = dict(self=None, exist_ok=None, parents=None)
    defaults = dict(exist_ok=False, parents=False)


# -- scheduler of the bounded Tuner.run harness: concrete trial ids ------------------------------------------

try:
    from syne_tune.optimizer.scheduler import TrialSuggestion
except ImportError:
    pass


@contract("iface:RunScheduler.on_trial_result")
class I_rs_on_trial_result(I_sched_on_trial_result):
    returns = None

    def make_result(s):
        if s.G.script == 1:
            return "PAUSE" if s.G.iter == 2 else "CONTINUE"
        return arbitrary("decision", Enum("CONTINUE", "PAUSE", "STOP"))


@contract("iface:RunScheduler.on_trial_remove")
class I_rs_on_trial_remove(I_sched_on_trial_remove):
    pass


@contract("iface:RunScheduler.on_trial_complete")
class I_rs_on_trial_complete(I_sched_on_trial_complete):
    pass


@contract("iface:RunScheduler.on_trial_error")
class I_rs_on_trial_error(I_sched_on_trial_error):
    pass


@contract("iface:RunScheduler.on_trial_add")
class I_rs_on_trial_add(I_sched_on_trial_add):
    pass


@contract("iface:RunScheduler.metric_names")
class I_rs_metric_names(I_sched_metric_names):
    pass


@contract("iface:RunScheduler.metric_mode")
class I_rs_metric_mode(I_sched_metric_mode):
    pass


@contract("iface:RunScheduler.suggest")
class I_rs_suggest:
    """an arbitrary well-behaved scheduler: resumes some trial it paused, or starts a new one, or gives up"""

    params = dict(self=None, trial_id=None)

    def requires(s):
        return {"next-id": s.trial_id == s.G.started}

    def make_result(s):
        for t in range(s.G.started):
            if s.G.phase[t] == 2 and s.G.ckpt[t] == 0:
                if s.G.script == 1 or arbitrary("resume", Bool):
                    return TrialSuggestion.resume_suggestion(t)
        if s.G.script != 1 and arbitrary("exhausted", Bool):
            return None
        return TrialSuggestion.start_suggestion({"x": 0})


@contract("iface:RunBackend.resume_trial")
class I_rb_resume_trial(I_be_resume_trial):
    returns = None

    def make_result(s):
        return Trial(trial_id=s.trial_id, config=dict(), creation_time=None)


@contract("iface:RunBackend.new_trial_id")
class I_rb_new_trial_id(I_be_new_trial_id):
    pass


@contract("iface:RunBackend.start_trial")
class I_rb_start_trial(I_be_start_trial):
    pass


@contract("iface:RunBackend.stop_trial")
class I_rb_stop_trial(I_be_stop_trial):
    pass


@contract("iface:RunBackend.pause_trial")
class I_rb_pause_trial(I_be_pause_trial):
    pass


@contract("iface:RunBackend.stdout")
class I_rb_stdout(I_be_stdout):
    pass


@contract("iface:RunBackend.stderr")
class I_rb_stderr(I_be_stderr):
    pass


@contract("iface:RunBackend.busy_trial_ids")
class I_rb_busy_trial_ids(I_be_busy_trial_ids):
    pass


@contract("iface:RunBackend.fetch_status_results")
class I_rb_fetch_status_results(I_be_fetch_status_results):
    pass


@contract("iface:RunBackend.stop_all")
class I_rb_stop_all(I_be_stop_all):
    pass
