"""Interface contracts of the abstract collaborators of the tuning loop (DESIGN Appendix A).

When ``Tuner`` is the verified caller these are ASSUMED (every use is listed in the evidence);
their ``requires`` are the protocol preconditions that become call-pre obligations at every call site.
Ghost state (threaded through all contracts as ``s.G``):
  G.sched[t]  what the scheduler has been told about trial t: 0 nothing, 1 started (added / resumed),
              2 reporting, 3 run ended (removed / completed / error)
  G.phase[t]  what the tuner/back end did to t: 0 none, 1 running, 2 paused, 3 stopped
  G.nres[t]   number of results of t handed to the scheduler
  G.ckpt[t]   1 once the checkpoint of t has been deleted
  G.started   number of trials started so far (== next trial id)
"""
from pyvc.spec import *

GHOST = dict(sched=TotalMap(Int, Int), phase=TotalMap(Int, Int), nres=TotalMap(Int, Int), ckpt=TotalMap(Int, Int), started=Int)

RESULT_T = Rec(epoch=Int, loss=Real)
DECISION_T = Enum("CONTINUE", "PAUSE", "STOP")
STATUS_T = Enum("Completed", "InProgress", "Failed", "Paused", "Stopped", "Stopping")

declare_class("Trial", "syne_tune.backend.trial_status:Trial", dict(trial_id=Int), builder="trial")
declare_class("TrialSuggestion", "syne_tune.optimizer.scheduler:TrialSuggestion", dict(spawn_new_trial_id=Bool, checkpoint_trial_id=Opt(Int), config=Opt(Rec(x=Int))), inv="suggestion_inv")


def suggestion_inv(sg):
    # TrialSuggestion.__post_init__
    return {
        "new-needs-config-or-ckpt": implies(sg.spawn_new_trial_id, sg.checkpoint_trial_id is not None or sg.config is not None),
        "resume-needs-ckpt": implies(not sg.spawn_new_trial_id, sg.checkpoint_trial_id is not None),
    }


def live(G, t):
    return G.sched[t] == 1 or G.sched[t] == 2


# -- TrialScheduler ---------------------------------------------------------------------------


@contract("iface:TrialScheduler.on_trial_result")
class I_sched_on_trial_result:
    params = dict(self=None, trial=None, result=None)
    returns = DECISION_T

    def requires(s):
        return {"run-live": live(s.G, s.trial.trial_id), "trial-running": s.G.phase[s.trial.trial_id] == 1}

    def effect(s):
        s.G.sched[s.trial.trial_id] = 2
        s.G.nres[s.trial.trial_id] = s.G.nres[s.trial.trial_id] + 1


@contract("iface:TrialScheduler.on_trial_remove")
class I_sched_on_trial_remove:
    params = dict(self=None, trial=None)

    def requires(s):
        return {"run-live": live(s.G, s.trial.trial_id)}

    def effect(s):
        s.G.sched[s.trial.trial_id] = 3


@contract("iface:TrialScheduler.on_trial_complete")
class I_sched_on_trial_complete:
    params = dict(self=None, trial=None, result=None)

    def requires(s):
        return {"run-live": live(s.G, s.trial.trial_id)}

    def effect(s):
        s.G.sched[s.trial.trial_id] = 3


@contract("iface:TrialScheduler.on_trial_error")
class I_sched_on_trial_error:
    params = dict(self=None, trial=None)

    def requires(s):
        return {"run-live": live(s.G, s.trial.trial_id)}

    def effect(s):
        s.G.sched[s.trial.trial_id] = 3


@contract("iface:TrialScheduler.on_trial_add")
class I_sched_on_trial_add:
    params = dict(self=None, trial=None)

    def requires(s):
        return {"fresh-trial": s.G.sched[s.trial.trial_id] == 0}

    def effect(s):
        s.G.sched[s.trial.trial_id] = 1


@contract("iface:TrialScheduler.suggest")
class I_sched_suggest:
    params = dict(self=None, trial_id=None)
    returns = Opt(Obj("TrialSuggestion"))

    def requires(s):
        return {"next-id": s.trial_id == s.G.started}

    def ensures(old, s, result):
        if result is None:
            return True
        out = suggestion_inv(result)
        # what every shipped scheduler guarantees (assumed here for the abstract scheduler; the resume clauses
        # are obligations of the concrete pause-and-resume schedulers, cf. C04 / C05 / C20)
        out["new-trial-has-config"] = implies(result.spawn_new_trial_id, result.config is not None)
        out["resumes-only-paused"] = implies(not result.spawn_new_trial_id, s.G.phase[result.checkpoint_trial_id] == 2 and s.G.ckpt[result.checkpoint_trial_id] == 0)
        out["clone-source-has-checkpoint"] = implies(result.spawn_new_trial_id and result.checkpoint_trial_id is not None, s.G.ckpt[result.checkpoint_trial_id] == 0)
        return out


@contract("iface:TrialScheduler.metric_names")
class I_sched_metric_names:
    params = dict(self=None)
    returns = Lit(["loss"])


@contract("iface:TrialScheduler.metric_mode")
class I_sched_metric_mode:
    params = dict(self=None)
    returns = Enum("min", "max")


# -- TrialBackend ---------------------------------------------------------------------------------


@contract("iface:TrialBackend.new_trial_id")
class I_be_new_trial_id:
    params = dict(self=None)
    returns = Int

    def ensures(old, s, result):
        return {"sequence": result == s.G.started}


@contract("iface:TrialBackend.start_trial")
class I_be_start_trial:
    params = dict(self=None, config=None, checkpoint_trial_id=None)
    defaults = dict(checkpoint_trial_id=None)
    returns = Obj("Trial")

    def requires(s):
        return {"checkpoint-exists": s.checkpoint_trial_id is None or s.G.ckpt[s.checkpoint_trial_id] == 0}

    def effect(s):
        s.G.phase[s.G.started] = 1
        s.G.started = s.G.started + 1

    def ensures(old, s, result):
        return {"id-issued-in-sequence": result.trial_id == old.G.started}


@contract("iface:TrialBackend.resume_trial")
class I_be_resume_trial:
    params = dict(self=None, trial_id=None, new_config=None)
    defaults = dict(new_config=None)
    returns = Obj("Trial")

    def requires(s):
        return {"only-paused-is-resumed": s.G.phase[s.trial_id] == 2, "checkpoint-exists": s.G.ckpt[s.trial_id] == 0}

    def effect(s):
        s.G.phase[s.trial_id] = 1
        s.G.sched[s.trial_id] = 1  # the scheduler asked for the resume: a new run of the trial starts

    def ensures(old, s, result):
        return {"same-trial": result.trial_id == old.trial_id}


@contract("iface:TrialBackend.stop_trial")
class I_be_stop_trial:
    params = dict(self=None, trial_id=None, result=None)
    defaults = dict(result=None)

    def requires(s):
        return {"running": s.G.phase[s.trial_id] == 1}

    def effect(s):
        s.G.phase[s.trial_id] = 3
        s.G.ckpt[s.trial_id] = 1  # with delete_checkpoints the checkpoint is gone (worst case)


@contract("iface:TrialBackend.pause_trial")
class I_be_pause_trial:
    params = dict(self=None, trial_id=None, result=None)
    defaults = dict(result=None)

    def requires(s):
        return {"running": s.G.phase[s.trial_id] == 1}

    def effect(s):
        s.G.phase[s.trial_id] = 2


@contract("iface:TrialBackend.stdout")
class I_be_stdout:
    params = dict(self=None, trial_id=None)
    returns = Lit([])


@contract("iface:TrialBackend.stderr")
class I_be_stderr:
    params = dict(self=None, trial_id=None)
    returns = Lit([])


# -- callbacks: frame = callback state only -------------------------------------------------------------


@contract("iface:TunerCallback.on_trial_result")
class I_cb_on_trial_result:
    params = dict(self=None, trial=None, status=None, result=None, decision=None)


@contract("iface:TunerCallback.on_trial_complete")
class I_cb_on_trial_complete:
    params = dict(self=None, trial=None, result=None)


@contract("iface:TunerCallback.on_start_trial")
class I_cb_on_start_trial:
    params = dict(self=None, trial=None)


@contract("iface:TunerCallback.on_resume_trial")
class I_cb_on_resume_trial:
    params = dict(self=None, trial=None)


@contract("iface:TunerCallback.on_tuning_sleep")
class I_cb_on_tuning_sleep:
    params = dict(self=None, sleep_time=None)


@contract("iface:TunerCallback.on_fetch_status_results")
class I_cb_on_fetch:
    params = dict(self=None, trial_status_dict=None, new_results=None)


@contract("iface:TuningStatus.update")
class I_ts_update:
    params = dict(self=None, trial_status_dict=None, new_results=None)


@contract("iface:TrialBackend.busy_trial_ids")
class I_be_busy_trial_ids:
    params = dict(self=None)
    returns = List(Tup(Int, Lit("InProgress")))

    def ensures(old, s, result):
        n = len(result)
        return {
            "busy-are-running": forall(range(0, n), lambda i: s.G.phase[result[i][0]] == 1),
            "distinct": forall(range(0, n), lambda i: forall(range(0, n), lambda j: result[i][0] != result[j][0] if i < j else True)),
        }
