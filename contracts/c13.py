"""C13 -- trial failures are contained."""
from pyvc.spec import *
from contracts.iface import *
from contracts.tjs import *
from contracts.c01 import Tuner_update_running_trials  # noqa: F401  (one error notification per failed trial)
from contracts.c12 import Tuner_run  # noqa: F401  (failure limit, run carries on below the limit)
from contracts.c04 import Prom_on_task_remove  # noqa: F401  (rung entries / running map of other trials intact)
from contracts.c05 import ScenarioManager  # noqa: F401  (failed jobs rank last, brackets do not wait forever)

LEVEL = "proof"
EXPLANATION = (
    "Failure containment is decided per layer: the tuner notifies the scheduler once per failure and enforces the limit "
    "(C01 / C12 contracts), promotion rung systems and synchronous brackets keep other trials' bookkeeping (C04 / C05 contracts), "
    "and the GP searchers' pending / failed bookkeeping is verified here (frame: other trials' pending entries stay)."
)
ASSUMPTIONS = ["see C01, C04, C05, C12 for the shared obligations", "bounded: <= 3 pending evaluations in the bounded units"]

TUNER = "syne_tune.tuner"

declare_class("TunerHF", TUNER + ":Tuner", dict(trial_backend=Abstract("TrialBackend"), max_failures=Int))


@contract(TUNER + ":Tuner._handle_failure", props=("C13",))
class Tuner_handle_failure:
    """exceeding the limit ends the run with an error that names a failed trial"""

    params = dict(self=Obj("TunerHF"), done_trials_statuses=ADict(Int, Tup(Obj("Trial"), STATUS_T)))
    ghost = GHOST
    unbounded = False
    shapes = [{"done_trials_statuses": k} for k in range(0, 4)]
    raises = {"ValueError": "some_trial_failed"}

    def requires(s):
        return True

    def some_trial_failed(old):
        vals = list(old.done_trials_statuses.values())
        return exists(range(0, len(vals)), lambda i: vals[i][1] == "Failed")

    def ensures(old, s, result):
        vals = list(old.done_trials_statuses.values())
        # returning normally is only possible when no listed trial failed
        return {"no-failed-trial-listed": not exists(range(0, len(vals)), lambda i: vals[i][1] == "Failed")}


# -- synchronous Hyperband: a failed job fills its slot (as NaN) so that the bracket does not wait forever ---

SYNC_HB = "syne_tune.optimizer.schedulers.synchronous.hyperband"

declare_class("SlotInRung", "syne_tune.optimizer.schedulers.synchronous.hyperband_bracket:SlotInRung", dict(rung_index=Int, level=Int, slot_index=Int, trial_id=Opt(Int), metric_val=Opt(NanRealT)), builder="slot")
declare_class("SyncHB", SYNC_HB + ":SynchronousHyperbandScheduler", dict(bracket_manager=Abstract("SyncBracketManager"), _trials_checkpoints_can_be_removed=List(Int)))


@contract("iface:SyncBracketManager.on_result")
class I_sbm_on_result:
    params = dict(self=None, result=None)
    returns = Opt(List(Int, concrete_len=1))


@contract(SYNC_HB + ":SynchronousHyperbandScheduler._report_as_failed", props=("C13", "C05"))
class SyncHB_report_as_failed:
    params = dict(self=Obj("SyncHB"), bracket_id=Int, slot_in_rung=Obj("SlotInRung"))
    ghost = GHOST
    unbounded = False
    shapes = [{"*": 0}, {"*": 1}]

    def requires(s):
        return True

    def ensures(old, s, result):
        calls = [e for e in s.G.log if e[0] == "SyncBracketManager.on_result"]
        ok = len(calls) == 1
        if not ok:
            return {"slot-reported-once": False}
        bid, slot = calls[0][1]
        return {
            "slot-reported-once": True,
            "same-slot": bid == old.bracket_id and slot.rung_index == old.slot_in_rung.rung_index and slot.level == old.slot_in_rung.level and slot.slot_index == old.slot_in_rung.slot_index and slot.trial_id == old.slot_in_rung.trial_id,
            "reported-as-failed": is_nan(slot.metric_val),
        }
