"""C13 -- trial failures are contained."""
from pyvc.spec import *
from contracts.iface import *
from contracts.tjs import *
from contracts.c01 import Tuner_update_running_trials  # noqa: F401  (one error notification per failed trial)
from contracts.c12 import Tuner_run  # noqa: F401  (failure limit, run carries on below the limit)
from contracts.c04 import Prom_on_task_remove  # noqa: F401  (rung entries / running map of other trials intact)
from contracts.c05 import ScenarioManager  # noqa: F401  (failed jobs rank last, brackets do not wait forever)

LEVEL = "proof"
EXPLANATION = (
    "Failure containment is decided per layer: the tuner notifies the scheduler once per failure and enforces the limit "
    "(C01 / C12 contracts), promotion rung systems and synchronous brackets keep other trials' bookkeeping (C04 / C05 contracts), "
    "and the GP searchers' pending / failed bookkeeping is verified here (frame: other trials' pending entries stay)."
)
ASSUMPTIONS = ["see C01, C04, C05, C12 for the shared obligations", "bounded: <= 3 pending evaluations in the bounded units"]

TUNER = "syne_tune.tuner"

declare_class("TunerHF", TUNER + ":Tuner", dict(trial_backend=Abstract("TrialBackend"), max_failures=Int))


@contract(TUNER + ":Tuner._handle_failure", props=("C13",))
class Tuner_handle_failure:
    """exceeding the limit ends the run with an error that names a failed trial"""

    params = dict(self=Obj("TunerHF"), done_trials_statuses=ADict(Int, Tup(Obj("Trial"), STATUS_T)))
    ghost = GHOST
    unbounded = False
    shapes = [{"done_trials_statuses": k} for k in range(0, 4)]
    raises = {"ValueError": "some_trial_failed"}

    def requires(s):
        return True

    def some_trial_failed(old):
        vals = list(old.done_trials_statuses.values())
        return exists(range(0, len(vals)), lambda i: vals[i][1] == "Failed")

    def ensures(old, s, result):
        vals = list(old.done_trials_statuses.values())
        # returning normally is only possible when no listed trial failed
        return {"no-failed-trial-listed": not exists(range(0, len(vals)), lambda i: vals[i][1] == "Failed")}


# (the contract for a failed job of synchronous Hyperband -- reported to its bracket as NaN -- lives in contracts/c05.py)
from contracts.c05 import SyncHB_report_as_failed, I_sbm_on_result, SyncHB_on_trial_error, I_ss_evaluation_failed, I_ss_debug_log, SyncHB_on_trial_result, I_sbm_level_to_prev_level, I_ss_on_trial_result  # noqa: F401,E402


from pyvc.native import native_monitor  # noqa: E402

EXTRA_CHECKS = (list(EXTRA_CHECKS) if 'EXTRA_CHECKS' in globals() else []) + [native_monitor("C13", "contracts.c13_native", "monitor_failures", "failures", "1490 (thorough 6826) scenarios: real Tuner runs with failures placed before the first report / between reports / after a resume / stopped from outside (12 scheduler set-ups x 10 placements x 3 failure limits), searchers with restrict_configurations, GP searcher state before and after every failure, asynchronous and synchronous Hyperband, DEHB, PBT, MOASHA and the median rule against reference models")]
EXTRA_CHECKS = list(EXTRA_CHECKS) + [native_monitor("C13", "contracts.c05_native", "monitor_sync", "sync-hyperband", "the synchronous Hyperband / DEHB monitor of C05: every failure subset and return order (a failed job fills its slot, the rung completes, the others are promoted by the rule; a request for work raises only in the recorded DEHB situations)")]
