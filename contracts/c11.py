"""C11 -- seeded runs are reproducible."""
from pyvc.spec import *

LEVEL = "other"
SS = "syne_tune.optimizer.schedulers.scheduler_searcher"
RS = "syne_tune.optimizer.schedulers.random_seeds"

EXPLANATION = (
    "Reproducibility is decided as an effect (frame) property: (1) a static analysis of the real AST of every "
    "scheduler / searcher module in scope shows that no process-global random generator, clock, hash() or id() is "
    "called and that every sampling call site is handed a generator (obligations per module and rule; guarded "
    "fall-backs are listed one by one); (2) the seed plumbing of TrialSchedulerWithSearcher.__init__ / "
    "RandomSeedGenerator is verified with pyvc for every seed value including 0 (no ambient read when a seed is given); "
    "(3) a native twin-run monitor (bounded) drives two equal schedulers through the same event history while the "
    "global generators are perturbed, and repeats the run in a second process with another PYTHONHASHSEED."
)
ASSUMPTIONS = [
    "scope of the static analysis: the modules listed in SCOPE below (schedulers / searchers that accept random_seed); neuralbands, BORE, botorch, conformal, MOASHA and the Ray wrapper use global generators and are outside the property's quantifier",
    "numpy RandomState / Python dict ordering are deterministic functions of seed and history",
    "GP surrogate fitting: fresh-process twins only (not covered by the native monitor)",
    "native twin monitor: bounded histories (<= 40 events), 6 model-free schedulers",
]

SCOPE = [
    "syne_tune/config_space.py",
    "syne_tune/optimizer/scheduler.py",
    "syne_tune/optimizer/schedulers/fifo.py",
    "syne_tune/optimizer/schedulers/hyperband.py",
    "syne_tune/optimizer/schedulers/hyperband_stopping.py",
    "syne_tune/optimizer/schedulers/hyperband_promotion.py",
    "syne_tune/optimizer/schedulers/hyperband_pasha.py",
    "syne_tune/optimizer/schedulers/hyperband_rush.py",
    "syne_tune/optimizer/schedulers/hyperband_cost_promotion.py",
    "syne_tune/optimizer/schedulers/median_stopping_rule.py",
    "syne_tune/optimizer/schedulers/pbt.py",
    "syne_tune/optimizer/schedulers/random_seeds.py",
    "syne_tune/optimizer/schedulers/scheduler_searcher.py",
    "syne_tune/optimizer/schedulers/synchronous",
    "syne_tune/optimizer/schedulers/searchers/searcher.py",
    "syne_tune/optimizer/schedulers/searchers/searcher_base.py",
    "syne_tune/optimizer/schedulers/searchers/random_grid_searcher.py",
    "syne_tune/optimizer/schedulers/searchers/regularized_evolution.py",
    "syne_tune/optimizer/schedulers/searchers/bracket_distribution.py",
    "syne_tune/optimizer/schedulers/searchers/model_based_searcher.py",
    "syne_tune/optimizer/schedulers/searchers/gp_fifo_searcher.py",
    "syne_tune/optimizer/schedulers/searchers/gp_multifidelity_searcher.py",
    "syne_tune/optimizer/schedulers/searchers/gp_searcher_utils.py",
    "syne_tune/optimizer/schedulers/searchers/utils",
]

# guarded fall-backs: ``np.random`` is only used as the generator when the caller passed none; every call site in
# scope passes one (rule sampling-without-generator), so these sites are unreachable from seeded schedulers
JUSTIFIED = {
    ("global-rng-value", "syne_tune/config_space.py", "OrdinalNearestNeighbor.sample"),
    ("global-rng-value", "syne_tune/config_space.py", "Float._Uniform.sample"),
    ("global-rng-value", "syne_tune/config_space.py", "Float._LogUniform.sample"),
    ("global-rng-value", "syne_tune/config_space.py", "Float._ReverseLogUniform.sample"),
    ("global-rng-value", "syne_tune/config_space.py", "Float._Normal.sample"),
    ("global-rng-value", "syne_tune/config_space.py", "Integer._Uniform.sample"),
    ("global-rng-value", "syne_tune/config_space.py", "Integer._LogUniform.sample"),
    ("global-rng-value", "syne_tune/config_space.py", "Categorical._Uniform.sample"),
    # default argument of generate_random_seed: only used when random_seed is None (excluded by the property)
    ("global-rng-value", "syne_tune/optimizer/schedulers/random_seeds.py", "generate_random_seed"),
}


def static_effects(tier="quick", seed=0, repo="/repo"):
    from pyvc import effects

    found = effects.scan(repo, SCOPE)
    files = sorted({os.path.relpath(p, repo) for p in effects.module_files(repo, SCOPE)})
    rules = ["global-rng-call", "sampling-without-generator", "ambient-call", "global-rng-value"]
    res = {"name": "static-effects", "kind": "static-analysis", "counts_as": "proof", "obligations": {}, "violations": [], "faults": [], "samples": [], "assumptions": [], "evaluations": len(files) * len(rules), "distinct_nontrivial": len(files)}
    bad = {}
    for f in found:
        key = (f["kind"], f["file"], f["where"])
        if key in JUSTIFIED:
            res["assumptions"].append("justified guarded fall-back: %s in %s:%s" % (f["text"], f["file"], f["where"]))
            continue
        bad.setdefault((f["file"], f["kind"]), []).append(f)
    import json as _json

    out_dir = os.path.join(os.environ.get("PYVC_OUT_DIR", "/verif"), "replays", "C11")
    for fl in files:
        for rule in rules:
            name = "C11/static[%s][%s]" % (fl.replace("syne_tune/", ""), rule)
            if (fl, rule) in bad:
                res["obligations"][name] = "refuted"
                os.makedirs(out_dir, exist_ok=True)
                path = os.path.join(out_dir, name.replace("/", "_").replace("[", "(").replace("]", ")") + ".json")
                _json.dump({"property": "C11", "obligation": name, "sites": bad[(fl, rule)], "note": "static finding: the listed call sites read process-global nondeterminism or sample without the object's generator"}, open(path, "w"), indent=1)
                res["violations"].append({"obligation": name, "replay": path, "reproduced": False, "native": bad[(fl, rule)][:3]})
            else:
                res["obligations"][name] = "proved"
    res["samples"] = [{"obligation": n, "status": st} for n, st in list(res["obligations"].items())[:3]]
    if not files:
        res["faults"].append("static-effects: no module in scope found")
    return res


import os  # noqa: E402

# -- seed plumbing -------------------------------------------------------------------------------------------------

declare_class("SchedWithSearcher", SS + ":TrialSchedulerWithSearcher", dict())


@contract(SS + ":TrialSchedulerWithSearcher.__init__", props=("C11",), has_lists=False)
class SchedulerSeed:
    """a given random_seed (0 included) seeds the master generator; no global generator is read"""

    params = dict(self=Obj("SchedWithSearcher"), config_space=Lit({}), random_seed=Int)

    def requires(s):
        return {"legal-seed": 0 <= s.random_seed and s.random_seed < 2147483647}

    def ensures(old, s, result):
        return {
            "master-generator-seeded-with-the-given-seed": seed_of(s.self.random_seed_generator._random_state) == old.random_seed,
            "no-global-generator-read": ambient_reads() == 0,
        }


# -- native twin runs (bounded) ------------------------------------------------------------------------------------------


def _history(make_scheduler, steps, perturb, seed):
    """drive a scheduler through a deterministic pseudo-workload; returns the trace of suggestions / decisions"""
    import random
    import numpy as np
    from syne_tune.backend.trial_status import Trial
    from datetime import datetime

    sched = make_scheduler()
    trace = []
    running = {}
    paused = set()
    next_id = 0
    epoch_of = {}
    wl = np.random.RandomState(12345)  # private workload generator: which trial reports next, metric noise
    for step in range(steps):
        if perturb:
            np.random.seed((seed + 7919 * step) % (2**31))
            random.seed(seed + step)
            np.random.rand(3)
        if len(running) < 3:
            sug = sched.suggest(next_id)
            if sug is None:
                trace.append(("suggest", None))
            elif sug.spawn_new_trial_id:
                cfg = {k: v for k, v in sug.config.items()}
                trace.append(("start", next_id, sorted((k, repr(v)) for k, v in cfg.items() if k not in ("elapsed_time",)), sug.checkpoint_trial_id))
                t = Trial(trial_id=next_id, config=cfg, creation_time=datetime(2020, 1, 1))
                sched.on_trial_add(t)
                running[next_id] = t
                epoch_of[next_id] = 0
                next_id += 1
            else:
                tid = sug.checkpoint_trial_id
                trace.append(("resume", tid))
                t = Trial(trial_id=tid, config=sug.config or {}, creation_time=datetime(2020, 1, 1))
                running[tid] = t
                paused.discard(tid)
            continue
        tid = sorted(running)[wl.randint(len(running))]
        epoch_of[tid] += 1
        x = float(running[tid].config.get("x", 0.5)) if isinstance(running[tid].config.get("x", 0.5), (int, float)) else 0.5
        val = (x - 0.3) ** 2 + 1.0 / epoch_of[tid] + 0.01 * wl.rand()
        dec = sched.on_trial_result(running[tid], {"epoch": epoch_of[tid], "loss": val, "st_worker_cost": 1.0})
        trace.append(("result", tid, epoch_of[tid], dec))
        if dec == "STOP":
            sched.on_trial_remove(running[tid])
            del running[tid]
        elif dec == "PAUSE":
            sched.on_trial_remove(running[tid])
            paused.add(tid)
            del running[tid]
        elif epoch_of[tid] >= 9:
            sched.on_trial_complete(running[tid], {"epoch": epoch_of[tid], "loss": val})
            del running[tid]
    return trace


def _factories():
    from syne_tune.config_space import uniform, randint, choice
    from syne_tune.optimizer.schedulers.fifo import FIFOScheduler
    from syne_tune.optimizer.schedulers.hyperband import HyperbandScheduler
    from syne_tune.optimizer.schedulers.pbt import PopulationBasedTraining
    from syne_tune.optimizer.schedulers.median_stopping_rule import MedianStoppingRule
    from syne_tune.backend.simulator_backend.time_keeper import SimulatedTimeKeeper

    space = {"x": uniform(0.0, 1.0), "n": randint(1, 20), "c": choice(["a", "b", "c"]), "epochs": 9}

    def tk():
        k = SimulatedTimeKeeper()
        k.start_of_time()
        return k

    out = {}
    for sd in (0, 3):
        def with_tk(s):
            s.set_time_keeper(tk())  # (passing time_keeper to the constructor trips an assertion in the pinned tree)
            return s

        out["random[seed=%d]" % sd] = lambda sd=sd: with_tk(FIFOScheduler(space, searcher="random", metric="loss", mode="min", random_seed=sd))
        for tp in ("stopping", "promotion", "pasha", "rush_stopping"):
            kw = dict(rung_system_kwargs={"num_threshold_candidates": 1}) if tp.startswith("rush") else {}
            out["hyperband-%s[seed=%d]" % (tp, sd)] = lambda sd=sd, tp=tp, kw=kw: with_tk(HyperbandScheduler(space, searcher="random", type=tp, metric="loss", mode="min", resource_attr="epoch", max_t=9, grace_period=1, reduction_factor=3, brackets=(1 if tp == "pasha" else 2), random_seed=sd, **kw))
        out["pbt[seed=%d]" % sd] = lambda sd=sd: with_tk(PopulationBasedTraining(space, metric="loss", mode="min", resource_attr="epoch", max_t=9, population_size=3, perturbation_interval=2, random_seed=sd))
    return out


def _construction_factories():
    """every scheduler class that takes a random_seed, incl. the convenience subclasses that forward constructor arguments"""
    from syne_tune.config_space import uniform, randint, choice
    from syne_tune.optimizer.schedulers.fifo import FIFOScheduler
    from syne_tune.optimizer.schedulers.hyperband import HyperbandScheduler
    from syne_tune.optimizer.schedulers.pbt import PopulationBasedTraining
    from syne_tune.optimizer.schedulers.median_stopping_rule import MedianStoppingRule
    from syne_tune.optimizer.schedulers.synchronous.hyperband_impl import (
        SynchronousGeometricHyperbandScheduler,
        GeometricDifferentialEvolutionHyperbandScheduler,
    )
    from syne_tune.optimizer.schedulers.synchronous.hyperband import SynchronousHyperbandScheduler
    from syne_tune.optimizer.schedulers.synchronous.dehb import DifferentialEvolutionHyperbandScheduler

    space = {"x": uniform(0.0, 1.0), "n": randint(1, 20), "c": choice(["a", "b", "c"]), "epochs": 9}
    rungs = [(3, 1), (1, 3)]
    common = dict(metric="loss", mode="min", resource_attr="epoch")
    sync = dict(common, max_resource_attr="epochs", search_options={"debug_log": False})
    out = {
        "FIFOScheduler(random)": lambda sd: FIFOScheduler(space, searcher="random", metric="loss", mode="min", random_seed=sd),
        "FIFOScheduler(grid)": lambda sd: FIFOScheduler({"n": randint(1, 4), "c": choice(["a", "b", "c"])}, searcher="grid", metric="loss", mode="min", random_seed=sd),
        "HyperbandScheduler(promotion, 2 brackets)": lambda sd: HyperbandScheduler(space, searcher="random", type="promotion", max_t=9, grace_period=1, reduction_factor=3, brackets=2, random_seed=sd, **common),
        "MedianStoppingRule(FIFO)": lambda sd: MedianStoppingRule(FIFOScheduler(space, searcher="random", metric="loss", mode="min", random_seed=sd), resource_attr="epoch"),
        "PopulationBasedTraining": lambda sd: PopulationBasedTraining(space, max_t=9, population_size=3, perturbation_interval=2, random_seed=sd, **common),
        "SynchronousHyperbandScheduler": lambda sd: SynchronousHyperbandScheduler(space, bracket_rungs=[rungs], random_seed=sd, **sync),
        "SynchronousGeometricHyperbandScheduler": lambda sd: SynchronousGeometricHyperbandScheduler(space, grace_period=1, reduction_factor=3, max_resource_level=9, random_seed=sd, **sync),
        "DifferentialEvolutionHyperbandScheduler": lambda sd: DifferentialEvolutionHyperbandScheduler(space, rungs_first_bracket=rungs, random_seed=sd, **sync),
        "GeometricDifferentialEvolutionHyperbandScheduler": lambda sd: GeometricDifferentialEvolutionHyperbandScheduler(space, grace_period=1, reduction_factor=3, max_resource_level=9, random_seed=sd, **sync),
    }
    return out


def _first_suggestions(mk, sd, global_seed, count=4):
    """construct under a given state of the global generators, then ask for the first configurations"""
    import random
    import numpy as np
    from datetime import datetime
    from syne_tune.backend.trial_status import Trial

    np.random.seed(global_seed)
    random.seed(global_seed)
    sched = mk(sd)
    out = []
    for i in range(count):
        sug = sched.suggest(i)
        if sug is None or sug.config is None:
            out.append(None)
            continue
        out.append(sorted((k, repr(v)) for k, v in sug.config.items()))
        sched.on_trial_add(Trial(trial_id=i, config=sug.config, creation_time=datetime(2020, 1, 1)))
    return out


def monitor_twins(tier="quick", seed=0):
    import json as _json
    import subprocess
    import sys

    steps = 40 if tier == "quick" else 120
    facs = _factories()
    viol = []
    n = 0
    traces = {}
    # the user's random_seed must reach the scheduler whatever the global generators hold when it is CONSTRUCTED, and
    # different seeds must matter (otherwise the twin comparison would be vacuous)
    for name, mk in _construction_factories().items():
        n += 1
        try:
            a = _first_suggestions(mk, 5, 1000 + seed)
            b = _first_suggestions(mk, 5, 2000 + seed)
            c = [_first_suggestions(mk, sd, 1000 + seed) for sd in (6, 7, 8)]
        except Exception as e:
            viol.append({"clause": "seed-reaches-the-scheduler-at-construction", "scheduler": name, "raised": repr(e)[:200]})
            continue
        if a != b:
            viol.append({"clause": "seed-reaches-the-scheduler-at-construction", "scheduler": name, "global_state_1": repr(a)[:200], "global_state_2": repr(b)[:200]})
        elif all(x == a for x in c) and "grid" not in name:
            viol.append({"clause": "seed-reaches-the-scheduler-at-construction", "scheduler": name, "note": "four different random_seed values give identical suggestions", "suggestions": repr(a)[:200]})
    for name, mk in facs.items():
        a = _history(mk, steps, False, seed)
        b = _history(mk, steps, True, seed + 1)
        n += 2
        traces[name] = a
        if a != b:
            k = next(i for i in range(min(len(a), len(b))) if a[i] != b[i]) if len(a) == len(b) or True else 0
            viol.append({"clause": "independent-of-global-generators", "scheduler": name, "first_difference_at_event": k, "undisturbed": repr(a[k])[:200], "perturbed": repr(b[k])[:200]})
    # second process with another hash seed
    if os.environ.get("PYVC_TWIN_CHILD") != "1":
        env = dict(os.environ, PYVC_TWIN_CHILD="1", PYTHONHASHSEED="4242")
        p = subprocess.run([sys.executable, "-c", "import sys, json; sys.modules.setdefault('yahpo_gym', None); from contracts import c11; r = c11.monitor_twins(%r, %d); print('TWIN ' + json.dumps(r['traces'], default=str))" % (tier, seed)], env=env, stdout=subprocess.PIPE, stderr=subprocess.PIPE, text=True)
        other = None
        for l in p.stdout.splitlines():
            if l.startswith("TWIN "):
                other = _json.loads(l[5:])
        if other is None:
            viol.append({"clause": "independent-of-hash-randomisation", "scheduler": "*", "error": "child process failed: " + p.stderr[-300:]})
        else:
            mine = _json.loads(_json.dumps(traces, default=str))
            for name in mine:
                n += 1
                if mine[name] != other.get(name):
                    a, b = mine[name], other.get(name) or []
                    k = next((i for i in range(min(len(a), len(b))) if a[i] != b[i]), min(len(a), len(b)))
                    viol.append({"clause": "independent-of-hash-randomisation", "scheduler": name, "first_difference_at_event": k, "this_process": repr(a[k:k + 1])[:200], "other_hash_seed": repr(b[k:k + 1])[:200]})
    return {"evaluations": n, "distinct": len(facs), "clauses": ["independent-of-global-generators", "independent-of-hash-randomisation", "seed-reaches-the-scheduler-at-construction"], "violations": viol, "traces": traces, "samples": [{"scheduler": k, "trace_head": repr(v[:3])[:200]} for k, v in list(traces.items())[:2]], "summary": "%d schedulers x %d events, twin with perturbed global generators + second process with another PYTHONHASHSEED" % (len(facs), steps)}


from pyvc.native import native_monitor  # noqa: E402

EXTRA_CHECKS = [static_effects, native_monitor("C11", "contracts.c11", "monitor_twins", "twin-runs", "12 model-free schedulers x 40 events (120 in the thorough tier); 9 scheduler classes constructed under two states of the global generators, first 4 suggestions")]
EXTRA_CHECKS = list(EXTRA_CHECKS) + [native_monitor("C11", "contracts.c16_native", "monitor_seeded_searchers", "seeded-searchers", "14 searcher / scheduler components (random, grid, regularised evolution, GP single- and multi-fidelity, constrained, cost-aware, multi-surrogate multi-objective, PBT, DEHB) x 2 (4) base seeds: equal random_seed and equal random_seed_generator under different states of numpy's and Python's global generators with a decoy instance interleaved, different seeds differ, second process with another PYTHONHASHSEED")]
