"""C09 -- gradients for model fitting and acquisition search are the true derivatives."""
from pyvc.spec import *

try:  # native side only; symbolically the name is resolved from /repo's source
    from syne_tune.optimizer.schedulers.searchers.bayesopt.models.meanstd_acqfunc_impl import get_quantiles
except ImportError:
    pass

LEVEL = "exploration"
IMPL = "syne_tune.optimizer.schedulers.searchers.bayesopt.models.meanstd_acqfunc_impl"
A = "active"
C = "second"

declare_class("EI", IMPL + ":EIAcquisitionFunction", dict(jitter=Real, active_metric=Str, _debug_data=NoneT))
declare_class("LCB", IMPL + ":LCBAcquisitionFunction", dict(kappa=Real, active_metric=Str))
declare_class("EIpu", IMPL + ":EIpuAcquisitionFunction", dict(jitter=Real, exponent_cost=Real, active_metric=Str, cost_metric=Str))
declare_class("CEI", IMPL + ":CEIAcquisitionFunction", dict(jitter=Real, active_metric=Str, constraint_metric=Str))

NF = (1, 2, 3)


def _preds(mean, std):
    return {"mean": mean, "std": std}


@contract(IMPL + ":get_quantiles", props=("C09",), unbounded=False, calculus=True)
class GetQuantiles:
    params = dict(acquisition_par=Real, fmin=Arr(Real), m=Arr(Real), s=Arr(Real))
    shapes = [{"fmin": [nf], "m": [nf], "s": [1]} for nf in NF]

    def requires(s):
        return {"std-above-the-clamp": s.s[0] > 1e-10}

    def ensures(old, s, result):
        phi, Phi, u = result
        nf = len(old.m)
        return {
            "u": all(req(u[j] * old.s[0], old.fmin[j] - old.m[j] - old.acquisition_par) for j in range(nf)),
            "phi-is-the-normal-density": all(analytic_eq(phi[j], std_normal_pdf(u[j])) for j in range(nf)),
            "Phi-is-the-normal-cdf": all(analytic_eq(Phi[j], std_normal_cdf(u[j])) for j in range(nf)),
        }


@contract(IMPL + ":EIAcquisitionFunction._compute_head_and_gradient", props=("C09",), unbounded=False, calculus=True)
class EI_head_gradient:
    params = dict(self=Obj("EI"), output_to_predictions=Rec(active=Rec(mean=Arr(Real), std=Arr(Real))), current_best=Arr(Real))
    shapes = [{"output_to_predictions[active][mean]": [nf], "output_to_predictions[active][std]": [1], "current_best": [nf]} for nf in NF]

    def requires(s):
        return {"metric": s.self.active_metric == "active", "std-above-the-clamp": s.output_to_predictions["active"]["std"][0] > 1e-10}

    def ensures(old, s, result):
        acq = old.self
        P = old.output_to_predictions["active"]
        best = old.current_best
        nf = len(P["mean"])
        g = result.gradient["active"]
        phi, Phi, u = get_quantiles(acq.jitter, best, P["mean"], P["std"])
        return {
            "gradient-wrt-mean-is-the-derivative": is_gradient(lambda mean: acq._compute_head_and_gradient({"active": {"mean": mean, "std": P["std"]}}, best).hval, P["mean"], g["mean"]),
            "gradient-wrt-std-is-the-derivative": is_gradient(lambda std: acq._compute_head_and_gradient({"active": {"mean": P["mean"], "std": std}}, best).hval, P["std"], g["std"]),
            "value-alone-equals-value-with-gradient": analytic_eq(
                acq._compute_head({"active": {"mean": P["mean"].reshape((1, -1)), "std": P["std"].reshape((1, 1))}}, best.reshape((1, -1))), result.hval
            ),
            "minus-expected-improvement-closed-form": analytic_eq(result.hval, -sum(P["std"][0] * (u[j] * std_normal_cdf(u[j]) + std_normal_pdf(u[j])) for j in range(nf)) / nf),
            "expected-improvement-never-negative": result.hval <= 0 if all(u[j] * Phi[j] + phi[j] >= 0 for j in range(nf)) else True,
        }


@contract(IMPL + ":LCBAcquisitionFunction._compute_head_and_gradient", props=("C09",), unbounded=False, calculus=True)
class LCB_head_gradient:
    params = dict(self=Obj("LCB"), output_to_predictions=Rec(active=Rec(mean=Arr(Real), std=Arr(Real))), current_best=NoneT)
    shapes = [{"output_to_predictions[active][mean]": [nf], "output_to_predictions[active][std]": [1]} for nf in NF]

    def requires(s):
        return {"metric": s.self.active_metric == "active", "kappa": s.self.kappa > 0}

    def ensures(old, s, result):
        acq = old.self
        P = old.output_to_predictions["active"]
        nf = len(P["mean"])
        g = result.gradient["active"]
        return {
            "gradient-wrt-mean-is-the-derivative": is_gradient(lambda mean: acq._compute_head_and_gradient({"active": {"mean": mean, "std": P["std"]}}, None).hval, P["mean"], g["mean"]),
            "gradient-wrt-std-is-the-derivative": is_gradient(lambda std: acq._compute_head_and_gradient({"active": {"mean": P["mean"], "std": std}}, None).hval, P["std"], g["std"]),
            "value-alone-equals-value-with-gradient": analytic_eq(acq._compute_head({"active": {"mean": P["mean"].reshape((1, -1)), "std": P["std"].reshape((1, 1))}}, None), result.hval),
            "lower-confidence-bound-closed-form": analytic_eq(result.hval, sum(P["mean"][j] for j in range(nf)) / nf - acq.kappa * P["std"][0]),
        }


@contract(IMPL + ":EIpuAcquisitionFunction._compute_head_and_gradient", props=("C09",), unbounded=False, calculus=True)
class EIpu_head_gradient:
    params = dict(self=Obj("EIpu"), output_to_predictions=Rec(active=Rec(mean=Arr(Real), std=Arr(Real)), second=Rec(mean=Arr(Real))), current_best=Arr(Real))
    shapes = [
        {"output_to_predictions[active][mean]": [nf], "output_to_predictions[active][std]": [1], "output_to_predictions[second][mean]": [nc], "current_best": [nf]}
        for nf, nc in ((1, 1), (2, 2), (2, 1), (3, 3))
    ]

    def requires(s):
        P = s.output_to_predictions
        return {
            "metrics": s.self.active_metric == "active" and s.self.cost_metric == "second",
            "exponent": 0 < s.self.exponent_cost and s.self.exponent_cost <= 1,
            "std-above-the-clamp": P["active"]["std"][0] > 1e-10,
            "predicted-cost-above-the-clamp": all(c > 1e-12 for c in P["second"]["mean"]),
        }

    def ensures(old, s, result):
        acq = old.self
        P = old.output_to_predictions
        PA, PC = P["active"], P["second"]
        best = old.current_best
        nf = len(PA["mean"])
        nc = len(PC["mean"])
        g = result.gradient
        phi, Phi, u = get_quantiles(acq.jitter, best, PA["mean"], PA["std"])

        def hv(mean, std, cost):
            return acq._compute_head_and_gradient({"active": {"mean": mean, "std": std}, "second": {"mean": cost}}, best).hval

        return {
            "gradient-wrt-mean-is-the-derivative": is_gradient(lambda mean: hv(mean, PA["std"], PC["mean"]), PA["mean"], g["active"]["mean"]),
            "gradient-wrt-std-is-the-derivative": is_gradient(lambda std: hv(PA["mean"], std, PC["mean"]), PA["std"], g["active"]["std"]),
            "gradient-wrt-cost-is-the-derivative": is_gradient(lambda cost: hv(PA["mean"], PA["std"], cost), PC["mean"], g["second"]["mean"]),
            "value-alone-equals-value-with-gradient": analytic_eq(
                acq._compute_head({"active": {"mean": PA["mean"].reshape((1, -1)), "std": PA["std"].reshape((1, 1))}, "second": {"mean": PC["mean"].reshape((1, -1))}}, best.reshape((1, -1))), result.hval
            ),
            "minus-EI-per-unit-cost-closed-form": analytic_eq(
                result.hval,
                -sum(PA["std"][0] * (u[j] * std_normal_cdf(u[j]) + std_normal_pdf(u[j])) * real_pow(PC["mean"][j if nc > 1 else 0], -acq.exponent_cost) for j in range(nf)) / nf,
            ),
        }


@contract(IMPL + ":CEIAcquisitionFunction._compute_head_and_gradient", props=("C09",), unbounded=False, calculus=True)
class CEI_head_gradient:
    params = dict(self=Obj("CEI"), output_to_predictions=Rec(active=Rec(mean=Arr(Real), std=Arr(Real)), second=Rec(mean=Arr(Real), std=Arr(Real))), current_best=Arr(NanRealT))
    shapes = [
        {"output_to_predictions[active][mean]": [nf], "output_to_predictions[active][std]": [1], "output_to_predictions[second][mean]": [nf], "output_to_predictions[second][std]": [1], "current_best": [nf]}
        for nf in (1, 2)
    ]

    def requires(s):
        P = s.output_to_predictions
        return {
            "metrics": s.self.active_metric == "active" and s.self.constraint_metric == "second",
            "std-above-the-clamp": P["active"]["std"][0] > 1e-10,
            "constraint-std-nonnegative": P["second"]["std"][0] >= 0,
        }

    def ensures(old, s, result):
        acq = old.self
        P = old.output_to_predictions
        PA, PC = P["active"], P["second"]
        best = old.current_best
        g = result.gradient

        def hv(mean, std, cmean, cstd):
            return acq._compute_head_and_gradient({"active": {"mean": mean, "std": std}, "second": {"mean": cmean, "std": cstd}}, best).hval

        return {
            "gradient-wrt-mean-is-the-derivative": is_gradient(lambda x: hv(x, PA["std"], PC["mean"], PC["std"]), PA["mean"], g["active"]["mean"]),
            "gradient-wrt-std-is-the-derivative": is_gradient(lambda x: hv(PA["mean"], x, PC["mean"], PC["std"]), PA["std"], g["active"]["std"]),
            "gradient-wrt-constraint-mean-is-the-derivative": is_gradient(lambda x: hv(PA["mean"], PA["std"], x, PC["std"]), PC["mean"], g["second"]["mean"]),
            "gradient-wrt-constraint-std-is-the-derivative": is_gradient(lambda x: hv(PA["mean"], PA["std"], PC["mean"], x), PC["std"], g["second"]["std"]),
            "value-alone-equals-value-with-gradient": analytic_eq(
                acq._compute_head(
                    {"active": {"mean": PA["mean"].reshape((1, -1)), "std": PA["std"].reshape((1, 1))}, "second": {"mean": PC["mean"].reshape((1, -1)), "std": PC["std"].reshape((1, 1))}},
                    best.reshape((1, -1)),
                ),
                result.hval,
            ),
        }


# -- Box-Cox target transform: every branch of the anp.where case distinction is evaluated for every lambda, and autograd
#    multiplies the (zero) head gradient of an unselected branch with that branch's partial derivatives: a branch that is
#    not finite somewhere in the parameter box turns the whole gradient into NaN there although the value is finite --------

TT = "syne_tune.optimizer.schedulers.searchers.bayesopt.gpautograd.target_transform"
declare_class("BoxCox", TT + ":BoxCoxTargetTransform", dict())
EPS = 1e-7


class _BoxCoxBranch:
    unbounded = True
    total_ops = True
    has_lists = False

    def requires(s):
        return {"lambda-inside-its-box": -1 <= s.boxcox_lambda and s.boxcox_lambda <= 2}


@contract(TT + ":BoxCoxTargetTransform._forward_lam_gt_eps", props=("C09",))
class BoxCox_forward_gt(_BoxCoxBranch):
    params = dict(self=Obj("BoxCox"), numerator=Real, boxcox_lambda=Real)

    def ensures(old, s, result):
        return {
            "finite-on-the-whole-parameter-box": is_finite(result),
            "value-where-selected": req(result * old.boxcox_lambda, old.numerator) if old.boxcox_lambda >= 1e-7 else True,
        }


@contract(TT + ":BoxCoxTargetTransform._forward_lam_lt_minuseps", props=("C09",))
class BoxCox_forward_lt(_BoxCoxBranch):
    params = dict(self=Obj("BoxCox"), numerator=Real, boxcox_lambda=Real)

    def ensures(old, s, result):
        return {
            "finite-on-the-whole-parameter-box": is_finite(result),
            "value-where-selected": req(result * old.boxcox_lambda, old.numerator) if old.boxcox_lambda <= -1e-7 else True,
        }


@contract(TT + ":BoxCoxTargetTransform._forward_abslam_lt_eps", props=("C09",))
class BoxCox_forward_mid(_BoxCoxBranch):
    params = dict(self=Obj("BoxCox"), uvals=Real, boxcox_lambda=Real)

    def ensures(old, s, result):
        return {"finite-on-the-whole-parameter-box": is_finite(result), "second-order-expansion": req(result, old.uvals + old.boxcox_lambda * old.uvals * old.uvals / 2)}


from pyvc.native import native_monitor  # noqa: E402

EXTRA_CHECKS = [
    native_monitor(
        "C09",
        "contracts.c09_native",
        "monitor_gradients",
        "finite-differences",
        "about 2200 (thorough 16800) gradient coordinates against Richardson-extrapolated central differences: fit criterion of 16 kernel / mean / warping / Box-Cox combinations (n 5..8, d 1..3, lambda in {0, 1e-8, 0.5, -0.7, ...}), custom_op backward passes on SPD matrices of size 1..5, EI / LCB / EIpu / CEI through compute_acq_with_gradient on fitted GP predictors with and without fantasies and MCMC, and an analytic stub predictor",
    )
]


# -- EIpu where the cost model predicts a non-positive cost: the clamp at MIN_COST applies on BOTH paths, so the value computed
#    alone still equals the value computed with the gradient (the gradient itself is not claimed inside the clamp) ------------


@contract(IMPL + ":EIpuAcquisitionFunction._compute_head_and_gradient", props=("C09",), unbounded=False, calculus=True)
class EIpu_head_value_inside_the_cost_clamp:
    label = "EIpuAcquisitionFunction._compute_head_and_gradient(cost clamp)"
    params = dict(self=Obj("EIpu"), output_to_predictions=Rec(active=Rec(mean=Arr(Real), std=Arr(Real)), second=Rec(mean=Arr(Real))), current_best=Arr(Real))
    shapes = [
        {"output_to_predictions[active][mean]": [nf], "output_to_predictions[active][std]": [1], "output_to_predictions[second][mean]": [nc], "current_best": [nf]}
        for nf, nc in ((1, 1), (2, 2))
    ]

    def requires(s):
        P = s.output_to_predictions
        return {
            "metrics": s.self.active_metric == "active" and s.self.cost_metric == "second",
            "exponent": 0 < s.self.exponent_cost and s.self.exponent_cost <= 1,
            "std-above-the-clamp": P["active"]["std"][0] > 1e-10,
            "some-predicted-cost-at-or-below-the-clamp": any(c <= 1e-12 for c in P["second"]["mean"]),
        }

    def ensures(old, s, result):
        acq = old.self
        P = old.output_to_predictions
        PA, PC = P["active"], P["second"]
        best = old.current_best
        return {
            "value-alone-equals-value-with-gradient": analytic_eq(
                acq._compute_head({"active": {"mean": PA["mean"].reshape((1, -1)), "std": PA["std"].reshape((1, 1))}, "second": {"mean": PC["mean"].reshape((1, -1))}}, best.reshape((1, -1))), result.hval
            ),
        }
