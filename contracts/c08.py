"""C08 -- GP posterior, likelihood and incremental updates equal the dense definition."""
from pyvc.spec import *

try:  # native side only; symbolically these names are resolved from /repo's source
    import numpy as np
    from syne_tune.optimizer.schedulers.searchers.bayesopt.gpautograd.posterior_utils import (
        predict_posterior_marginals,
        sample_posterior_joint,
        cholesky_update,
        cholesky_computations,
        negative_log_marginal_likelihood,
    )
except ImportError:
    pass

LEVEL = "exploration"
PU = "syne_tune.optimizer.schedulers.searchers.bayesopt.gpautograd.posterior_utils"
CUSTOM_OP = "syne_tune.optimizer.schedulers.searchers.bayesopt.gpautograd.custom_op"
LAPACK_STUBS = (CUSTOM_OP + ":flatten_and_concat", CUSTOM_OP + ":AddJitterOp", CUSTOM_OP + ":cholesky_factorization")
MIN_POSTERIOR_VARIANCE = 1e-12
MIN_CHOLESKY_DIAGONAL_VALUE = 1e-10

EXPLANATION = (
    "The real functions of posterior_utils.py are executed on matrices of fixed small size whose entries are all symbolic "
    "reals, with an ARBITRARY kernel and mean (a table of symbolic values on the finite set of training / test points: "
    "every Gram matrix a kernel can produce), and their results are compared as exact rational functions with the dense "
    "textbook expressions (Gaussian elimination on K + sigma^2 I).  The posterior state is parametrised by its Cholesky "
    "factor L (any lower-triangular matrix with positive diagonal: every SPD system matrix) and P (any matrix: every "
    "centred target matrix).  Identities are decided by the analytic back end (exact normal forms), conditions by z3."
)


class TableKernel:
    """an arbitrary kernel on a finite set of points: point i is the feature row [i]; table[i][j] = k(x_i, x_j)"""

    def __init__(self, table):
        self.table = table

    def __call__(self, X1, X2):
        return np.array([[self.table[int(a[0])][int(b[0])] for b in X2] for a in X1])

    def diagonal(self, X):
        return np.array([self.table[int(a[0])][int(a[0])] for a in X])


class TableMean:
    def __init__(self, values):
        self.values = values

    def __call__(self, X):
        return np.array([self.values[int(a[0])] for a in X])


def _sym_table(tab):
    N = tab.shape[0]
    return [[tab[max(i, j)][min(i, j)] for j in range(N)] for i in range(N)]


def _lower(L0):
    n = L0.shape[0]
    return np.array([[L0[i][j] if j <= i else 0.0 for j in range(n)] for i in range(n)])


def _ids(lo, hi):
    return np.array([[i] for i in range(lo, hi)])


def _dot(xs, ys):
    acc = 0.0
    for x, y in zip(xs, ys):
        acc = acc + x * y
    return acc


# -- predict_posterior_marginals -------------------------------------------------------------------------------------------


def scenario_predict(tab, L0, P, mvals, cscale):
    n = L0.shape[0]
    N = tab.shape[0]
    nt = N - n
    m = P.shape[1]
    for i in range(n):
        assume(L0[i][i] > 0)
    assume(cscale > 0)
    L = _lower(L0)
    K = _sym_table(tab)
    kernel = TableKernel(K)
    mean = TableMean(mvals)
    X = _ids(0, n)
    Xt = _ids(n, N)
    means, variances = predict_posterior_marginals(X, mean, (kernel, np.array([cscale])), L, P, Xt)
    check("shapes", means.shape == (nt, m) and variances.shape == (nt,))
    # dense reference: system matrix A = L L^T (= c K(X,X) + sigma^2 I), centred targets R = L P
    A = np.matmul(L, np.transpose(L))
    R = np.matmul(L, P)
    Kx = np.array([[cscale * K[k][n + i] for i in range(nt)] for k in range(n)])
    W = np.linalg.solve(A, R)
    V = np.linalg.solve(A, Kx)
    for i in range(nt):
        for j in range(m):
            check("predictive-mean-equals-dense", analytic_eq(means[i][j], mvals[n + i] + _dot([Kx[k][i] for k in range(n)], [W[k][j] for k in range(n)])))
        prior = cscale * K[n + i][n + i]
        dense = prior - _dot([Kx[k][i] for k in range(n)], [V[k][i] for k in range(n)])
        check("variance-not-below-the-floor", variances[i] >= MIN_POSTERIOR_VARIANCE)
        if dense >= MIN_POSTERIOR_VARIANCE:
            check("predictive-variance-equals-dense", analytic_eq(variances[i], dense))
        else:
            check("predictive-variance-clamped-to-the-floor", analytic_eq(variances[i], MIN_POSTERIOR_VARIANCE))
    return True


@contract("contracts.c08:scenario_predict", props=("C08",), calculus=True)
class ScenarioPredict:
    label = "predict_posterior_marginals[dense]"
    params = dict(tab=Arr(Real), L0=Arr(Real), P=Arr(Real), mvals=Arr(Real), cscale=Real)
    unbounded = False
    shapes = [{"tab": [n + nt, n + nt], "L0": [n, n], "P": [n, m], "mvals": [n + nt]} for n, nt, m in ((1, 1, 1), (2, 1, 1), (2, 2, 2))]
    shapes_thorough = [{"tab": [n + nt, n + nt], "L0": [n, n], "P": [n, m], "mvals": [n + nt]} for n, nt, m in ((1, 2, 2), (2, 2, 2), (3, 1, 1), (3, 2, 1))]

    def requires(s):
        return True

    def ensures(old, s, result):
        return {"completed": result == True}  # noqa: E712


# -- cholesky_update: the rank-one extension is the Cholesky factor / prediction matrix of the bordered system ---------------


def scenario_update(tab, L0, P, mvals, cscale, noise, target):
    n = L0.shape[0]
    m = P.shape[1]
    for i in range(n):
        assume(L0[i][i] > 0)
    assume(cscale > 0)
    assume(noise > 0)
    L = _lower(L0)
    K = _sym_table(tab)
    kernel = TableKernel(K)
    mean = TableMean(mvals)
    X = _ids(0, n)
    x_new = _ids(n, n + 1)
    y_new = np.array([[target[j] for j in range(m)]])
    L1, P1 = cholesky_update(X, mean, (kernel, np.array([cscale])), L, P, np.array([noise]), x_new, y_new)
    check("shapes", L1.shape == (n + 1, n + 1) and P1.shape == (n + 1, m))
    A = np.matmul(L, np.transpose(L))
    R = np.matmul(L, P)
    kvec = [cscale * K[k][n] for k in range(n)]
    kss = cscale * K[n][n] + noise
    A1 = np.matmul(L1, np.transpose(L1))
    R1 = np.matmul(L1, P1)
    for i in range(n + 1):
        for j in range(i + 1, n + 1):
            check("factor-stays-lower-triangular", req(L1[i][j], 0.0))
    for i in range(n):
        for j in range(n):
            check("old-block-unchanged", req(L1[i][j], L[i][j]))
        for j in range(m):
            check("old-predictions-unchanged", req(P1[i][j], P[i][j]))
    # Schur complement of the bordered matrix: the clamp is inactive iff it exceeds MIN_CHOLESKY_DIAGONAL_VALUE^2
    schur = kss - _dot(kvec, [np.linalg.solve(A, np.array(kvec))[k] for k in range(n)])
    if schur >= MIN_CHOLESKY_DIAGONAL_VALUE * MIN_CHOLESKY_DIAGONAL_VALUE:
        for i in range(n):
            check("bordered-system[off-diagonal]", analytic_eq(A1[n][i], kvec[i]))
            check("bordered-system[symmetric]", analytic_eq(A1[i][n], kvec[i]))
        check("bordered-system[new-diagonal]", analytic_eq(A1[n][n], kss))
        for j in range(m):
            check("bordered-targets", analytic_eq(R1[n][j], target[j] - mvals[n]))
        for i in range(n):
            for j in range(n):
                check("bordered-system[old-block]", analytic_eq(A1[i][j], A[i][j]))
            for j in range(m):
                check("bordered-targets[old-rows]", analytic_eq(R1[i][j], R[i][j]))
    check("new-diagonal-positive", L1[n][n] > 0)
    return True


@contract("contracts.c08:scenario_update", props=("C08",), calculus=True)
class ScenarioUpdate:
    label = "cholesky_update[bordered]"
    params = dict(tab=Arr(Real), L0=Arr(Real), P=Arr(Real), mvals=Arr(Real), cscale=Real, noise=Real, target=Arr(Real))
    unbounded = False
    shapes = [{"tab": [n + 1, n + 1], "L0": [n, n], "P": [n, m], "mvals": [n + 1], "target": [m]} for n, m in ((1, 1), (2, 2))]
    shapes_thorough = [{"tab": [n + 1, n + 1], "L0": [n, n], "P": [n, m], "mvals": [n + 1], "target": [m]} for n, m in ((1, 2), (2, 2), (3, 1))]

    def requires(s):
        return True

    def ensures(old, s, result):
        return {"completed": result == True}  # noqa: E712


# -- sample_posterior_joint: samples = mean + F z with F F^T = posterior covariance + jitter I ----------------------------------


class UnitNormals:
    """stand-in for numpy's RandomState: ``normal`` returns prescribed draws (here: unit vectors)"""

    def __init__(self, draws):
        self.draws = draws
        self.k = 0

    def normal(self, size=None):
        z = self.draws[self.k]
        self.k = self.k + 1
        return np.array(z).reshape(size)


def scenario_joint(tab, L0, P, mvals, cscale):
    n = L0.shape[0]
    N = tab.shape[0]
    nt = N - n
    for i in range(n):
        assume(L0[i][i] > 0)
    assume(cscale > 0)
    L = _lower(L0)
    K = _sym_table(tab)
    kernel = TableKernel(K)
    mean = TableMean(mvals)
    X = _ids(0, n)
    Xt = _ids(n, N)
    kern = (kernel, np.array([cscale]))
    means, variances = predict_posterior_marginals(X, mean, kern, L, P, Xt)
    A = np.matmul(L, np.transpose(L))
    Kx = np.array([[cscale * K[k][n + i] for i in range(nt)] for k in range(n)])
    V = np.linalg.solve(A, Kx)
    cols = []
    for k in range(nt):
        e_k = [[1.0 if i == k else 0.0] for i in range(nt)]
        smp = sample_posterior_joint(X, mean, kern, L, P, Xt, UnitNormals([e_k]), num_samples=1)
        check("sample-shape", smp.shape == (nt, 1))
        cols.append([smp[i][0] - means[i][0] for i in range(nt)])
    zero = sample_posterior_joint(X, mean, kern, L, P, Xt, UnitNormals([[[0.0] for i in range(nt)]]), num_samples=1)
    for i in range(nt):
        check("zero-draw-gives-the-posterior-mean", analytic_eq(zero[i][0], means[i][0]))
    jit = joint_jitter()
    for i in range(nt):
        for j in range(nt):
            cov = cscale * K[n + i][n + j] - _dot([Kx[k][i] for k in range(n)], [V[k][j] for k in range(n)])
            got = _dot([cols[k][i] for k in range(nt)], [cols[k][j] for k in range(nt)])
            check("joint-sample-covariance-equals-dense", analytic_eq_mod(got, cov + (jit if i == j else 0.0)))
    return True


@contract("contracts.c08:scenario_joint", props=("C08",), calculus=True, stubs=LAPACK_STUBS)
class ScenarioJoint:
    label = "sample_posterior_joint[covariance]"
    params = dict(tab=Arr(Real), L0=Arr(Real), P=Arr(Real), mvals=Arr(Real), cscale=Real)
    unbounded = False
    shapes = [{"tab": [n + nt, n + nt], "L0": [n, n], "P": [n, 1], "mvals": [n + nt]} for n, nt in ((1, 2),)]
    shapes_thorough = [{"tab": [n + nt, n + nt], "L0": [n, n], "P": [n, 1], "mvals": [n + nt]} for n, nt in ((1, 2), (2, 2), (1, 3))]

    def requires(s):
        return True

    def ensures(old, s, result):
        return {"completed": result == True}  # noqa: E712


# -- negative_log_marginal_likelihood and cholesky_computations ---------------------------------------------------------------


def _det(A, n):
    if n == 1:
        return A[0][0]
    if n == 2:
        return A[0][0] * A[1][1] - A[0][1] * A[1][0]
    return (
        A[0][0] * (A[1][1] * A[2][2] - A[1][2] * A[2][1])
        - A[0][1] * (A[1][0] * A[2][2] - A[1][2] * A[2][0])
        + A[0][2] * (A[1][0] * A[2][1] - A[1][1] * A[2][0])
    )


def scenario_nlml(L0, P):
    n = L0.shape[0]
    for i in range(n):
        assume(L0[i][i] > 0)
    L = _lower(L0)
    val = negative_log_marginal_likelihood(L, P)
    A = np.matmul(L, np.transpose(L))
    R = np.matmul(L, P)
    W = np.linalg.solve(A, R)
    quad = _dot([R[k][0] for k in range(n)], [W[k][0] for k in range(n)])
    dense = 0.5 * (n * real_log(2 * real_pi()) + real_log(_det(A, n)) + quad)
    check("nlml-equals-dense", analytic_eq(val, dense))
    return True


@contract("contracts.c08:scenario_nlml", props=("C08",), calculus=True)
class ScenarioNLML:
    label = "negative_log_marginal_likelihood[dense]"
    params = dict(L0=Arr(Real), P=Arr(Real))
    unbounded = False
    shapes = [{"L0": [n, n], "P": [n, 1]} for n in (1, 2)]
    shapes_thorough = [{"L0": [n, n], "P": [n, 1]} for n in (1, 2, 3)]

    def requires(s):
        return True

    def ensures(old, s, result):
        return {"completed": result == True}  # noqa: E712


def scenario_computations(tab, Y, mvals, cscale, noise):
    n = tab.shape[0]
    m = Y.shape[1]
    assume(cscale > 0)
    assume(noise > 0)
    K = _sym_table(tab)
    kernel = TableKernel(K)
    mean = TableMean(mvals)
    X = _ids(0, n)
    L, P = cholesky_computations(X, Y, mean, (kernel, np.array([cscale])), np.array([noise]))
    check("shapes", L.shape == (n, n) and P.shape == (n, m))
    A = np.matmul(L, np.transpose(L))
    R = np.matmul(L, P)
    sig = joint_jitter()
    check("noise-only-increased", sig >= noise)
    for i in range(n):
        for j in range(n):
            check("system-matrix-is-scaled-kernel-plus-noise", analytic_eq_mod(A[i][j], cscale * K[i][j] + (sig if i == j else 0.0)))
        for j in range(m):
            check("prediction-matrix-solves-the-centred-targets", analytic_eq(R[i][j], Y[i][j] - mvals[i]))
    return True


@contract("contracts.c08:scenario_computations", props=("C08",), calculus=True, stubs=LAPACK_STUBS)
class ScenarioComputations:
    label = "cholesky_computations[state]"
    params = dict(tab=Arr(Real), Y=Arr(Real), mvals=Arr(Real), cscale=Real, noise=Real)
    unbounded = False
    shapes = [{"tab": [n, n], "Y": [n, m], "mvals": [n]} for n, m in ((1, 1), (2, 2))]
    shapes_thorough = [{"tab": [n, n], "Y": [n, m], "mvals": [n]} for n, m in ((1, 2), (2, 2), (3, 1))]

    def requires(s):
        return True

    def ensures(old, s, result):
        return {"completed": result == True}  # noqa: E712


from pyvc.native import native_monitor  # noqa: E402

EXTRA_CHECKS = [
    native_monitor(
        "C08",
        "contracts.c08_native",
        "monitor_posterior",
        "dense-reference",
        "216 (thorough 1800) random cases: 9 kernel kinds (Matern-5/2 iso / ARD / tuple scale, warping, product, exponential decay, two hand-written kernels), n 1..8, d 1..3, n_test 1..4, 1 or 3 fantasy columns, up to 3 successive updates; float64 against an independent dense numpy reference with conditioning-scaled tolerances",
    )
]
