"""C05 -- synchronous Hyperband fills rungs exactly and promotes exactly the top trials."""
from pyvc.spec import *
from contracts.iface import *

try:  # natively importable under /venv/bin/python only; symbolically resolved from /repo's source
    from syne_tune.optimizer.schedulers.synchronous.hyperband_bracket_manager import SynchronousHyperbandBracketManager
    from syne_tune.optimizer.schedulers.synchronous.hyperband_bracket import SlotInRung
except ImportError:
    pass

LEVEL = "exploration"
SYNC_BR = "syne_tune.optimizer.schedulers.synchronous.hyperband_bracket"

EXPLANATION = (
    "Bounded symbolic verification (all metric values, NaN flags and arrival orders symbolic; shapes bounded): "
    "get_top_list against its specification for rungs of up to 4 entries, and the real "
    "SynchronousHyperbandBracketManager driven through every order of up to 7 result events with 2 jobs in flight "
    "on three rung systems (quick: 4-5 events, thorough: 6-7).  Unbounded obligations are claimed for one function only: "
    "SynchronousBracket.next_free_slot on a current rung of any length (slot order, once each, never beyond the size); "
    "everything else is labelled bounded."
)
ASSUMPTIONS = [
    "A-REAL with an explicit NaN flag for metric values (failed jobs)",
    "bounded: rung sizes <= 4, <= 3 rungs, <= 7 result events, 2 concurrent jobs",
    "next_free_slot proof units: bracket at its last rung (one materialised rung of unbounded length); the heterogeneous tail of _rungs is not typed",
    "numpy version 2.x semantics for removed aliases (np.NAN)",
]


def no_worse(a, b, is_min):
    return a <= b if is_min else a >= b


def in_top(tid, top):
    return exists(range(0, len(top)), lambda a: top[a] == tid)


def top_spec(rung, new_len, is_min, top, rem):
    """``top`` are the best ``new_len`` trials of ``rung`` (failed = NaN rank last), ``rem`` the others"""
    n = len(rung)
    return {
        "size": len(top) == (new_len if new_len <= n else n),
        "top-from-rung": forall(range(0, len(top)), lambda a: exists(range(0, n), lambda i: rung[i][0] == top[a])),
        "top-distinct": forall(range(0, len(top)), lambda a: forall(range(0, len(top)), lambda b: top[a] != top[b] if a < b else True)),
        "partition": forall(range(0, n), lambda i: in_top(rung[i][0], top) != in_top(rung[i][0], rem)) and len(top) + len(rem) == n,
        "best-first": forall(
            range(0, n),
            lambda i: forall(
                range(0, n),
                lambda j: (not is_nan(rung[i][1]) and no_worse(rung[i][1], rung[j][1], is_min))
                if (in_top(rung[i][0], top) and (not in_top(rung[j][0], top)) and (not is_nan(rung[j][1])))
                else True,
            ),
        ),
    }


@contract(SYNC_BR + ":get_top_list", props=("C05", "C15", "C20"))
class GetTopList:
    params = dict(rung=List(Tup(Int, NanRealT)), new_len=Int, mode=Enum("min", "max"))
    unbounded = False
    shapes = [{"rung": k} for k in range(0, 5)]

    def requires(s):
        n = len(s.rung)
        return {
            "new_len": 1 <= s.new_len,
            "ids-distinct": forall(range(0, n), lambda i: forall(range(0, n), lambda j: s.rung[i][0] != s.rung[j][0] if i < j else True)),
        }

    def ensures(old, s, result):
        return top_spec(old.rung, old.new_len, old.mode == "min", result[0], result[1])


# ---------------------------------------------------------------------------------------
# scenario harness: the real bracket manager under every arrival order (bounded)
# ---------------------------------------------------------------------------------------

SYSTEMS = {
    0: [[(2, 1), (1, 3)]],
    1: [[(3, 1), (2, 2), (1, 4)], [(2, 2), (1, 4)]],
    2: [[(4, 1), (2, 3)], [(1, 3)]],
}


def scenario_manager(system_id, mode, metrics, picks):
    systems = SYSTEMS[system_id]
    num_offsets = len(systems)
    mgr = SynchronousHyperbandBracketManager(systems, mode)
    is_min = mode == "min"
    pending = []  # jobs in flight: (bracket_id, slot)
    handed = []  # (bracket_id, rung_index, slot_index) handed out so far
    reported = {}  # (bracket_id, rung_index) -> list of (trial_id, metric)
    next_trial = 0
    for t in range(len(picks)):
        # keep two jobs in flight
        while len(pending) < 2:
            job = mgr.next_job()
            check("next_job-returns-work", job is not None and job[1] is not None)
            bid, slot = job
            rungs = systems[bid % num_offsets]
            check("bracket-cycles-through-systems", slot.rung_index < len(rungs) and slot.level == rungs[slot.rung_index][1])
            check("slot-within-rung-size", 0 <= slot.slot_index and slot.slot_index < rungs[slot.rung_index][0])
            check("slot-handed-out-once", (bid, slot.rung_index, slot.slot_index) not in handed)
            handed.append((bid, slot.rung_index, slot.slot_index))
            if slot.rung_index == 0:
                check("new-trial-in-first-rung", slot.trial_id is None)
                slot.trial_id = next_trial
                next_trial = next_trial + 1
            else:
                prev = reported.get((bid, slot.rung_index - 1), [])
                # resumed only after the whole previous rung has reported
                check("resume-after-rung-complete", len(prev) == rungs[slot.rung_index - 1][0])
                check("resumed-trial-from-previous-rung", slot.trial_id is not None and exists(range(0, len(prev)), lambda i: prev[i][0] == slot.trial_id))
            pending.append((bid, slot))
        p = picks[t]
        assume(0 <= p and p < len(pending))
        bid, slot = pending.pop(p)
        rungs = systems[bid % num_offsets]
        res = SlotInRung(rung_index=slot.rung_index, level=slot.level, slot_index=slot.slot_index, trial_id=slot.trial_id, metric_val=metrics[t])
        not_promoted = mgr.on_result((bid, res))
        key = (bid, slot.rung_index)
        if key not in reported:
            reported[key] = []
        reported[key].append((slot.trial_id, metrics[t]))
        full = len(reported[key]) == rungs[slot.rung_index][0]
        last = slot.rung_index == len(rungs) - 1
        if full and not last:
            # the rung is complete: the next rung's slots are exactly the top trials
            nxt = mgr._brackets[bid]._rungs[slot.rung_index + 1][0]
            check("next-rung-materialised", not isinstance(nxt, int))
            top = [x[0] for x in nxt]
            new_len = rungs[slot.rung_index + 1][0]
            check("not-promoted-returned", not_promoted is not None)
            spec = top_spec(reported[key], new_len, is_min, top, not_promoted)
            check("promoted-exactly-the-top[size]", spec["size"])
            check("promoted-exactly-the-top[from-rung]", spec["top-from-rung"])
            check("promoted-exactly-the-top[distinct]", spec["top-distinct"])
            check("promoted-exactly-the-top[partition]", spec["partition"])
            check("promoted-exactly-the-top[best-first]", spec["best-first"])
        else:
            check("no-promotion-before-rung-complete", not_promoted is None)
    return True


@contract("contracts.c05:scenario_manager", props=("C05", "C13"))
class ScenarioManager:
    label = "SynchronousHyperbandBracketManager[scenario]"
    params = dict(system_id=Int, mode=Enum("min", "max"), metrics=List(NanRealT), picks=List(Int))
    unbounded = False
    shapes = [{"metrics": n, "picks": n, "system_id": sid} for sid, n in ((0, 4), (1, 5), (2, 5))]
    shapes_thorough = [{"metrics": n, "picks": n, "system_id": sid} for sid, n in ((0, 5), (1, 6), (2, 6))]

    def requires(s):
        return {"lens": len(s.metrics) == len(s.picks)}

    def ensures(old, s, result):
        return {"completed": result == True}  # noqa: E712


# -- synchronous Hyperband: a failed job fills its slot (as NaN) so that the bracket does not wait forever ---

SYNC_HB = "syne_tune.optimizer.schedulers.synchronous.hyperband"

declare_class("SlotInRung", "syne_tune.optimizer.schedulers.synchronous.hyperband_bracket:SlotInRung", dict(rung_index=Int, level=Int, slot_index=Int, trial_id=Opt(Int), metric_val=Opt(NanRealT)), builder="slot")
declare_class("SyncHB", SYNC_HB + ":SynchronousHyperbandScheduler", dict(bracket_manager=Abstract("SyncBracketManager"), _trials_checkpoints_can_be_removed=List(Int)))


@contract("iface:SyncBracketManager.on_result")
class I_sbm_on_result:
    params = dict(self=None, result=None)
    returns = Opt(List(Int, concrete_len=1))


@contract(SYNC_HB + ":SynchronousHyperbandScheduler._report_as_failed", props=("C13", "C05"))
class SyncHB_report_as_failed:
    params = dict(self=Obj("SyncHB"), bracket_id=Int, slot_in_rung=Obj("SlotInRung"))
    ghost = GHOST
    unbounded = False
    shapes = [{"*": 0}, {"*": 1}]

    def requires(s):
        return True

    def ensures(old, s, result):
        calls = [e for e in s.G.log if e[0] == "SyncBracketManager.on_result"]
        ok = len(calls) == 1
        if not ok:
            return {"slot-reported-once": False}
        bid, slot = calls[0][1]
        return {
            "slot-reported-once": True,
            "same-slot": bid == old.bracket_id and slot.rung_index == old.slot_in_rung.rung_index and slot.level == old.slot_in_rung.level and slot.slot_index == old.slot_in_rung.slot_index and slot.trial_id == old.slot_in_rung.trial_id,
            "reported-as-failed": is_nan(slot.metric_val),
        }


# -- a job that reaches its rung level hands its result to the bracket exactly once and is PAUSED (it may be promoted later,
#    so it must keep its check-point: never STOP); before the level it continues; a trial that holds no slot is stopped ---------


@contract("iface:SyncBracketManager.level_to_prev_level")
class I_sbm_level_to_prev_level:
    params = dict(self=None, bracket_id=None, level=None)
    returns = Int

    def ensures(old, s, result):
        return {"below": 0 <= result and result < old.level}


@contract("iface:SyncSearcher.on_trial_result")
class I_ss_on_trial_result:
    params = dict(self=None, trial_id=None, config=None, result=None, update=None)


declare_class(
    "SyncHBFull",
    SYNC_HB + ":SynchronousHyperbandScheduler",
    dict(
        bracket_manager=Abstract("SyncBracketManager"),
        searcher=Abstract("SyncSearcher"),
        _trials_checkpoints_can_be_removed=List(Int),
        _trial_to_pending_slot=ADict(Int, Tup(Int, Obj("SlotInRung"))),
        _trial_to_config=ADict(Int, Rec(lr=Real)),
        metric=Lit("loss"),
        _resource_attr=Lit("epoch"),
        searcher_data=Enum("rungs", "all"),
    ),
)


@contract(SYNC_HB + ":SynchronousHyperbandScheduler.on_trial_result", props=("C05", "C20", "C13", "C14"))
class SyncHB_on_trial_result:
    params = dict(self=Obj("SyncHBFull"), trial=Obj("Trial"), result=Rec(loss=NanRealT, epoch=Int))
    ghost = GHOST
    unbounded = False
    shapes = [{"self._trial_to_pending_slot": n, "self._trial_to_config": n, "*": 0} for n in (0, 1, 2)]
    raises = {"AssertionError": "skipped_level"}

    def requires(s):
        ks = list(s.self._trial_to_pending_slot.keys())
        vs = list(s.self._trial_to_pending_slot.values())
        cs_ = list(s.self._trial_to_config.keys())
        return {
            "slot-belongs-to-its-trial": forall(range(0, len(ks)), lambda i: vs[i][1].trial_id == ks[i] and vs[i][1].level >= 1 and cs_[i] == ks[i]),
            "resource": s.result["epoch"] >= 1,
        }

    def skipped_level(old, s):
        # the only legal refusal: the training script skipped the rung level
        ks = list(old.self._trial_to_pending_slot.keys())
        vs = list(old.self._trial_to_pending_slot.values())
        return {"only-when-a-rung-level-was-skipped": exists(range(0, len(ks)), lambda i: ks[i] == old.trial.trial_id and old.result["epoch"] > vs[i][1].level)}

    def ensures(old, s, result):
        tid = old.trial.trial_id
        ks = list(old.self._trial_to_pending_slot.keys())
        vs = list(old.self._trial_to_pending_slot.values())
        calls = [e for e in s.G.log if e[0] == "SyncBracketManager.on_result"]
        pending = exists(range(0, len(ks)), lambda i: ks[i] == tid)
        if not pending:
            return {"no-slot-means-stop": result == "STOP", "nothing-reported": len(calls) == 0}
        lvl = [vs[i][1].level for i in range(len(ks)) if ks[i] == tid][0]
        bid = [vs[i][0] for i in range(len(ks)) if ks[i] == tid][0]
        # the searcher sees each resource level of a trial once: levels up to the previous rung level were reported by the
        # earlier run of the trial already (a script without check-pointing starts again from scratch)
        prevs = [e for e in s.G.log if e[0] == "SyncBracketManager.level_to_prev_level"]
        told = [e for e in s.G.log if e[0] == "SyncSearcher.on_trial_result"]
        data = {}
        if len(prevs) == 1:
            prev = prevs[0][-1]
            if old.result["epoch"] > prev:
                data["searcher-told-once-above-the-previous-rung-level"] = len(told) == 1
            else:
                data["searcher-not-told-again-up-to-the-previous-rung-level"] = len(told) == 0
        if old.result["epoch"] < lvl:
            return dict(data, **{"continues-below-its-level": result == "CONTINUE", "nothing-reported": len(calls) == 0, "still-pending": tid in s.self._trial_to_pending_slot})
        if len(calls) != 1:
            return {"reported-to-the-bracket-exactly-once": False}
        rb, slot = calls[0][1]
        return dict(data, **{
            "reported-to-the-bracket-exactly-once": True,
            "paused-at-its-level-never-stopped": result == "PAUSE",
            "own-slot-with-the-reported-value": rb == bid and slot.trial_id == tid and slot.level == lvl and (is_nan(slot.metric_val) if is_nan(old.result["loss"]) else req(slot.metric_val, old.result["loss"])),
            "no-longer-pending": tid not in s.self._trial_to_pending_slot,
        })


from pyvc.native import native_monitor  # noqa: E402

EXTRA_CHECKS = [native_monitor("C05", "contracts.c05_native", "monitor_sync", "sync-hyperband", "about 23000 (thorough 217000) scenarios: get_top_list on every rank permutation x failure subset of <= 5 (6) slots, single brackets, synchronous and DEHB bracket managers and schedulers under every return order / failure sequence of 3..5 (5..7) steps and random schedules (1..9 workers, <= 70 (160) steps), against an independent reference with tie latitude; min/max twin runs incl. PASHA soft ranking and asynchronous Hyperband types")]


# -- a failed job is reported to its bracket as failed (NaN) exactly once and no longer holds a pending slot: the rung can
#    complete and the others are promoted; the searcher is told that the evaluation failed ------------------------------------


@contract("iface:SyncSearcher.evaluation_failed")
class I_ss_evaluation_failed:
    params = dict(self=None, trial_id=None)


@contract("iface:SyncSearcher.debug_log")
class I_ss_debug_log:
    attribute = True
    returns = NoneT


declare_class(
    "SyncHBErr",
    SYNC_HB + ":SynchronousHyperbandScheduler",
    dict(
        bracket_manager=Abstract("SyncBracketManager"),
        searcher=Abstract("SyncSearcher"),
        _searcher_initialized=Lit(True),
        _trials_checkpoints_can_be_removed=List(Int),
        _trial_to_pending_slot=ADict(Int, Tup(Int, Obj("SlotInRung"))),
    ),
)


@contract(SYNC_HB + ":SynchronousHyperbandScheduler.on_trial_error", props=("C05", "C13"))
class SyncHB_on_trial_error:
    params = dict(self=Obj("SyncHBErr"), trial=Obj("Trial"))
    ghost = GHOST
    unbounded = False
    shapes = [{"self._trial_to_pending_slot": n, "*": 0} for n in (0, 1, 2)]

    def requires(s):
        ks = list(s.self._trial_to_pending_slot.keys())
        vs = list(s.self._trial_to_pending_slot.values())
        return {"slot-belongs-to-its-trial": forall(range(0, len(ks)), lambda i: vs[i][1].trial_id == ks[i])}

    def ensures(old, s, result):
        tid = old.trial.trial_id
        ks = list(old.self._trial_to_pending_slot.keys())
        vs = list(old.self._trial_to_pending_slot.values())
        calls = [e for e in s.G.log if e[0] == "SyncBracketManager.on_result"]
        told = [e for e in s.G.log if e[0] == "SyncSearcher.evaluation_failed"]
        pending = exists(range(0, len(ks)), lambda i: ks[i] == tid)
        out = {"searcher-told-once": len(told) == 1}
        if not pending:
            out["nothing-reported-for-a-trial-without-slot"] = len(calls) == 0
            return out
        if len(calls) != 1:
            out["failed-job-reported-to-its-bracket-exactly-once"] = False
            return out
        bid = [vs[i][0] for i in range(len(ks)) if ks[i] == tid][0]
        mine = [vs[i][1] for i in range(len(ks)) if ks[i] == tid][0]
        rb, slot = calls[0][1]
        out["failed-job-reported-to-its-bracket-exactly-once"] = True
        out["own-slot-reported-as-failed"] = rb == bid and slot.trial_id == tid and slot.level == mine.level and slot.rung_index == mine.rung_index and slot.slot_index == mine.slot_index and is_nan(slot.metric_val)
        out["no-longer-pending"] = tid not in s.self._trial_to_pending_slot
        out["other-pending-slots-untouched"] = forall(range(0, len(ks)), lambda i: (ks[i] in s.self._trial_to_pending_slot) if ks[i] != tid else True)
        return out


# -- the bracket's slot accounting for a current rung of ANY length (unbounded obligations) -----------------------------
#    ``_rungs`` is heterogeneous (materialised rungs up to current_rung, (size, level) pairs beyond); the proof units take
#    the bracket at its last rung (one materialised rung, contents unbounded), where no promotion follows.

SLOT_T = Tup(Opt(Int), Opt(NanRealT))
declare_class("SyncBracket1", SYNC_BR + ":SynchronousHyperbandBracket", dict(_mode=Enum("min", "max"), _first_free_pos=Int, current_rung=Int, _rungs=List(Tup(List(SLOT_T), Int))))


def bracket1_pre(b):
    return {
        "last-rung": b.current_rung == 0 or b.current_rung == 1,
        "first-free-pos-in-range": 0 <= b._first_free_pos and (b.current_rung == 1 or b._first_free_pos <= len(b._rungs[0][0])),
        # slots beyond the first free position are untouched
        "free-slots-empty": b.current_rung == 1 or forall(range(0, len(b._rungs[0][0])), lambda i: b._rungs[0][0][i][1] is None if i >= b._first_free_pos else True),
    }


@contract(SYNC_BR + ":SynchronousBracket.next_free_slot", props=("C05",))
class Bracket_next_free_slot:
    label = "SynchronousHyperbandBracket.next_free_slot"
    params = dict(self=Obj("SyncBracket1"))
    proof_shapes = [{"self._rungs": 1}]
    shapes = [{"self._rungs": 1, "*": k} for k in range(0, 4)]
    returns = Opt(Obj("SlotInRung"))

    def requires(s):
        return bracket1_pre(s.self)

    def ensures(old, s, result):
        done = old.self.current_rung == 1
        if done:
            return {"complete-bracket-hands-out-nothing": result is None, "frame": unchanged(s.self, old.self)}
        rung = old.self._rungs[0][0]
        pos = old.self._first_free_pos
        if pos >= len(rung):
            return {"full-rung-hands-out-nothing": result is None, "frame": unchanged(s.self, old.self)}
        return {
            "next-slot-in-order": result is not None and result.slot_index == pos and result.rung_index == 0,
            "level-of-the-rung": result.level == old.self._rungs[0][1],
            "slot-is-free-and-keeps-its-trial": result.metric_val is None and result.trial_id == rung[pos][0],
            "handed-out-once": s.self._first_free_pos == pos + 1,
            "rung-unchanged": unchanged(s.self._rungs, old.self._rungs) and s.self.current_rung == 0,
        }


@contract(SYNC_BR + ":SynchronousBracket.num_pending_slots", props=("C05",))
class Bracket_num_pending_slots:
    label = "SynchronousHyperbandBracket.num_pending_slots"
    params = dict(self=Obj("SyncBracket1"))
    unbounded = False  # sum over a slice of the rung: no unbounded encoding of sum (needs induction); bounded stand-in only
    shapes = [{"self._rungs": 1, "*": k} for k in range(0, 4)]
    returns = Int

    def requires(s):
        return bracket1_pre(s.self)

    def ensures(old, s, result):
        if old.self.current_rung == 1:
            return {"complete-bracket-has-no-pending-slot": result == 0, "frame": unchanged(s.self, old.self)}
        rung = old.self._rungs[0][0]
        return {
            # pending = handed out (below the first free position) and not yet occupied
            "counts-handed-out-unoccupied-slots": result == count(range(0, old.self._first_free_pos), lambda i: rung[i][1] is None),
            "frame": unchanged(s.self, old.self),
        }
