"""C06 (native monitor) -- suggestions are valid, typed configurations; initial points first; no repeats.

``monitor_suggestions(tier, seed)`` drives the REAL searcher / scheduler classes (RandomSearcher, GridSearcher,
FIFOScheduler, HyperbandScheduler (stopping / promotion), GP Bayesian optimisation (single- and multi-fidelity),
HyperTune, DEHB with its own encoded sampler, PopulationBasedTraining) through a bounded catalogue of scenarios
(enumerated small configuration spaces + seed-dependent random ones, enumerated + random ``points_to_evaluate`` lists,
seed-dependent histories of finished / failed / pending trials) and checks every suggestion against a reference that
only knows the SPECIFICATION of each domain ("randint", lo, hi) ... and never calls the library for the expected value.

What the statement leaves open, and how the reference treats it (no false alarms):
  * round-off: the bounds of float domains are EXACT (lower <= v <= upper, Float.is_valid: decoding clips to the bounds,
    exp(log(upper)) > upper is outside); the values of finite ranges, which the reference computes by its own
    arithmetic from (lower, upper, size), are compared with a relative tolerance of 1e-9;
    the geometric mid-point with 1e-9; DEHB encodes initial points to [0,1] and back, so "given" float values are
    compared with 1e-9 there.  Everything else is exact.
  * ties: where the mid-point rule hits x.5 (integers), lies between two entries (ordinals with an even number of
    entries, nearest-neighbour ordinals, finite ranges) both neighbours are accepted.  For an unordered categorical the
    statement does not say which entry is the default: the main clause accepts any category, the documented rule
    ("first entry", docstring of _impute_default_config) has its own clause.
  * quantised domains (quniform, qrandint, ...): "inside the domain" is read as type + range (Domain.is_valid); whether a
    value is a multiple of q is NOT required (the grid searcher and the mid-point rule do not quantise).  Quantised
    domains are not used in the 'space used up' scenarios.
  * "equal" configurations are compared exactly (the library compares 6-digit match strings, which is stronger).
  * extra keys in a suggestion are allowed (the statement says "contains all keys"; TrialScheduler.suggest documents
    that further fields may be appended).  Type clauses are checked on scheduler suggestions only (the statement speaks
    about what a scheduler suggests; casting happens in _postprocess_config).
  * "nothing left": a ``None`` is accepted iff every configuration of the reference enumeration of the finite space has
    been suggested (grid search: its grid, see below).  The known defect F6 (sample_random_configuration gives up after
    MAX_RETRIES = 100 rejected draws) is excluded EXACTLY: the monitor counts the draws the searcher makes inside one
    get_config call; a ``None`` after >= 100 draws in that call is not judged (counted in the summary).
  * grid search: the statement does not define the grid of a float / log-integer hyperparameter.  The reference
    therefore checks (a) no repeats, (b) after ``None`` the set of suggestions is a complete Cartesian product of the
    per-hyperparameter values seen, (c) hyperparameters whose grid must be the whole domain (categorical, finite
    range, integer range not larger than its number of samples) show every value, (d) the number of non-initial
    suggestions is |grid| - |initial points on the grid|.

  * "suggest answers": a scheduler / searcher that raises instead of answering violates "initial configurations ... are
    suggested first" / "every configuration a scheduler suggests ..." trivially; the clause
    ``suggest-answers-without-raising`` records such crashes and lets all other scenarios continue.
  * scenario histories use one random generator per scenario (derived from the seed and the scenario description), so
    the catalogue does not shift when a changed library takes more or fewer steps.

Known discrepancies of the unchanged tree (each has its OWN clause so that everything else stays green; found by this
monitor, reproduced stand-alone):
  (D1) ``grid-enumerated-exactly-once[finite-range-with-colliding-rounded-values]`` -- GridSearcher takes
       ``FiniteRange.values`` as is; with ``cast_int=True`` several entries can round to the same integer
       (finrange(1, 3, 5, cast_int=True) -> [1, 2, 2, 2, 3], logfinrange(1, 16, 8, cast_int=True) -> [1, 1, 2, 3, 5, ...])
       and grid search suggests the same configuration repeatedly (the analogue of the lograndint de-duplication
       that _generate_all_candidates_on_grid does for Integer ranges is missing for FiniteRange).
  (D2) ``suggest-answers-without-raising[dehb-own-sampler,imputed-default-of-integer-nn-ordinal]`` -- the mid-point
       rule returns ``np.clip(midpoint, lower, upper)``, a numpy scalar; for a nearest-neighbour ordinal with integer
       categories DEHB's own sampler encodes the imputed initial configuration with hp_ranges.to_ndarray, which asserts
       ``value = 10 has type <class 'numpy.int64'>, must be str, int, or float`` -> the first suggest raises.
  (D3) ``suggest-answers-without-raising[dehb-own-sampler,history-with-failed-trials]`` -- after ALL trials of a rung
       failed, get_top_list promotes failed slots whose trial id is None and DEHB._mutation / _de_mutation raise
       KeyError(None) in the next suggest (exhibited deterministically by failing trials 9, 10, 11 = base rung of
       bracket 1; seed-dependently by the 15%-failure histories).  The same crash occurs WITHOUT any failing trial in
       the nearly used-up finite DEHB scenarios: when all 50 retries are rejected, _suggest reports its slot as failed
       (NaN), and once a whole rung consists of such slots the next suggest raises KeyError(None) -> these scenarios
       report "suggest raised" under this clause as well.

Bounded stand-in, never counted as proved.
"""
import contextlib
import io
import itertools
import logging
import math
import sys
import warnings

import numpy as np

C_KEYS = "suggestion-contains-every-key-of-the-space"
C_CONST = "constants-unchanged"
C_TYPE = "value-has-the-type-of-its-domain"
C_DOM = "value-inside-its-domain"
C_INIT = "initial-points-first-in-given-order"
C_MID = "missing-entries-filled-by-midpoint-rule"
C_CAT0 = "missing-categorical-filled-by-documented-first-category"
C_DEDUP = "duplicate-initial-points-removed"
C_REP_FIN = "never-repeats-an-earlier-finished-configuration"
C_REP_PEND = "never-repeats-a-pending-configuration"
C_REP_FAIL = "never-repeats-a-failed-configuration"
C_FAIL_DUP = "failed-configuration-blocked-even-when-duplicates-allowed"
C_NONE = "nothing-left-only-when-finite-space-used-up"
C_GRID = "grid-enumerated-exactly-once"
C_GRID_COLL = "grid-enumerated-exactly-once[finite-range-with-colliding-rounded-values]"
C_CRASH = "suggest-answers-without-raising"
C_CRASH_DEHB = "suggest-answers-without-raising[dehb-own-sampler,imputed-default-of-integer-nn-ordinal]"
C_CRASH_DEHB_FAIL = "suggest-answers-without-raising[dehb-own-sampler,history-with-failed-trials]"
C_PBT_DOM = "pbt-explored-value-inside-its-domain"
C_PBT_TYPE = "pbt-explored-value-has-the-type-of-its-domain"

CLAUSES = [C_KEYS, C_CONST, C_TYPE, C_DOM, C_INIT, C_MID, C_CAT0, C_DEDUP, C_REP_FIN, C_REP_PEND, C_REP_FAIL, C_FAIL_DUP, C_NONE, C_GRID, C_GRID_COLL, C_CRASH, C_CRASH_DEHB, C_CRASH_DEHB_FAIL, C_PBT_DOM, C_PBT_TYPE]

MAX_VIOL = 5
RTOL_VAL = 1e-9
GIVE_UP_DRAWS = 100  # MAX_RETRIES of sample_random_configuration (known finding F6, excluded exactly)

_ENV = None


class _E:
    pass


def _env():
    """import the library quietly (optional-dependency messages are printed at import time)"""
    global _ENV
    if _ENV is not None:
        return _ENV
    sys.modules.setdefault("yahpo_gym", None)
    logging.disable(logging.CRITICAL)
    warnings.filterwarnings("ignore")
    E = _E()
    with contextlib.redirect_stdout(io.StringIO()), contextlib.redirect_stderr(io.StringIO()):
        import syne_tune.config_space as cs
        from syne_tune.backend.trial_status import Trial
        from syne_tune.optimizer.scheduler import SchedulerDecision
        from syne_tune.optimizer.schedulers.fifo import FIFOScheduler
        from syne_tune.optimizer.schedulers.hyperband import HyperbandScheduler
        from syne_tune.optimizer.schedulers.pbt import PopulationBasedTraining
        from syne_tune.optimizer.schedulers.searchers import GridSearcher, RandomSearcher
        from syne_tune.optimizer.schedulers.synchronous import GeometricDifferentialEvolutionHyperbandScheduler
    E.cs = cs
    E.Trial = Trial
    E.Decision = SchedulerDecision
    E.FIFO = FIFOScheduler
    E.Hyperband = HyperbandScheduler
    E.PBT = PopulationBasedTraining
    E.Grid = GridSearcher
    E.Random = RandomSearcher
    E.DEHB = GeometricDifferentialEvolutionHyperbandScheduler
    _ENV = E
    return E


# --------------------------------------------------------------------------------------------------------------
# reference semantics of a domain specification (independent of the library)
# --------------------------------------------------------------------------------------------------------------
_FLOAT_KINDS = ("uniform", "loguniform", "reverseloguniform", "quniform", "qloguniform")
_INT_KINDS = ("randint", "lograndint", "qrandint", "qlograndint")
_AMBIG = object()


def _near_half(x):
    return abs((x - math.floor(x)) - 0.5) <= 1e-9


def _round_set(x):
    """acceptable roundings of a real to an integer (ties are left open)"""
    if _near_half(x):
        return {int(math.floor(x)), int(math.floor(x)) + 1}
    return {int(math.floor(x + 0.5))}


def _close(a, b, rtol):
    try:
        return abs(float(a) - float(b)) <= rtol * max(1.0, abs(float(a)), abs(float(b)))
    except (TypeError, ValueError):
        return False


def _is_num(v):
    return isinstance(v, (int, float, np.integer, np.floating)) and not isinstance(v, (bool, np.bool_))


class _Ref:
    def __init__(self, spec):
        self.spec = spec
        k = spec[0]
        self.kind = k
        self.const = k == "const"
        self.q = None
        self.log = False
        self.rev = False
        self.cats = None
        self.ordkind = None
        self.reals = None
        self.cast_int = False
        self.lo = self.hi = None
        if k == "const":
            self.value = spec[1]
            self.vtype = type(spec[1])
            self.fam = "const"
        elif k in _FLOAT_KINDS:
            self.fam = "float"
            self.vtype = float
            self.lo, self.hi = float(spec[1]), float(spec[2])
            self.log = k in ("loguniform", "qloguniform")
            self.rev = k == "reverseloguniform"
            if k.startswith("q"):
                self.q = spec[3]
        elif k in _INT_KINDS:
            self.fam = "int"
            self.vtype = int
            self.lo, self.hi = int(spec[1]), int(spec[2])
            self.log = k in ("lograndint", "qlograndint")
            if k.startswith("q"):
                self.q = spec[3]
        elif k in ("choice", "ordinal"):
            self.fam = "cat"
            self.cats = list(spec[1])
            self.vtype = type(self.cats[0])
            if k == "ordinal":
                kind = spec[2]
                if kind is None:  # documented default of ordinal(): "nn" for increasing numbers, else "equal"
                    kind = "equal"
                    if len(self.cats) > 1 and isinstance(self.cats[0], (int, float)) and all(a < b for a, b in zip(self.cats, self.cats[1:])):
                        kind = "nn"
                self.ordkind = kind
        elif k in ("finrange", "logfinrange"):
            self.fam = "fin"
            lo, hi, n, ci = float(spec[1]), float(spec[2]), int(spec[3]), bool(spec[4])
            self.lo, self.hi = lo, hi
            self.log = k == "logfinrange"
            self.cast_int = ci
            self.vtype = int if ci else float
            if n == 1:
                self.reals = [lo]
            elif self.log:
                self.reals = [math.exp(math.log(lo) + i * (math.log(hi) - math.log(lo)) / (n - 1)) for i in range(n)]
            else:
                self.reals = [lo + i * (hi - lo) / (n - 1) for i in range(n)]
            if ci:
                acc = [_round_set(r) for r in self.reals]
                self.int_values = sorted(set().union(*acc))
                sure = set().union(*[a for a in acc if len(a) == 1]) if any(len(a) == 1 for a in acc) else set()
                self.int_ambiguous = set(self.int_values) != sure
                self.collides = len(self.int_values) < n
        else:
            raise ValueError("unknown spec %r" % (spec,))

    # ---- membership -------------------------------------------------------------------------------------------
    def type_ok(self, v):
        return type(v) is self.vtype

    def contains(self, v):
        """value-level membership (type is judged separately)"""
        if self.const:
            return self.same(v, self.value)
        if self.fam == "float":
            if not _is_num(v):
                return False
            # exact at the bounds: "inside the domain" (Float.is_valid).  Values a searcher decodes from an encoded vector
            # are clipped to the bounds by from_ndarray, samplers draw from the half-open interval, PBT clips.
            return self.lo <= v <= self.hi
        if self.fam == "int":
            return _is_num(v) and float(v) == math.floor(float(v)) and self.lo <= v <= self.hi
        if self.fam == "cat":
            if isinstance(self.cats[0], str):
                return isinstance(v, str) and v in self.cats
            return _is_num(v) and any(v == c for c in self.cats)
        if self.fam == "fin":
            if not _is_num(v):
                return False
            if self.cast_int:
                return float(v) == math.floor(float(v)) and int(v) in self.int_values
            return any(_close(v, r, RTOL_VAL) for r in self.reals)
        raise AssertionError

    def same(self, a, b):
        """are two values of this hyperparameter the same value (used for 'given' initial values and constants)"""
        if self.const:
            try:
                return type(a) is type(b) and bool(a == b)
            except Exception:
                return False
        if self.fam == "fin" and not self.cast_int:
            return _close(a, b, RTOL_VAL)
        try:
            return bool(a == b)
        except Exception:
            return False

    # ---- finiteness -------------------------------------------------------------------------------------------
    def finite(self):
        """canonical list of all values, or None (infinite / not judged)"""
        if self.const:
            return None  # not a hyperparameter
        if self.q is not None:
            return None
        if self.fam == "float":
            return [self.lo] if self.lo == self.hi else None
        if self.fam == "int":
            return list(range(self.lo, self.hi + 1))
        if self.fam == "cat":
            out = []
            for c in self.cats:
                if c not in out:
                    out.append(c)
            return out
        if self.fam == "fin":
            if self.cast_int:
                return None if self.int_ambiguous else list(self.int_values)
            return list(range(len(self.reals)))  # canonical = index
        raise AssertionError

    def canon(self, v):
        if self.fam == "fin" and not self.cast_int:
            d = [abs(float(v) - r) for r in self.reals]
            return int(np.argmin(d))
        if self.fam == "float":
            return float(v)
        if self.fam == "int" or (self.fam == "fin" and self.cast_int):
            return int(v)
        return v

    # ---- mid-point rule ---------------------------------------------------------------------------------------
    def _mid_real(self):
        if self.log:
            return math.exp(0.5 * (math.log(self.lo) + math.log(self.hi)))
        return 0.5 * (self.hi + self.lo)

    def mid_set(self):
        """(list of acceptable imputed values, approximate?) ; None = any member (unordered categorical)"""
        if self.fam == "float":
            out = [self._mid_real()]
            if self.rev:
                out.append(1.0 - math.sqrt((1.0 - self.lo) * (1.0 - self.hi)))
            if self.q is not None:  # quantised: arithmetic or geometric centre, quantised or not (left open)
                out.append(0.5 * (self.hi + self.lo))
                out += [self.q * f(m / self.q) for m in list(out) for f in (math.floor, math.ceil)]
            return out, True
        if self.fam == "int":
            mids = [self._mid_real()]
            if self.q is not None:
                mids.append(0.5 * (self.hi + self.lo))
            out = set()
            for m in mids:
                out |= set(_round_set(m))
                if self.q is not None:
                    out |= {int(self.q * math.floor(m / self.q)), int(self.q * math.ceil(m / self.q))}
            return sorted(x for x in out if self.lo <= x <= self.hi) or sorted(out), False
        if self.fam == "cat":
            n = len(self.cats)
            if self.ordkind is None:
                return None, False
            if self.ordkind == "equal" or n == 1:
                return sorted({self.cats[n // 2], self.cats[(n - 1) // 2]}, key=self.cats.index), False
            f = (lambda x: math.log(float(x))) if self.ordkind == "nn-log" else float
            m = 0.5 * (f(self.cats[0]) + f(self.cats[-1]))
            d = [abs(f(c) - m) for c in self.cats]
            scale = max(1.0, abs(f(self.cats[0])), abs(f(self.cats[-1])))
            return [c for c, di in zip(self.cats, d) if di <= min(d) + 1e-9 * scale], False
        if self.fam == "fin":
            m = self._mid_real()
            f = math.log if self.log else float
            d = [abs(f(r) - f(m)) for r in self.reals]
            scale = max(1.0, abs(f(self.reals[0])), abs(f(self.reals[-1])))
            near = [r for r, di in zip(self.reals, d) if di <= min(d) + 1e-9 * scale]
            if self.cast_int:
                return sorted(set().union(*[_round_set(r) for r in near])), False
            return near, True
        raise AssertionError

    def mid_ok(self, v):
        vals, approx = self.mid_set()
        if vals is None:
            return self.contains(v)
        if approx:
            return _is_num(v) and any(_close(v, x, RTOL_VAL) for x in vals)
        return any(self.same(v, x) for x in vals)

    def mid_unique(self):
        """the unique imputed value (for the reference de-duplication), _AMBIG if the rule leaves several open or if the
        value is only known up to round-off"""
        if self.fam == "cat" and self.ordkind is None:
            return self.cats[0]  # documented default
        vals, approx = self.mid_set()
        if self.fam == "float":
            if self.log or self.rev or self.q is not None:
                return _AMBIG
            return vals[0]  # 0.5 * (hi + lo) is exact to evaluate
        if len(vals) != 1:
            return _AMBIG
        return vals[0]


def _build_domain(spec, E):
    cs = E.cs
    k = spec[0]
    if k == "const":
        return spec[1]
    if k == "choice":
        return cs.choice(list(spec[1]))
    if k == "ordinal":
        return cs.ordinal(list(spec[1]), kind=spec[2])
    if k in ("finrange", "logfinrange"):
        return getattr(cs, k)(spec[1], spec[2], spec[3], cast_int=spec[4])
    return getattr(cs, k)(*spec[1:])


class _Space:
    def __init__(self, name, specs, E):
        self.name = name
        self.specs = dict(specs)
        self.refs = {k: _Ref(s) for k, s in specs.items()}
        self.hp = [k for k, r in self.refs.items() if not r.const]
        self.consts = [k for k, r in self.refs.items() if r.const]
        self.E = E

    def build(self):
        return {k: _build_domain(s, self.E) for k, s in self.specs.items()}

    def size(self):
        """number of configurations, None if infinite or not judged (quantised domains, ambiguous rounding)"""
        per = [self.refs[k].finite() for k in self.hp]
        if any(p is None for p in per):
            return None
        n = 1
        for p in per:
            n *= len(p)
        return n

    def finite_all(self):
        """set of canonical tuples of the whole space; None if infinite / not judged / larger than 5000"""
        if not hasattr(self, "_fa"):
            n = self.size()
            self._fa = None if (n is None or n > 5000) else set(itertools.product(*[self.refs[k].finite() for k in self.hp]))
        return self._fa

    def surely_infinite(self):
        """some hyperparameter is a genuine (not quantised, not degenerate) float interval"""
        return any((r.fam == "float" and r.q is None and r.lo < r.hi) for r in self.refs.values())

    def none_judged(self):
        """can the reference decide whether the space is used up?  (more than 5000 configurations: never used up within
        the step bounds of this monitor)"""
        return self.size() is not None or self.surely_infinite()

    def canon(self, cfg):
        return tuple(self.refs[k].canon(cfg[k]) for k in self.hp)

    def equal(self, a, b, tol=0.0):
        for k in self.hp:
            if k not in a or k not in b:
                return False
            x, y = a[k], b[k]
            try:
                if not bool(x == y):
                    if tol and _is_num(x) and _is_num(y) and _close(x, y, tol):
                        continue
                    return False
            except Exception:
                return False
        return True

    def has_collision(self):
        return any(r.fam == "fin" and r.cast_int and r.collides for r in self.refs.values())

    def describe(self):
        return {k: list(s) for k, s in self.specs.items()}


# --------------------------------------------------------------------------------------------------------------
# bookkeeping
# --------------------------------------------------------------------------------------------------------------
def _js(x):
    if isinstance(x, dict):
        return {str(k): _js(v) for k, v in x.items()}
    if isinstance(x, (list, tuple, set)):
        return [_js(v) for v in x]
    if isinstance(x, np.generic):
        return {"numpy": type(x).__name__, "value": x.item()}
    if isinstance(x, (str, int, float, bool)) or x is None:
        return x
    return repr(x)[:200]


class _Ctx:
    def __init__(self):
        self.n = {c: 0 for c in CLAUSES}
        self.per = {}
        self.viol = []
        self.scenarios = 0
        self.fam_count = {}
        self.samples = []
        self.excluded_f6 = 0
        self.suggestions = 0
        self.seed = 0

    def check(self, clause, ok, **details):
        self.n[clause] += 1
        if not ok:
            if self.per.get(clause, 0) < MAX_VIOL:
                self.per[clause] = self.per.get(clause, 0) + 1
                self.viol.append(dict({"clause": clause}, **_js(details)))
        return ok

    def scenario(self, sc):
        self.scenarios += 1
        fam = sc["family"]
        self.fam_count[fam] = self.fam_count.get(fam, 0) + 1
        if len(self.samples) < 4 and self.fam_count[fam] == 2 and fam not in [s["family"] for s in self.samples]:
            self.samples.append(_js({k: sc[k] for k in ("family", "space", "points_to_evaluate", "options") if k in sc}))


# --------------------------------------------------------------------------------------------------------------
# points_to_evaluate catalogue + reference of the initial phase
# --------------------------------------------------------------------------------------------------------------
def _valid_value(ref, rng, where="random"):
    """a value of the domain in the user's hands (python types); where in random / low / high"""
    if ref.fam == "float":
        if where == "low":
            return ref.lo
        if where == "high":
            return ref.hi
        if ref.q is not None:
            lo_i, hi_i = int(math.ceil(ref.lo / ref.q - 1e-9)), int(math.floor(ref.hi / ref.q + 1e-9))
            v = ref.q * int(rng.randint(lo_i, hi_i + 1))
            return float(min(max(v, ref.lo), ref.hi))
        if ref.log:
            return float(math.exp(rng.uniform(math.log(ref.lo), math.log(ref.hi)) * 0.999 + 0.001 * math.log(ref.lo)))
        u = float(rng.uniform(0.02, 0.98))
        if abs(u - 0.5) < 0.01:
            u = 0.37
        return ref.lo + u * (ref.hi - ref.lo)
    if ref.fam == "int":
        if where == "low":
            return ref.lo
        if where == "high":
            return ref.hi
        return int(rng.randint(ref.lo, ref.hi + 1))
    if ref.fam == "cat":
        if where == "low":
            return ref.cats[0]
        if where == "high":
            return ref.cats[-1]
        return ref.cats[int(rng.randint(len(ref.cats)))]
    if ref.fam == "fin":
        i = 0 if where == "low" else (len(ref.reals) - 1 if where == "high" else int(rng.randint(len(ref.reals))))
        if ref.cast_int:
            return ref.int_values[0] if where == "low" else (ref.int_values[-1] if where == "high" else ref.int_values[int(rng.randint(len(ref.int_values)))])
        return ref.reals[i]
    raise AssertionError


def _full(space, rng, where="random"):
    return {k: _valid_value(space.refs[k], rng, where) for k in space.hp}


def _partial(space, rng):
    cfg = _full(space, rng)
    keep = [k for k in space.hp if rng.rand() < 0.5]
    return {k: cfg[k] for k in keep}


def _p2e_variants(space, rng, count):
    """list of (label, raw points_to_evaluate)"""
    out = [("none", None), ("empty-list", []), ("one-empty-dict", [{}])]
    f1, f2, f3 = _full(space, rng), _full(space, rng), _full(space, rng)
    out.append(("one-full", [f1]))
    out.append(("one-partial", [_partial(space, rng)]))
    out.append(("full-repeated-then-partial", [f1, dict(f1), _partial(space, rng), f2]))
    out.append(("bounds", [_full(space, rng, "low"), _full(space, rng, "high")]))
    # an entry that spells out mid-point values is a duplicate of the empty dict (only where the rule is unambiguous)
    mids = {k: space.refs[k].mid_unique() for k in space.hp}
    spell = {k: v for k, v in mids.items() if v is not _AMBIG and rng.rand() < 0.7}
    out.append(("empty-dict-and-its-spelled-out-twin", [{}, spell, f3, {}]))
    out.append(("partials", [_partial(space, rng), {}, _partial(space, rng), f2, _partial(space, rng)]))
    if space.consts:
        withc = dict(f3)
        withc[space.consts[0]] = space.refs[space.consts[0]].value
        out.append(("full-with-constant-key", [withc, f1]))
    if count >= len(out):
        return out
    idx = [0, 1] + sorted(rng.choice(np.arange(2, len(out)), size=max(0, count - 2), replace=False).tolist())
    return [out[i] for i in idx]


class _Ambiguous(Exception):
    pass


def _ref_initial(raw, space):
    """reference of the initial phase: list of dicts {hp: given value} (missing = mid-point rule), de-duplicated"""
    if raw is None:
        raw = [dict()]
    out = []
    for p in raw:
        e = {k: p[k] for k in space.hp if k in p}
        dup = False
        for o in out:
            same = True
            for k in space.hp:
                ref = space.refs[k]
                a, b = k in e, k in o
                if a and b:
                    same = ref.same(e[k], o[k])
                elif a != b:
                    g = e[k] if a else o[k]
                    u = ref.mid_unique()
                    if u is _AMBIG:
                        if ref.mid_ok(g):
                            raise _Ambiguous()
                        same = False
                    else:
                        same = ref.same(g, u)
                if not same:
                    break
            if same:
                dup = True
                break
        if not dup:
            out.append(e)
    return out, len(out) != len(raw)


# --------------------------------------------------------------------------------------------------------------
# checks on one suggestion
# --------------------------------------------------------------------------------------------------------------
def _check_valid(ctx, sc, space, cfg, step, level, dom_clause=C_DOM, type_clause=C_TYPE, const_latitude=()):
    where = {"scenario": sc, "step": step, "config": cfg}
    if level == "scheduler":
        missing = [k for k in space.refs if k not in cfg]
        ctx.check(C_KEYS, not missing, missing=missing, **where)
        for k in space.consts:
            if k in const_latitude:
                continue  # documented: a scheduler may overwrite max_resource_attr
            ctx.check(C_CONST, k in cfg and space.refs[k].same(cfg[k], space.refs[k].value), key=k, expected=space.refs[k].value, **where)
        for k in space.hp:
            if k in cfg:
                ctx.check(type_clause, space.refs[k].type_ok(cfg[k]), key=k, got_type=type(cfg[k]).__name__, expected_type=space.refs[k].vtype.__name__, **where)
    for k in space.hp:
        if k in cfg:
            ctx.check(dom_clause, space.refs[k].contains(cfg[k]), key=k, domain=list(space.specs[k]), **where)
        elif level != "scheduler":
            ctx.check(dom_clause, False, key=k, note="hyperparameter missing in searcher suggestion", **where)


def _check_initial(ctx, sc, space, cfg, step, expected, approx_given):
    e = expected[step]
    where = {"scenario": sc, "step": step, "config": cfg}
    bad = []
    for k, g in e.items():
        if k not in cfg:
            bad.append(k)
        elif not (space.refs[k].same(cfg[k], g) or (approx_given and _is_num(g) and _close(cfg[k], g, RTOL_VAL))):
            bad.append(k)
    ctx.check(C_INIT, not bad, expected_given=e, differing_keys=bad, **where)
    for k in space.hp:
        if k in e or k not in cfg:
            continue
        ref = space.refs[k]
        vals = ref.mid_set()[0]
        ctx.check(C_MID, ref.mid_ok(cfg[k]), key=k, domain=list(space.specs[k]), acceptable=vals if vals is not None else "any category", **where)
        if ref.fam == "cat" and ref.ordkind is None:
            ctx.check(C_CAT0, ref.same(cfg[k], ref.cats[0]), key=k, domain=list(space.specs[k]), **where)


# --------------------------------------------------------------------------------------------------------------
# adapters: one interface for searcher-level and scheduler-level driving
# --------------------------------------------------------------------------------------------------------------
class _Adapter:
    level = "scheduler"
    can_pend = True

    def __init__(self):
        self.draws = 0

    def hook_draws(self, hp_ranges):
        orig = hp_ranges.random_config
        me = self

        def counted(random_state):
            me.draws += 1
            return orig(random_state)

        hp_ranges.random_config = counted


class _SearcherAd(_Adapter):
    level = "searcher"

    def __init__(self, searcher):
        super().__init__()
        self.s = searcher
        if hasattr(searcher, "_hp_ranges"):
            self.hook_draws(searcher._hp_ranges)

    def suggest(self, i):
        self.draws = 0
        cfg = self.s.get_config(trial_id=str(i))
        if cfg is not None:
            self.s.register_pending(str(i), cfg)
        return cfg

    def finish(self, i, cfg, val):
        self.s.on_trial_result(str(i), cfg, {"loss": val}, update=True)

    def fail(self, i):
        self.s.evaluation_failed(str(i))


class _FifoAd(_Adapter):
    def __init__(self, sched, E):
        super().__init__()
        self.sched = sched
        self.E = E
        self.trials = {}
        s = sched.searcher
        if hasattr(s, "_hp_ranges"):
            self.hook_draws(s._hp_ranges)

    def _new(self, i, cfg):
        import datetime

        t = self.E.Trial(trial_id=i, config=cfg, creation_time=datetime.datetime(2024, 1, 1))
        self.trials[i] = t
        self.sched.on_trial_add(t)
        return t

    def suggest(self, i):
        self.draws = 0
        sg = self.sched.suggest(i)
        if sg is None:
            return None
        if not sg.spawn_new_trial_id:
            raise RuntimeError("FIFO scheduler resumed a trial")
        self._new(i, sg.config)
        return sg.config

    def finish(self, i, cfg, val):
        r = {"loss": val, "epoch": 1}
        self.sched.on_trial_result(self.trials[i], r)
        self.sched.on_trial_complete(self.trials[i], r)

    def fail(self, i):
        self.sched.on_trial_error(self.trials[i])


class _MultiFidAd(_FifoAd):
    """HyperbandScheduler (stopping / promotion) and DEHB: trials are run rung by rung, resumed trials are advanced"""

    def __init__(self, sched, E, max_t, can_pend=True):
        super().__init__(sched, E)
        self.max_t = max_t
        self.epoch = {}
        self.base = {}
        self.can_pend = can_pend
        self.dead = set()

    def _run(self, tid):
        trial = self.trials[tid]
        e = self.epoch.get(tid, 0)
        d = None
        r = None
        while e < self.max_t:
            e += 1
            r = {"loss": self.base[tid] + 0.25 / e, "epoch": e}
            d = self.sched.on_trial_result(trial, r)
            if d != self.E.Decision.CONTINUE:
                break
        self.epoch[tid] = e
        if r is None:
            return
        if d == self.E.Decision.CONTINUE:
            self.sched.on_trial_complete(trial, r)
        else:
            self.sched.on_trial_remove(trial)

    def suggest(self, i):
        self.draws = 0
        for _ in range(200):
            sg = self.sched.suggest(i)
            if sg is None:
                return None
            if sg.spawn_new_trial_id:
                self._new(i, sg.config)
                return sg.config
            tid = int(sg.checkpoint_trial_id)
            if tid in self.dead or tid not in self.base:
                raise RuntimeError("scheduler resumed trial %r which failed / never reported" % tid)
            self._run(tid)
        raise RuntimeError("more than 200 resume suggestions in a row")

    def finish(self, i, cfg, val):
        self.base[i] = val
        self._run(i)

    def fail(self, i):
        self.dead.add(i)
        self.sched.on_trial_error(self.trials[i])


# --------------------------------------------------------------------------------------------------------------
# the generic sequence runner (random / grid / BO / hyperband / DEHB)
# --------------------------------------------------------------------------------------------------------------
def _run_sequence(ctx, sc, space, ad, raw_p2e, promise, steps, rng, fates=(0.5, 0.2, 0.3), approx_given=False, grid=None, blocks_failed=False, const_latitude=(), none_judged=True, crash_clause=C_CRASH, forced_fail=(), max_nones=2, metric_fn=None):
    """promise: the searcher promises not to repeat itself.  fates = P(finish), P(fail), P(stay pending)
    grid: None or dict(num_samples=..., colliding=bool) -> end-of-run enumeration clause"""
    ctx.scenario(sc)
    rng = _scenario_rng(ctx.seed, sc)  # the history must not depend on how many steps earlier scenarios took
    expected, raw_dups = _ref_initial(raw_p2e, space)
    finite_all = space.finite_all()
    hist = []  # dicts: cfg, status, id
    by_key = {}
    n_status = {"pending": 0, "finished": 0, "failed": 0}
    seen = set()
    nones = 0
    first_none_step = None
    in_initial = True
    rep_clause = {"finished": C_REP_FIN, "pending": C_REP_PEND, "failed": C_REP_FAIL}
    if grid is not None and grid.get("colliding"):
        rep_clause = {k: C_GRID_COLL for k in rep_clause}
    for step in range(steps):
        try:
            cfg = ad.suggest(step)
        except Exception as exc:  # the scheduler / searcher raised instead of answering
            ctx.check(crash_clause, False, scenario=sc, step=step, raised=repr(exc)[:300], at=_last_frames(exc))
            break
        ctx.check(crash_clause, True)
        if cfg is None:
            nones += 1
            in_initial = False
            if first_none_step is None:
                first_none_step = step
            if grid is None and none_judged and space.none_judged():
                used_up = finite_all is not None and finite_all <= seen
                if not used_up and ad.draws >= GIVE_UP_DRAWS:
                    ctx.excluded_f6 += 1  # known finding F6: gave up after MAX_RETRIES rejected draws
                else:
                    ctx.check(C_NONE, used_up, scenario=sc, step=step, space_size=None if finite_all is None else len(finite_all), distinct_suggested=len(seen), draws_in_this_call=ad.draws, missing=sorted(finite_all - seen, key=repr)[:5] if finite_all is not None else "space is infinite")
            if nones >= max_nones:
                break
            continue
        ctx.suggestions += 1
        _check_valid(ctx, sc, space, cfg, step, ad.level, const_latitude=const_latitude)
        ok_keys = all(k in cfg for k in space.hp)
        if in_initial and step < len(expected):
            _check_initial(ctx, sc, space, cfg, step, expected, approx_given)
        else:
            in_initial = False
        if ok_keys:
            if raw_dups and step < len(raw_p2e) and (promise or space.surely_infinite()):
                # had the duplicates not been removed, one of the first len(points_to_evaluate) suggestions would be an
                # initial configuration again
                twin = [h["id"] for h in hist[: len(expected)] if space.equal(h["cfg"], cfg)]
                raw_e = raw_p2e[step]
                walks_raw_list = all(k in raw_e and space.refs[k].same(cfg[k], raw_e[k]) or (k not in raw_e and space.refs[k].mid_ok(cfg[k])) for k in space.hp)
                ctx.check(C_DEDUP, not (twin and walks_raw_list), scenario=sc, step=step, config=cfg, equal_to_initial_suggestion=twin, is_entry_of_the_given_list=raw_e)
            equal_earlier = by_key.get(_key(space, cfg), [])  # exact equality of all hyperparameter values
            if promise:
                for status, clause in rep_clause.items():
                    if n_status[status]:
                        twin = [h["id"] for h in equal_earlier if h["status"] == status]
                        ctx.check(clause, not twin, scenario=sc, step=step, config=cfg, equal_to_suggestion=twin, status_of_earlier=status)
            elif blocks_failed:
                if n_status["failed"]:
                    twin = [h["id"] for h in equal_earlier if h["status"] == "failed"]
                    ctx.check(C_FAIL_DUP, not twin, scenario=sc, step=step, config=cfg, equal_to_failed_suggestion=twin)
            try:
                seen.add(space.canon(cfg))
            except Exception:
                pass
        rec = {"cfg": dict(cfg), "status": "pending", "id": step}
        hist.append(rec)
        n_status["pending"] += 1
        if ok_keys:
            by_key.setdefault(_key(space, cfg), []).append(rec)
        # history: fate of the new trial, and of one older pending one
        p_fin, p_fail, p_pend = fates
        if not ad.can_pend:
            p_pend = 0.0
        u = rng.rand() * (p_fin + p_fail + p_pend)
        todo = []
        if step in forced_fail:
            todo.append((rec, "failed"))
        elif u < p_fin:
            todo.append((rec, "finished"))
        elif u < p_fin + p_fail:
            todo.append((rec, "failed"))
        older = [h for h in hist[:-1] if h["status"] == "pending"]
        if older and rng.rand() < 0.3:
            todo.append((older[int(rng.randint(len(older)))], "finished" if rng.rand() < 0.6 else "failed"))
        for h, kind in todo:
            if kind == "finished":
                noise = float(np.round(rng.uniform(0.0, 1.0), 3))
                ad.finish(h["id"], h["cfg"], noise if metric_fn is None else float(metric_fn(h["cfg"])) + 0.01 * noise)
            else:
                ad.fail(h["id"])
            n_status[h["status"]] -= 1
            h["status"] = kind
            n_status[kind] += 1
    if grid is not None:
        _check_grid_end(ctx, sc, space, hist, expected, nones, first_none_step, grid)
    return hist, nones


def _key(space, cfg):
    """hashable key; a == b  <=>  key(a) == key(b) for python / numpy numbers and strings"""
    out = []
    for k in space.hp:
        v = cfg[k]
        if isinstance(v, np.generic):
            v = v.item()
        if isinstance(v, float) and v == math.floor(v) and abs(v) < 2**53:
            v = int(v)
        if isinstance(v, bool):
            v = int(v)
        try:
            hash(v)
        except TypeError:
            v = repr(v)
        out.append(v)
    return tuple(out)


def _last_frames(exc):
    import traceback

    return ["%s:%d %s" % (f.filename.split("syne_tune/")[-1], f.lineno, f.name) for f in traceback.extract_tb(exc.__traceback__)[-3:]]


def _scenario_rng(master_seed, sc):
    import json
    import zlib

    return np.random.RandomState((int(master_seed) * 1000003 + zlib.crc32(json.dumps(_js(sc), sort_keys=True).encode())) % (2**32))


def _check_grid_end(ctx, sc, space, hist, expected, nones, first_none_step, grid):
    clause = C_GRID_COLL if grid.get("colliding") else C_GRID
    if not ctx.check(clause, nones >= 1, scenario=sc, note="grid search never answered 'nothing left' within the step bound", suggestions=len(hist)):
        return
    cfgs = [h["cfg"] for h in hist]
    if any(k not in c for c in cfgs for k in space.hp):
        return
    n_init = min(len(expected), len(cfgs))
    later = cfgs[n_init:]
    init = cfgs[:n_init]
    # (a) nothing suggested after the first 'nothing left' (every later step answered None: the loop stops after 2)
    # (b) complete Cartesian product of the values seen in the grid phase
    vals = {k: [] for k in space.hp}
    for c in later:
        for k in space.hp:
            if len(vals[k]) < 64 and not any(_same_val(c[k], v) for v in vals[k]):
                vals[k].append(c[k])
    if later:
        prod = [dict(zip(space.hp, t)) for t in itertools.product(*[vals[k] for k in space.hp])]
        have = set(_key(space, c) for c in cfgs)
        missing = [p for p in prod if _key(space, p) not in have and not any(space.equal(p, c, tol=RTOL_VAL) for c in cfgs)]
        ctx.check(clause, not missing, scenario=sc, note="grid not a complete Cartesian product when 'nothing left' was answered", missing=missing[:3], suggestions=len(cfgs))
        # (d) exactly once: number of grid-phase suggestions
        init_on_grid = [p for p in prod if any(space.equal(p, c, tol=RTOL_VAL) for c in init)] if init else []
        ctx.check(clause, len(later) == len(prod) - len(init_on_grid), scenario=sc, note="number of grid-phase suggestions differs from |grid| - |initial points on the grid|", grid_phase_suggestions=len(later), grid_size=len(prod), initial_on_grid=len(init_on_grid))
    # (c) hyperparameters whose grid is the whole domain
    ns = grid.get("num_samples") or {}
    for k in space.hp:
        ref = space.refs[k]
        fin = ref.finite()
        whole = fin is not None and (ref.fam in ("cat", "fin") or (ref.fam == "float") or (ref.fam == "int" and not ref.log and len(fin) <= ns.get(k, 5)))
        if whole:
            got = set()
            for c in cfgs:
                try:
                    got.add(ref.canon(c[k]))
                except Exception:
                    pass
            ctx.check(clause, set(fin) <= got, scenario=sc, note="value of a fully enumerable hyperparameter never suggested", key=k, missing=sorted(set(fin) - got, key=repr)[:5])
    if space.finite_all() is not None and all((space.refs[k].fam in ("cat", "fin") or (space.refs[k].fam == "int" and not space.refs[k].log and len(space.refs[k].finite()) <= ns.get(k, 5)) or space.refs[k].fam == "float") for k in space.hp):
        fa = space.finite_all()
        extra_init = len([c for i, c in enumerate(init) if not any(space.equal(c, d) for d in init[:i])])
        ctx.check(clause, len(cfgs) == len(fa), scenario=sc, note="grid = whole finite space: number of suggestions differs from the size of the space", suggestions=len(cfgs), space_size=len(fa), initial=extra_init)


def _same_val(a, b):
    try:
        return bool(a == b)
    except Exception:
        return False


# --------------------------------------------------------------------------------------------------------------
# space catalogue
# --------------------------------------------------------------------------------------------------------------
_FINITE_POOL = [
    ("randint", 0, 3),
    ("randint", -2, 1),
    ("randint", 3, 3),
    ("randint", 1, 5),
    ("lograndint", 1, 5),
    ("lograndint", 2, 6),
    ("lograndint", 1, 8),
    ("lograndint", 1, 3),
    ("choice", ("a", "b", "c")),
    ("choice", ("only",)),
    ("choice", (1, 2, 3)),
    ("choice", (0.1, 0.5)),
    ("ordinal", ("s", "m", "l"), "equal"),
    ("ordinal", ("w", "x", "y", "z"), None),
    ("ordinal", (1, 2, 4, 8), "nn"),
    ("ordinal", (1, 10, 100), "nn-log"),
    ("ordinal", (5,), None),
    ("ordinal", (0.1, 0.2, 0.4), None),
    ("finrange", 0.0, 1.0, 3, False),
    ("finrange", -1.0, 1.0, 5, False),
    ("finrange", 2.0, 2.0, 1, False),
    ("finrange", 0, 8, 5, True),
    ("logfinrange", 1.0, 100.0, 3, False),
    ("logfinrange", 1, 64, 4, True),
    ("uniform", 0.5, 0.5),
]
_INFINITE_POOL = [
    ("uniform", -1.0, 1.0),
    ("uniform", 0.0, 1.0),
    ("uniform", -3.0, -0.5),
    ("loguniform", 1e-3, 1.0),
    ("loguniform", 1.0, 1e3),
    ("reverseloguniform", 0.9, 0.999),
    ("quniform", 0.0, 1.0, 0.25),
    ("qloguniform", 0.01, 1.0, 0.01),
    ("qrandint", 0, 10, 5),
    ("qrandint", 1, 10, 4),
    ("qlograndint", 1, 16, 2),
    ("randint", -50, 50),
    ("lograndint", 1, 1000),
]
_CONST_POOL = [("const", 32), ("const", "adam"), ("const", 0.1), ("const", True), ("const", None), ("const", (1, 2))]
_COLLIDING_POOL = [("finrange", 1, 3, 5, True), ("logfinrange", 1, 16, 8, True), ("finrange", 0, 2, 4, True)]


def _enumerated_finite_spaces():
    out = []
    # one-dimensional: every finite domain on its own
    for i, s in enumerate(_FINITE_POOL):
        out.append(("fin1-%d" % i, {"h": s}))
    # the log-integer ranges whose grid points collide, with neighbours and constants
    out.append(("logint-cat-const", {"num_layers": ("lograndint", 1, 5), "optimizer": ("choice", ("sgd", "adam")), "batch_size": ("const", 32)}))
    out.append(("logint-int", {"width": ("lograndint", 2, 6), "depth": ("randint", 1, 3)}))
    out.append(("logint-logint", {"a": ("lograndint", 1, 5), "b": ("lograndint", 1, 3)}))
    out.append(("logint8-ord", {"a": ("lograndint", 1, 8), "o": ("ordinal", (1, 2, 4), "nn")}))
    out.append(("int-cat", {"depth": ("randint", 0, 3), "act": ("choice", ("relu", "tanh", "gelu"))}))
    out.append(("negint-fin-const", {"n": ("randint", -2, 1), "f": ("finrange", -1.0, 1.0, 3, False), "c": ("const", "x"), "d": ("const", 0.1)}))
    out.append(("singles", {"a": ("randint", 3, 3), "b": ("choice", ("only",)), "c": ("uniform", 0.5, 0.5), "d": ("finrange", 2.0, 2.0, 1, False), "e": ("ordinal", (5,), None)}))
    out.append(("singles-and-one", {"a": ("randint", 3, 3), "b": ("choice", ("p", "q")), "k": ("const", None)}))
    out.append(("three-dims", {"a": ("randint", 0, 1), "b": ("choice", ("x", "y")), "c": ("logfinrange", 1, 64, 4, True)}))
    out.append(("float-cats", {"a": ("choice", (0.1, 0.5)), "b": ("ordinal", (0.1, 0.2, 0.4), None)}))
    return out


def _random_space(rng, idx, finite, max_size=None, with_infinite=0):
    for _ in range(100):
        nh = int(rng.randint(1, 4))
        specs = {}
        picks = rng.choice(len(_FINITE_POOL), size=nh, replace=False)
        for j, p in enumerate(picks):
            specs["h%d" % j] = _FINITE_POOL[int(p)]
        for j in range(with_infinite):
            specs["x%d" % j] = _INFINITE_POOL[int(rng.randint(len(_INFINITE_POOL)))]
        for j in range(int(rng.randint(0, 3))):
            specs["c%d" % j] = _CONST_POOL[int(rng.randint(len(_CONST_POOL)))]
        # random insertion order (constants between hyperparameters)
        keys = list(specs)
        rng.shuffle(keys)
        specs = {k: specs[k] for k in keys}
        if finite:
            size = 1
            for k, s in specs.items():
                f = _Ref(s).finite()
                if s[0] != "const":
                    size *= len(f) if f is not None else 10**9
            if max_size is not None and size > max_size:
                continue
        return ("rnd%s-%d" % ("F" if finite else "I", idx), specs)
    raise RuntimeError("no space found")


# --------------------------------------------------------------------------------------------------------------
# scenario families
# --------------------------------------------------------------------------------------------------------------
def _scen(family, space, label, raw, options, seed):
    return {"family": family, "space_name": space.name, "space": space.describe(), "points_to_evaluate_kind": label, "points_to_evaluate": raw, "options": options, "library_seed": seed}


def _copy_p2e(raw):
    return None if raw is None else [dict(p) for p in raw]


def _fam_random(ctx, E, spaces, rng, n_p2e, lib_seed, via_scheduler):
    for space in spaces:
        size = space.size()
        for label, raw in _p2e_variants(space, rng, n_p2e):
            for allow_dup in (False, True):
                if allow_dup and label not in ("none", "full-repeated-then-partial", "bounds"):
                    continue
                try:
                    _ref_initial(raw, space)
                except _Ambiguous:
                    continue
                fam = ("fifo[random]" if via_scheduler else "random-searcher")
                sc = _scen(fam, space, label, raw, {"allow_duplicates": allow_dup}, lib_seed)
                if via_scheduler:
                    sched = E.FIFO(space.build(), searcher="random", metric="loss", mode="min", points_to_evaluate=_copy_p2e(raw), random_seed=lib_seed, search_options={"allow_duplicates": allow_dup, "debug_log": False})
                    ad = _FifoAd(sched, E)
                else:
                    s = E.Random(space.build(), metric="loss", points_to_evaluate=_copy_p2e(raw), random_seed=lib_seed, allow_duplicates=allow_dup)
                    ad = _SearcherAd(s)
                if size is not None and size <= 40:
                    steps = size + len(raw or [1]) + 4 if not allow_dup else min(size + 6, 30)
                else:
                    steps = len(raw or [1]) + 8
                _run_sequence(ctx, sc, space, ad, raw, promise=not allow_dup, steps=steps, rng=rng, blocks_failed=allow_dup)


def _grid_bound(space):
    """upper bound on the number of grid points (default 5 samples per float / integer hyperparameter)"""
    bound = 1
    for k in space.hp:
        r = space.refs[k]
        f = r.finite()
        bound *= len(r.reals) if r.fam == "fin" else (len(f) if f is not None and r.fam != "int" else 5)
    return bound


def _fam_grid(ctx, E, spaces, rng, n_p2e, lib_seed, via_scheduler, colliding=False, max_grid=250):
    for space in spaces:
        if _grid_bound(space) > max_grid:
            continue
        for label, raw in _p2e_variants(space, rng, n_p2e):
            try:
                _ref_initial(raw, space)
            except _Ambiguous:
                continue
            for shuffle in (False, True):
                for allow_dup in (False, True):
                    if allow_dup and (label != "one-full" or shuffle):
                        continue
                    ns = None
                    if any(space.refs[k].fam == "float" for k in space.hp) and rng.rand() < 0.5:
                        ns = {k: 3 for k in space.hp if space.refs[k].fam == "float"}
                    fam = ("fifo[grid]" if via_scheduler else "grid-searcher") + ("[colliding-finite-range]" if colliding else "")
                    sc = _scen(fam, space, label, raw, {"shuffle_config": shuffle, "allow_duplicates": allow_dup, "num_samples": ns}, lib_seed)
                    if via_scheduler:
                        so = {"shuffle_config": shuffle, "allow_duplicates": allow_dup}
                        if ns is not None:
                            so["num_samples"] = dict(ns)
                        sched = E.FIFO(space.build(), searcher="grid", metric="loss", mode="min", points_to_evaluate=_copy_p2e(raw), random_seed=lib_seed, search_options=so)
                        ad = _FifoAd(sched, E)
                    else:
                        s = E.Grid(space.build(), metric="loss", points_to_evaluate=_copy_p2e(raw), shuffle_config=shuffle, allow_duplicates=allow_dup, num_samples=None if ns is None else dict(ns), random_seed=lib_seed)
                        ad = _SearcherAd(s)
                    steps = _grid_bound(space) + len(raw or [1]) + 4
                    if allow_dup:
                        _run_sequence(ctx, sc, space, ad, raw, promise=False, steps=min(steps, 25), rng=rng, none_judged=False)
                    else:
                        _run_sequence(ctx, sc, space, ad, raw, promise=True, steps=steps, rng=rng, grid={"num_samples": ns, "colliding": colliding})


def _fam_hyperband(ctx, E, spaces, rng, lib_seed, searchers, types, steps_inf, n_p2e=3, search_options=None, steps_plus_initial=False):
    for space in spaces:
        size = space.size()
        for label, raw in _p2e_variants(space, rng, n_p2e):
            try:
                _ref_initial(raw, space)
            except _Ambiguous:
                continue
            for searcher in searchers:
                for tp in types:
                    so = dict(search_options or {})
                    so["debug_log"] = False
                    fam = "hyperband[%s,%s]" % (searcher, tp)
                    sc = _scen(fam, space, label, raw, {"type": tp, "max_t": 9, "grace_period": 1, "reduction_factor": 3, "search_options": so}, lib_seed)
                    sched = E.Hyperband(space.build(), searcher=searcher, metric="loss", mode="min", resource_attr="epoch", max_t=9, grace_period=1, reduction_factor=3, type=tp, points_to_evaluate=_copy_p2e(raw), random_seed=lib_seed, search_options=so)
                    ad = _MultiFidAd(sched, E, max_t=9)
                    if searcher == "grid":
                        _run_sequence(ctx, sc, space, ad, raw, promise=True, steps=min(size, 60) + len(raw or [1]) + 4 if size is not None else 30, rng=rng, none_judged=False)
                    else:
                        to_the_end = size is not None and ((searcher == "random" and size <= 40) or size <= 8)
                        steps = (size + len(raw or [1]) + 3) if to_the_end else steps_inf + len(raw or [1]) + 2  # 2 = num_init_random + (len(raw or [1]) + 2 if steps_plus_initial else 0)
                        _run_sequence(ctx, sc, space, ad, raw, promise=True, steps=steps, rng=rng, none_judged=to_the_end or size is None)


_BO_OPTS = {"num_init_random": 2, "num_init_candidates": 24, "opt_nstarts": 1, "opt_maxiter": 4, "debug_log": False}


def _fam_bo_fifo(ctx, E, spaces, rng, lib_seed, steps_inf, n_p2e):
    for space in spaces:
        size = space.size()
        for label, raw in _p2e_variants(space, rng, n_p2e):
            try:
                _ref_initial(raw, space)
            except _Ambiguous:
                continue
            so = dict(_BO_OPTS)
            sc = _scen("fifo[bayesopt]", space, label, raw, {"search_options": so}, lib_seed)
            sched = E.FIFO(space.build(), searcher="bayesopt", metric="loss", mode="min", points_to_evaluate=_copy_p2e(raw), random_seed=lib_seed, search_options=so)
            ad = _FifoAd(sched, E)
            # run to exhaustion only in tiny spaces with uniform sampling probabilities: the random candidate generators
            # of the BO code give up after a bounded number of rejected draws as well (same family as F6)
            to_the_end = size is not None and size <= 8
            steps = (size + len(raw or [1]) + 3) if to_the_end else steps_inf + len(raw or [1]) + 2  # 2 = num_init_random
            _run_sequence(ctx, sc, space, ad, raw, promise=True, steps=steps, rng=rng, fates=(0.6, 0.15, 0.25), none_judged=to_the_end or size is None)


def _fam_dehb(ctx, E, spaces, rng, lib_seed, steps, n_p2e):
    def run(space, label, raw, hist_label, fates, clause, forced=()):
        sc = _scen("dehb[random_encoded]", space, label, raw, {"max_resource_level": 9, "grace_period": 1, "reduction_factor": 3, "history": hist_label}, lib_seed)
        sched = E.DEHB(space.build(), searcher="random_encoded", search_options={"debug_log": False}, mode="min", metric="loss", max_resource_level=9, grace_period=1, reduction_factor=3, resource_attr="epoch", random_seed=lib_seed, points_to_evaluate=_copy_p2e(raw))
        ad = _MultiFidAd(sched, E, max_t=9, can_pend=False)
        _run_sequence(ctx, sc, space, ad, raw, promise=True, steps=steps, rng=rng, fates=fates, approx_given=True, crash_clause=clause, forced_fail=forced)

    for space in spaces:
        # two known discrepancies of the unchanged tree have their own clause for "suggest raised":
        #  (1) the imputed default of a nearest-neighbour ordinal with integer categories is a numpy scalar, which DEHB's
        #      encoder rejects  -> spaces with such a hyperparameter (run without failures)
        #  (2) after ALL trials of a rung failed, _mutation picks the trial id None  -> every history with failed trials
        nn_int = any(r.fam == "cat" and r.ordkind in ("nn", "nn-log") and len(r.cats) > 1 and isinstance(r.cats[0], int) for r in space.refs.values())
        for label, raw in _p2e_variants(space, rng, n_p2e):
            try:
                _ref_initial(raw, space)
            except _Ambiguous:
                continue
            run(space, label, raw, "all trials finish", (1.0, 0.0, 0.0), C_CRASH_DEHB if nn_int else C_CRASH)
            if not nn_int:
                run(space, label, raw, "15% of the trials fail", (0.85, 0.15, 0.0), C_CRASH_DEHB_FAIL)
    # (2) deterministically: rungs 9/3/1 at levels 1/3/9 -> bracket 0 starts trials 0..8, bracket 1 trials 9, 10, 11
    space = [s for s in spaces if s.name == "bo-mixed"][0]
    run(space, "empty-list", [], "trials 9, 10, 11 (a whole rung) fail", (1.0, 0.0, 0.0), C_CRASH_DEHB_FAIL, forced=(9, 10, 11))


def _fam_dehb_finite(ctx, E, spaces, rng, lib_seeds, n_p2e):
    """DEHB's own sampler on small finite spaces, run into the nearly used-up regime: when all 50 retries (25 DE offspring +
    25 uniform draws) hit suggested configurations the scheduler gives up (None: the F6-like give-up, NOT judged here);
    a new trial with an earlier configuration is a repeat and is judged.  The give-up reports its slot as failed, so a
    crash here is the known discrepancy (D3) and goes to that clause."""
    for space in spaces:
        size = space.size()
        for label, raw in _p2e_variants(space, rng, n_p2e):
            try:
                _ref_initial(raw, space)
            except _Ambiguous:
                continue
            for ls in lib_seeds:
                sc = _scen("dehb[random_encoded,finite]", space, label, raw, {"max_resource_level": 9, "grace_period": 1, "reduction_factor": 3, "history": "all trials finish"}, ls)
                sched = E.DEHB(space.build(), searcher="random_encoded", search_options={"debug_log": False}, mode="min", metric="loss", max_resource_level=9, grace_period=1, reduction_factor=3, resource_attr="epoch", random_seed=ls, points_to_evaluate=_copy_p2e(raw))
                ad = _MultiFidAd(sched, E, max_t=9, can_pend=False)
                _run_sequence(ctx, sc, space, ad, raw, promise=True, steps=size + 25, rng=rng, fates=(1.0, 0.0, 0.0), approx_given=True, none_judged=False, max_nones=10, crash_clause=C_CRASH_DEHB_FAIL, metric_fn=_smooth_metric(space, +1))


def _smooth_metric(space, direction):
    """loss to minimise: log-scaled floats are pulled to their upper (direction=+1) / lower (-1) bound, the rest to an
    interior point"""

    def f(cfg):
        tot = 0.0
        for k in space.hp:
            r = space.refs[k]
            v = cfg.get(k)
            if not _is_num(v):
                continue
            if r.fam == "float" and (r.log or r.rev) and r.lo < r.hi:
                g = (lambda x: -math.log(1.0 - x)) if r.rev else math.log
                tot += -direction * (g(min(max(float(v), r.lo), r.hi)) - g(r.lo)) / (g(r.hi) - g(r.lo))
            elif r.fam in ("float", "int") and r.lo < r.hi:
                tot += ((float(v) - r.lo) / (r.hi - r.lo) - 0.3) ** 2
            else:
                tot += 0.01 * float(v)
        return tot

    return f


# log / reverse-log scaled float domains whose bounds do not survive exp(log(.)) (0.1, 0.01, 1e-3, 1e-4, 1e-5, 5.0, 1000):
# a searcher that decodes an encoded vector sitting on the boundary of the cube must still answer a member of the domain
_LOGBOUND_SPACES = [
    ("logb-lr-wd", {"lr": ("loguniform", 1e-4, 0.1), "wd": ("uniform", 0.0, 1.0), "epochs": ("const", 9)}),
    ("logb-two-logs", {"a": ("loguniform", 5.0, 1000.0), "b": ("loguniform", 1e-6, 1e-3)}),
    ("logb-mixed", {"lr": ("loguniform", 1e-5, 0.01), "mom": ("reverseloguniform", 0.9, 0.999), "n": ("randint", 0, 3), "act": ("choice", ("relu", "tanh"))}),
    ("logb-single", {"lr": ("loguniform", 1e-3, 0.1)}),
]


def _fam_logbounds(ctx, E, rng, lib_seed, quick):
    bo_steps = 8 if quick else 12
    for si, (name, specs) in enumerate(_LOGBOUND_SPACES):
        space = _Space(name, specs, E)
        hi, lo = _full(space, rng, "high"), _full(space, rng, "low")
        first = space.hp[0]
        variants = [("on-upper-bounds", [hi]), ("on-lower-bounds", [lo]), ("upper-lower-one-on-bound", [hi, lo, {first: hi[first]}])]
        # DEHB encodes and decodes the initial points
        for label, raw in variants:
            sc = _scen("dehb[random_encoded]", space, label, raw, {"max_resource_level": 9, "grace_period": 1, "reduction_factor": 3, "history": "all trials finish"}, lib_seed)
            sched = E.DEHB(space.build(), searcher="random_encoded", search_options={"debug_log": False}, mode="min", metric="loss", max_resource_level=9, grace_period=1, reduction_factor=3, resource_attr="epoch", random_seed=lib_seed, points_to_evaluate=_copy_p2e(raw))
            ad = _MultiFidAd(sched, E, max_t=9, can_pend=False)
            _run_sequence(ctx, sc, space, ad, raw, promise=True, steps=25, rng=rng, fates=(1.0, 0.0, 0.0), approx_given=True, metric_fn=_smooth_metric(space, +1))
        # GP-BO: the objective improves towards a bound, the local optimiser (default L-BFGS-B settings) ends on the cube boundary
        for direction, dlabel in ((+1, "optimum on the upper bounds"), (-1, "optimum on the lower bounds")):
            label, raw = variants[(si + (0 if direction > 0 else 1)) % 3] if not quick else variants[2]
            # opt_* only bound the fitting of the GP hyperparameters; the L-BFGS-B run on the acquisition function is the default one
            so = {"num_init_random": 3, "debug_log": False, "opt_nstarts": 1, "opt_maxiter": 8, "num_init_candidates": 60}
            sc = _scen("fifo[bayesopt]", space, label, raw, {"search_options": so, "objective": dlabel}, lib_seed)
            sched = E.FIFO(space.build(), searcher="bayesopt", metric="loss", mode="min", points_to_evaluate=_copy_p2e(raw), random_seed=lib_seed, search_options=dict(so))
            ad = _FifoAd(sched, E)
            _run_sequence(ctx, sc, space, ad, raw, promise=True, steps=len(raw) + 3 + bo_steps, rng=rng, fates=(1.0, 0.0, 0.0), metric_fn=_smooth_metric(space, direction))
            if quick and (si != 0 or direction < 0):
                continue
            for searcher in ("bayesopt",) if quick else ("bayesopt", "hypertune"):
                so = {"num_init_random": 3, "debug_log": False, "opt_nstarts": 1, "opt_maxiter": 5, "num_init_candidates": 40}
                sc = _scen("hyperband[%s,promotion]" % searcher, space, label, raw, {"type": "promotion", "max_t": 9, "grace_period": 1, "reduction_factor": 3, "search_options": so, "objective": dlabel}, lib_seed)
                sched = E.Hyperband(space.build(), searcher=searcher, metric="loss", mode="min", resource_attr="epoch", max_t=9, grace_period=1, reduction_factor=3, type="promotion", points_to_evaluate=_copy_p2e(raw), random_seed=lib_seed, search_options=dict(so))
                ad = _MultiFidAd(sched, E, max_t=9)
                _run_sequence(ctx, sc, space, ad, raw, promise=True, steps=len(raw) + 3 + bo_steps, rng=rng, fates=(1.0, 0.0, 0.0), metric_fn=_smooth_metric(space, direction))


# ---- PBT ------------------------------------------------------------------------------------------------------
_PBT_SPACES = [
    ("pbt-negatives", {"x": ("uniform", -1.0, 1.0), "shift": ("uniform", -3.0, -0.5), "n": ("randint", -10, -2), "num_layers": ("const", 7)}),
    ("pbt-mixed-sign-int", {"m": ("randint", -5, 5), "k": ("randint", 0, 3), "lr": ("loguniform", 1e-3, 1.0), "act": ("choice", ("relu", "tanh"))}),
    ("pbt-finite-ranges", {"f": ("finrange", -1.0, 1.0, 5, False), "g": ("finrange", 0.1, 0.5, 5, False), "h": ("logfinrange", 1, 64, 4, True), "o": ("ordinal", (1, 2, 4, 8), "nn")}),
    ("pbt-positive", {"lr": ("loguniform", 1e-4, 1e-1), "wd": ("uniform", 0.0, 0.3), "bs": ("lograndint", 8, 128), "q": ("quniform", 0.0, 1.0, 0.25), "c": ("const", "sgd")}),
    ("pbt-narrow", {"a": ("uniform", -0.1, -0.09), "b": ("randint", -3, -3), "c": ("randint", -1, 0), "d": ("qrandint", 1, 10, 4), "e": ("ordinal", ("s", "m", "l"), "equal")}),
    ("pbt-wide-negative", {"a": ("uniform", -100.0, -1.0), "b": ("randint", -1000, -7), "c": ("uniform", -2.0, 5.0), "k": ("const", 0.5)}),
]


def _pbt_tops(space, rng):
    tops = [("low", _full(space, rng, "low")), ("high", _full(space, rng, "high"))]
    near_lo, near_hi = {}, {}
    for k in space.hp:
        r = space.refs[k]
        if r.fam == "float":
            near_lo[k] = r.lo + 0.05 * (r.hi - r.lo)
            near_hi[k] = r.hi - 0.05 * (r.hi - r.lo)
        elif r.fam == "int":
            near_lo[k] = min(r.lo + 1, r.hi)
            near_hi[k] = max(r.hi - 1, r.lo)
        else:
            near_lo[k] = _valid_value(r, rng, "low")
            near_hi[k] = _valid_value(r, rng, "high")
    tops += [("near-low", near_lo), ("near-high", near_hi), ("random", _full(space, rng))]
    return tops


def _fam_pbt(ctx, E, rng, lib_seed, rounds, tier):
    import datetime

    resample = (0.0, 0.25, 1.0) if tier == "quick" else (0.0, 0.25, 0.5, 1.0)
    for name, specs in _PBT_SPACES:
        space = _Space(name, specs, E)
        for top_label, top in _pbt_tops(space, rng):
            for rp in resample:
                for policy, pop, mode in (("star", 2, "min"), ("chain", 2, "max"), ("random", 4, "min")):
                    raw = [top] if policy != "random" else [top, {}]
                    try:
                        _ref_initial(raw, space)
                    except _Ambiguous:
                        raw = [top]
                    opts = {"policy": policy, "population_size": pop, "mode": mode, "resample_probability": rp, "perturbation_interval": 1, "quantile_fraction": 0.25 if pop == 4 else 0.5, "top": top_label}
                    sc = _scen("pbt", space, "top=" + top_label, raw, opts, lib_seed)
                    ctx.scenario(sc)
                    rng_s = _scenario_rng(ctx.seed, sc)
                    expected, _ = _ref_initial(raw, space)
                    pbt = E.PBT(space.build(), metric="loss", resource_attr="step", population_size=pop, mode=mode, max_t=100000, perturbation_interval=1, resample_probability=rp, quantile_fraction=opts["quantile_fraction"], random_seed=lib_seed, points_to_evaluate=_copy_p2e(raw), search_options={"debug_log": False})
                    sign = 1.0 if mode == "min" else -1.0
                    active = []  # [trial, step]
                    next_id = 0
                    n_new = 0
                    crashed = False
                    for it in range(rounds):
                        if crashed:
                            break
                        while len(active) < pop:
                            try:
                                sg = pbt.suggest(next_id)
                            except Exception as exc:
                                ctx.check(C_CRASH, False, scenario=sc, step=next_id, raised=repr(exc)[:300], at=_last_frames(exc))
                                crashed = True
                                break
                            ctx.check(C_CRASH, True)
                            if sg is None:
                                ctx.check(C_NONE, False, scenario=sc, step=next_id, note="PBT answered 'nothing left' in an infinite space")
                                crashed = True
                                break
                            cfg = sg.config
                            explored = sg.checkpoint_trial_id is not None
                            ctx.suggestions += 1
                            if explored:
                                _check_valid(ctx, sc, space, cfg, next_id, "scheduler", dom_clause=C_PBT_DOM, type_clause=C_PBT_TYPE)
                            else:
                                _check_valid(ctx, sc, space, cfg, next_id, "scheduler")
                                if n_new < len(expected) and all(k in cfg for k in space.hp):
                                    _check_initial(ctx, sc, space, cfg, n_new, expected, False)
                                n_new += 1
                            t = E.Trial(trial_id=next_id, config=cfg, creation_time=datetime.datetime(2024, 1, 1))
                            pbt.on_trial_add(t)
                            active.append([t, 0])
                            next_id += 1
                        if crashed:
                            break
                        # one report per active trial; the designated winner reports first
                        if policy == "star":
                            order = sorted(active, key=lambda a: a[0].trial_id)
                        elif policy == "chain":
                            order = sorted(active, key=lambda a: -a[0].trial_id)
                        else:
                            order = list(active)
                            rng_s.shuffle(order)
                        for pos, a in enumerate(order):
                            a[1] += 1
                            if policy == "random":
                                loss = float(np.round(rng_s.uniform(-1, 1), 3))
                            else:
                                loss = sign * (-2.0 * (it + 1) if pos == 0 else float(it + 1 + pos))
                            d = pbt.on_trial_result(a[0], {"loss": loss, "step": a[1]})
                            if d == E.Decision.STOP:
                                active.remove(a)
                                pbt.on_trial_remove(a[0])
                                break


# --------------------------------------------------------------------------------------------------------------
def monitor_suggestions(tier="quick", seed=0):
    E = _env()
    quick = tier == "quick"
    rng = np.random.RandomState(seed)  # catalogue generation only; histories use one generator per scenario
    lib_seed = int(seed) * 7919 + 13
    ctx = _Ctx()
    ctx.seed = int(seed)
    B = {  # the bounds of this run
        "random_spaces": 12 if quick else 40,
        "p2e_variants": 6 if quick else 10,
        "max_finite_size": 40,
        "max_grid": 250,
        "bo_model_steps": 7 if quick else 10,
        "bo_p2e": 4 if quick else 6,
        "hb_steps": 14,
        "dehb_steps": 45 if quick else 90,
        "pbt_rounds": 20 if quick else 40,
    }

    enum_spaces = [_Space(n, s, E) for n, s in _enumerated_finite_spaces()]
    n_rnd = B["random_spaces"]
    rnd_finite = [_Space(*_random_space(rng, i, finite=True, max_size=B["max_finite_size"]), E) for i in range(n_rnd)]
    rnd_mixed = [_Space(*_random_space(rng, i, finite=False, with_infinite=int(rng.randint(1, 3))), E) for i in range(n_rnd)]
    inf_singles = [_Space("inf1-%d" % i, {"x": s, "c": ("const", 32)}, E) for i, s in enumerate(_INFINITE_POOL)]
    colliding = [_Space("coll-%d" % i, {"h": s}, E) for i, s in enumerate(_COLLIDING_POOL)] + [_Space("coll-cat", {"a": ("logfinrange", 1, 16, 8, True), "b": ("choice", ("x", "y"))}, E)]

    n_p2e = B["p2e_variants"]
    # random search: searcher level and through FIFOScheduler
    finite_for_random = [s for s in enum_spaces + rnd_finite if s.size() is not None and s.size() <= B["max_finite_size"]]
    _fam_random(ctx, E, finite_for_random, rng, n_p2e, lib_seed, via_scheduler=False)
    _fam_random(ctx, E, finite_for_random[:: (2 if quick else 1)] + rnd_mixed + inf_singles, rng, n_p2e, lib_seed + 1, via_scheduler=True)
    _fam_random(ctx, E, rnd_mixed[: (4 if quick else 16)], rng, n_p2e, lib_seed + 2, via_scheduler=False)
    # grid search
    grid_spaces = enum_spaces + rnd_finite
    _fam_grid(ctx, E, grid_spaces, rng, n_p2e, lib_seed, via_scheduler=False, max_grid=B["max_grid"])
    _fam_grid(ctx, E, grid_spaces[:: (3 if quick else 1)] + rnd_mixed[: (4 if quick else 14)] + inf_singles[:: (3 if quick else 1)], rng, 4 if quick else 8, lib_seed + 3, via_scheduler=True, max_grid=B["max_grid"])
    _fam_grid(ctx, E, colliding, rng, 3, lib_seed, via_scheduler=False, colliding=True)
    # asynchronous Hyperband wrappers with random / grid searchers
    hb_spaces = [s for s in enum_spaces if s.name in ("logint-cat-const", "int-cat", "singles-and-one", "negint-fin-const")] + rnd_mixed[: (3 if quick else 10)] + rnd_finite[: (2 if quick else 8)]
    _fam_hyperband(ctx, E, hb_spaces, rng, lib_seed + 4, ("random", "grid"), ("stopping", "promotion"), steps_inf=B["hb_steps"], n_p2e=4 if quick else 7)
    # model based: GP-BO (FIFO), GP multi-fidelity and HyperTune (Hyperband), DEHB
    tiny = [_Space("bo-tiny", {"a": ("randint", 0, 2), "b": ("choice", ("x", "y")), "k": ("const", 32)}, E)]
    tiny2 = [_Space("bo-tiny2", {"o": ("ordinal", ("s", "m", "l"), "equal"), "n": ("randint", -1, 0)}, E)]
    bo_mixed = [
        _Space("bo-mixed", {"x": ("uniform", -1.0, 1.0), "lr": ("loguniform", 1e-3, 1.0), "n": ("randint", -2, 3), "act": ("choice", ("relu", "tanh", "gelu")), "k": ("const", "adam")}, E),
        _Space("bo-ints", {"a": ("lograndint", 1, 5), "f": ("finrange", 0.0, 1.0, 3, False), "o": ("ordinal", (1, 2, 4, 8), "nn"), "c": ("const", 0.1)}, E),
    ]
    _fam_bo_fifo(ctx, E, tiny + bo_mixed + tiny2 + rnd_mixed[: (2 if quick else 8)], rng, lib_seed + 5, steps_inf=B["bo_model_steps"], n_p2e=B["bo_p2e"])
    mf_opts = {"num_init_random": 2, "num_init_candidates": 16, "opt_nstarts": 1, "opt_maxiter": 3}
    _fam_hyperband(ctx, E, tiny + bo_mixed[: (1 if quick else 2)] + ([] if quick else rnd_mixed[:3]), rng, lib_seed + 6, ("bayesopt", "hypertune"), ("promotion", "stopping"), steps_inf=B["bo_model_steps"], n_p2e=2 if quick else 4, search_options=mf_opts, steps_plus_initial=True)
    dehb_nn = [_Space("dehb-nn-int", {"width": ("ordinal", (1, 10, 100), "nn-log"), "x": ("uniform", 0.0, 1.0)}, E)]
    dehb_spaces = dehb_nn + [s for s in bo_mixed[:1] + rnd_mixed[: (6 if quick else 20)] + inf_singles[:: (3 if quick else 1)] if s.surely_infinite()]
    _fam_dehb(ctx, E, dehb_spaces, rng, lib_seed + 8, steps=B["dehb_steps"], n_p2e=3 if quick else 6)
    # DEHB on small finite spaces (nearly used-up regime); log-scaled floats with initial points / optima on the bounds
    dehb_fin = [_Space("dehb-5x5", {"a": ("randint", 0, 4), "b": ("randint", 0, 4), "k": ("const", 9)}, E), _Space("dehb-logint-fin", {"a": ("lograndint", 1, 5), "f": ("finrange", -1.0, 1.0, 5, False)}, E), _Space("dehb-int-cat", {"n": ("randint", -2, 2), "act": ("choice", ("relu", "tanh", "gelu")), "c": ("const", "x")}, E)]
    dehb_fin += [s for s in rnd_finite if s.size() is not None and 12 <= s.size() <= 40 and not any(r.fam == "cat" and r.ordkind in ("nn", "nn-log") and len(r.cats) > 1 and isinstance(r.cats[0], int) for r in s.refs.values())][: (2 if quick else 8)]
    _fam_dehb_finite(ctx, E, dehb_fin, rng, [lib_seed + 20 + i for i in range(4 if quick else 8)], n_p2e=2 if quick else 4)
    _fam_logbounds(ctx, E, rng, lib_seed + 10, quick)
    # PBT
    _fam_pbt(ctx, E, rng, lib_seed + 9, rounds=B["pbt_rounds"], tier=tier)

    unexercised = [c for c in CLAUSES if ctx.n[c] == 0]
    if unexercised:
        raise RuntimeError("clauses without a single check: %r" % unexercised)
    summary = (
        "%d scenarios / %d suggestions (%s). Bounds: %d enumerated + %d random finite spaces (<= 3 hyperparameters, <= 2 constants, <= %d configurations, run until 'nothing left' "
        "answered twice) and %d random mixed spaces (+1-2 infinite / quantised domains), 13 one-dimensional infinite spaces; grids <= %d points; up to %d points_to_evaluate variants "
        "per space (None, [], [{}], full, partial, repeated, bounds, spelled-out mid-points, with constant key); every trial finished / failed / left pending at random, older pending ones resolved later; "
        "BO: %d model-based steps after the initial points, run to the end only in spaces <= 8 configurations; Hyperband max_t=9 rungs 1,3,9; DEHB %d suggestions per scenario in infinite spaces, "
        "|space| + 25 steps / up to 10 give-ups in 3 enumerated + some random finite spaces (12..40 configurations, repeats judged, give-up not judged); 4 spaces with log-scaled floats whose bounds "
        "do not survive exp(log(.)): initial points exactly on the bounds (DEHB, GP-BO, GP multi-fidelity) and objectives with the optimum on the bounds (default L-BFGS-B settings); "
        "PBT: 6 spaces x 5 top configurations x %d resample probabilities x 3 policies (star / chain / random), %d rounds; %d 'None after >= 100 rejected draws' answers not judged (known F6)"
        % (
            ctx.scenarios,
            ctx.suggestions,
            ", ".join("%s: %d" % kv for kv in sorted(ctx.fam_count.items())),
            len(enum_spaces),
            n_rnd,
            B["max_finite_size"],
            n_rnd,
            B["max_grid"],
            n_p2e,
            B["bo_model_steps"],
            B["dehb_steps"],
            3 if quick else 4,
            B["pbt_rounds"],
            ctx.excluded_f6,
        )
    )
    return {"evaluations": int(sum(ctx.n.values())), "distinct": int(ctx.scenarios), "clauses": list(CLAUSES), "violations": ctx.viol, "samples": ctx.samples[:4], "summary": summary}
