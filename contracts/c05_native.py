"""C05 + C15 (native monitor) -- synchronous Hyperband / DEHB fill rungs exactly and promote exactly the top trials;
minimising f with mode='min' and maximising -f with mode='max' are the same experiment.

``monitor_sync(tier, seed)`` drives the REAL classes

    get_top_list, SynchronousHyperbandBracket, SynchronousHyperbandBracketManager,
    SynchronousHyperbandScheduler, SynchronousGeometricHyperbandScheduler,
    DifferentialEvolutionHyperbandBracketManager (incl. top_of_previous_rung), DifferentialEvolutionHyperbandScheduler,
    PASHARungSystem (soft ranking), HyperbandScheduler (stopping / promotion / pasha / rush_*),
    FIFOScheduler + RegularizedEvolution object (mode given to the searcher / only to the scheduler), MedianStoppingRule,
    PopulationBasedTraining, FIFOScheduler (random / grid / bayesopt in its model-free initial phase),
    TuningStatus + print_best_metric_found + Tuner.best_config      (the last four lines: C15 twin runs only)

through a bounded catalogue (enumerated small cases + seed dependent random ones) and checks every step against an
independent reference model written here (class ``_Ref``).  The reference only knows the PROPERTY STATEMENT:

  * the k-th bracket that is opened uses rung system k mod n (sizes and levels as configured),
  * a rung has exactly its configured number of slots, each handed out once, to distinct trials,
  * a job of rung r > 0 exists only after all slots of rung r - 1 of that bracket have reported or failed,
  * the trials resumed to rung r are a TOP-k SET of rung r - 1 (k = size of rung r): no trial outside the set is
    strictly better than one inside, failed trials are worse than all trials that reported and are not ordered among
    themselves.  Ties are therefore free, the order in which the promoted trials are resumed is free, and if fewer
    than k trials reported the remainder may be any failed ones (the latitude the code documents),
  * a request for work is always answered; it opens a new bracket if (and, in the reading used by clause
    ``no-new-bracket-while-an-open-bracket-has-a-free-slot``, only if) no open bracket has a free slot.  This second
    direction is what makes "the slot of a failed job does not stay pending" and "a completed rung really offers the
    next rung" observable from outside.

C15: every scenario is run twice, (mode='min', f) and (mode='max', -f), with identical seeds and the identical event
schedule; the complete observable traces (jobs, suggestions incl. configurations, decisions, return values) must be
equal.  Negation is exact in floating point, all values are pairwise distinct ("general position").  For the
asynchronous HyperbandScheduler types a divergence is NOT reported if, at the diverging event, a promotion / stopping
threshold was within round-off of the metric value it was compared with (the premise of C15); scenarios with ties are
only used for the C05 clauses, never for the symmetric comparison.

DEHB: the main DEHB catalogue uses as many brackets per iteration as there are rungs and lets a job fail only if its
rung keeps at least as many survivors as the next rung has slots and three jobs have already succeeded.  Outside this
regime the pinned tree does not serve every request for work.  Each of these discrepancies has its own clause, and a
violation is filed under it ONLY if state (decided from the reference at the moment of the request) AND failure
signature (exception type, function that raised, bracket position) are exactly those of the pinned tree:
  * ``dehb-suggest-returns-work-when-rung-below-has-too-few-survivors``: FIRST bracket, job of rung r > 0 whose rung
    r - 1 has fewer survivors than rung r has slots; suggest RETURNS None (the Tuner then stops the experiment),
  * ``dehb-suggest-does-not-raise-when-rung-below-has-too-few-survivors``: same state in a LATER bracket; suggest
    raises KeyError(None) in ``_de_mutation`` (failed slot of the top list, trial_id None, chosen as DE parent),
  * ``dehb-suggest-is-served-when-jobs-failed-before-three-succeeded``: later bracket, fewer than three jobs succeeded
    and at least one failed; AssertionError "Cannot compose parent pool ..." in ``_mutation``,
  * ``dehb-suggest-is-served-when-fewer-brackets-than-rungs-are-configured``: num_brackets_per_iteration < number of
    rungs, later bracket; IndexError in ``trial_id_from_parent_slot`` or an endless loop there (a SIGALRM watchdog of
    5 s ends the call).
Any other failure is ordinary: an exception in the first bracket in the too-few-survivors state goes to
``dehb-first-bracket-suggest-does-not-raise-when-rung-below-has-too-few-survivors`` (the pinned tree answers None there
and carries on), everything else (other exception type, other function, other position, None elsewhere) to
``request-for-work-is-served-without-blocking``.

Bounded stand-in, never counted as proved.
"""
import sys

sys.modules.setdefault("yahpo_gym", None)

import itertools  # noqa: E402
import logging  # noqa: E402
import signal  # noqa: E402

import numpy as np  # noqa: E402

# ---------------------------------------------------------------------------------------------------------------
# clause names
# ---------------------------------------------------------------------------------------------------------------
CL_TOPLIST = "get-top-list-returns-a-top-set-failed-last"
CL_SERVED = "request-for-work-is-served-without-blocking"
CL_NEWBR = "new-bracket-opened-when-all-open-brackets-wait"
CL_ONLYIF = "no-new-bracket-while-an-open-bracket-has-a-free-slot"
CL_CYCLE = "kth-bracket-uses-rung-system-k-mod-n"
CL_SIZE = "rung-has-configured-size-and-level-each-slot-once"
CL_DISTINCT = "rung-filled-by-distinct-trials"
CL_AFTER = "resume-only-after-whole-rung-below-reported-or-failed"
CL_BEST = "resumed-trials-are-best-of-completed-rung-failed-last"
CL_COUNT = "resumed-set-is-complete-top-set-of-next-rung-size"
CL_ACCEPT = "result-or-failure-of-pending-job-accepted-in-any-order"
CL_BRK_OFFERS = "single-bracket-offers-every-slot-of-current-rung-and-none-else"
CL_SUGG = "suggestion-starts-new-trial-at-base-rung-resumes-promoted-trial-at-job-level"
CL_DECISION = "trial-continues-below-rung-level-and-ends-run-at-rung-level"
CL_PAUSED = "resumed-trial-was-paused-and-is-not-running"
CL_DEHB_TOP = "dehb-top-of-previous-rung-is-top-set-of-completed-rung"
CL_DEHB_NONE = "dehb-suggest-returns-work-when-rung-below-has-too-few-survivors"
CL_DEHB_RAISE = "dehb-suggest-does-not-raise-when-rung-below-has-too-few-survivors"
CL_DEHB_HEAVY = "dehb-suggest-is-served-when-jobs-failed-before-three-succeeded"
CL_DEHB_FEWBR = "dehb-suggest-is-served-when-fewer-brackets-than-rungs-are-configured"
CL_DEHB_FIRST = "dehb-first-bracket-suggest-does-not-raise-when-rung-below-has-too-few-survivors"
CL_SYM_TOP = "min-max-symmetry-get-top-list"
CL_SYM_BRK = "min-max-symmetry-sync-bracket-and-manager"
CL_SYM_SCHED = "min-max-symmetry-sync-hyperband-scheduler"
CL_SYM_DEHB_MGR = "min-max-symmetry-dehb-bracket-manager"
CL_SYM_DEHB = "min-max-symmetry-dehb-scheduler"
CL_SYM_SOFT = "min-max-symmetry-pasha-soft-ranking"
CL_SYM_REA = "min-max-symmetry-regularized-evolution-suggestions"
CL_SYM_MEDIAN = "min-max-symmetry-median-stopping-rule"
CL_SYM_PBT = "min-max-symmetry-population-based-training"
CL_SYM_BEST = "min-max-symmetry-best-trial-report"
CL_SYM_FIFO = "min-max-symmetry-fifo-random-grid-bayesopt-random-phase"
ASYNC_TYPES = ("stopping", "promotion", "pasha", "rush_stopping", "rush_promotion")


def CL_SYM_ASYNC(t):
    return "min-max-symmetry-async-hyperband-" + t.replace("_", "-")


CLAUSES = [
    CL_TOPLIST,
    CL_SERVED,
    CL_NEWBR,
    CL_ONLYIF,
    CL_CYCLE,
    CL_SIZE,
    CL_DISTINCT,
    CL_AFTER,
    CL_BEST,
    CL_COUNT,
    CL_ACCEPT,
    CL_BRK_OFFERS,
    CL_SUGG,
    CL_DECISION,
    CL_PAUSED,
    CL_DEHB_TOP,
    CL_DEHB_NONE,
    CL_DEHB_RAISE,
    CL_DEHB_HEAVY,
    CL_DEHB_FEWBR,
    CL_DEHB_FIRST,
    CL_SYM_TOP,
    CL_SYM_BRK,
    CL_SYM_SCHED,
    CL_SYM_DEHB_MGR,
    CL_SYM_DEHB,
    CL_SYM_SOFT,
    CL_SYM_REA,
    CL_SYM_MEDIAN,
    CL_SYM_PBT,
    CL_SYM_BEST,
    CL_SYM_FIFO,
] + [CL_SYM_ASYNC(t) for t in ASYNC_TYPES]

METRIC = "obj"
RESOURCE = "epoch"
MAXATTR = "epochs"
MAX_VIOL = 5


class _Abort(Exception):
    """the scenario cannot be continued (the driver and the implementation disagree about the state)"""


class _Hang(BaseException):
    """raised by the watchdog timer inside a library call that does not return"""


def _watchdog_available():
    try:
        old = signal.signal(signal.SIGALRM, signal.SIG_DFL)
        signal.signal(signal.SIGALRM, old)
        return True
    except (ValueError, AttributeError):
        return False


def _call_with_watchdog(fn, seconds=5.0):
    """a request for work that never returns must not hang the monitor (SIGALRM, main thread only)"""

    def handler(signum, frame):
        raise _Hang("no answer within %.0f s" % seconds)

    try:
        old = signal.signal(signal.SIGALRM, handler)
    except (ValueError, AttributeError):
        return fn()
    signal.setitimer(signal.ITIMER_REAL, seconds)
    try:
        return fn()
    finally:
        signal.setitimer(signal.ITIMER_REAL, 0.0)
        signal.signal(signal.SIGALRM, old)


def _exc_signature(exc):
    """(type name, name of the innermost function that raised) -- for _Hang: the function that was interrupted"""
    if exc is None:
        return None
    names = []
    tb = exc.__traceback__
    while tb is not None:
        names.append(tb.tb_frame.f_code.co_name)
        tb = tb.tb_next
    if isinstance(exc, _Hang):
        names = [n for n in names if n != "handler"]
        if "trial_id_from_parent_slot" in names:  # the endless loop may be interrupted inside a callee
            names = names[: names.index("trial_id_from_parent_slot") + 1]
    return (type(exc).__name__, names[-1] if names else None)


class _Mon:
    def __init__(self):
        self.counts = {c: 0 for c in CLAUSES}
        self.viol = []
        self.nviol = {}
        self.samples = []
        self.distinct = 0
        self.stats = {}

    def check(self, clause, ok, ctx=None, **details):
        self.counts[clause] += 1
        if not ok:
            self.nviol[clause] = self.nviol.get(clause, 0) + 1
            if self.nviol[clause] <= MAX_VIOL:
                d = {"clause": clause}
                if ctx is not None:
                    d["scenario"] = _jsonable(ctx)
                d.update(_jsonable(details))
                self.viol.append(d)
        return ok

    def stat(self, key, inc=1):
        self.stats[key] = self.stats.get(key, 0) + inc

    def sample(self, d):
        if len(self.samples) < 4:
            self.samples.append(_jsonable(d))


def _jsonable(x):
    if isinstance(x, dict):
        return {str(k): _jsonable(v) for k, v in x.items()}
    if isinstance(x, (list, tuple, set, frozenset)):
        return [_jsonable(v) for v in (sorted(x, key=repr) if isinstance(x, (set, frozenset)) else x)]
    if isinstance(x, np.generic):
        return _jsonable(x.item())
    if isinstance(x, float):
        return x if x == x and abs(x) != float("inf") else repr(x)
    if x is None or isinstance(x, (int, str, bool)):
        return x
    return repr(x)[:200]


# ---------------------------------------------------------------------------------------------------------------
# the reference: ranking with failed trials last, top-k sets
# ---------------------------------------------------------------------------------------------------------------
def _rank_key(val, mode):
    """smaller key = better; ``val is None`` = failed (worse than every value, failed ones tied)"""
    if val is None:
        return (1, 0.0)
    return (0, val if mode == "min" else -val)


def _top_bounds(entries, k, mode):
    """entries: [(trial, value or None)].  Every top-k set S satisfies must <= S <= must | may, |S| = min(k, n)."""
    keys = sorted(_rank_key(v, mode) for _, v in entries)
    if k >= len(entries):
        return {t for t, _ in entries}, set()
    if k <= 0:
        return set(), set()
    thr = keys[k - 1]
    must = {t for t, v in entries if _rank_key(v, mode) < thr}
    may = {t for t, v in entries if _rank_key(v, mode) == thr}
    return must, may


def _partial_top_ok(part, entries, k, mode):
    """can the distinct trials ``part`` be extended to a top-k set of ``entries``?"""
    if len(set(part)) != len(part):
        return False
    must, may = _top_bounds(entries, k, mode)
    sp = set(part)
    if not sp <= (must | may):
        return False
    return len(sp & may) <= min(k, len(entries)) - len(must)


def _full_top_ok(full, entries, k, mode):
    must, may = _top_bounds(entries, k, mode)
    return len(full) == min(k, len(entries)) and _partial_top_ok(full, entries, k, mode) and must <= set(full)


class _Ref:
    """Reference state of all brackets, driven only by the jobs handed out and the outcomes delivered."""

    def __init__(self, systems, mode):
        self.systems = [[(int(s), int(l)) for s, l in sysk] for sysk in systems]
        self.mode = mode
        self.br = []

    def cur(self, b):
        B = self.br[b]
        for r, (size, _) in enumerate(B["sys"]):
            if len(B["out"][r]) < size:
                return r
        return None

    def free(self, b):
        r = self.cur(b)
        if r is None:
            return 0
        return self.br[b]["sys"][r][0] - len(self.br[b]["issued"][r])

    def total_free(self):
        return sum(self.free(b) for b in range(len(self.br)))

    def complete(self, b):
        return self.cur(b) is None

    def prev_level(self, b, r):
        return 0 if r == 0 else self.br[b]["sys"][r - 1][1]

    def survivors(self, b, r):
        return sum(1 for _, v in self.br[b]["out"][r].values() if v is not None)

    def few_survivors(self, b, r):
        """job of rung r > 0 of bracket b: did fewer trials of the rung below report than rung r has slots?"""
        if not (0 <= b < len(self.br)) or r <= 0 or r >= len(self.br[b]["sys"]):
            return False
        return self.survivors(b, r - 1) < self.br[b]["sys"][r][0]

    def describe(self, b):
        if not (0 <= b < len(self.br)):
            return None
        B = self.br[b]
        return {"system": B["sys"], "issued": [dict(d) for d in B["issued"]], "outcomes": [dict(d) for d in B["out"]]}

    def job(self, M, ctx, step, bid, r, level, sidx, tid, manager=True, best_clause=CL_BEST, check_best=True):
        """checks the clauses for one job handed out (details of a violation are only built when a check fails)"""
        nb = len(self.br)
        cnt = M.counts

        def where():
            return {"step": step, "job": {"bracket": bid, "rung_index": r, "level": level, "slot_index": sidx, "trial": tid}}

        if not isinstance(bid, (int, np.integer)) or not (0 <= bid <= nb):
            M.check(CL_CYCLE, False, ctx, reason="bracket id is neither an open bracket nor the next new one", brackets_so_far=nb, **where())
            raise _Abort
        is_new = bid == nb
        if manager:
            free = self.total_free()
            if free == 0:
                cnt[CL_NEWBR] += 1
                if not is_new:
                    M.check(CL_NEWBR, False, ctx, reason="every open bracket waits for results, but no new bracket was opened", **where())
                    cnt[CL_NEWBR] -= 1
                    raise _Abort
            else:
                cnt[CL_ONLYIF] += 1
                if is_new:
                    cnt[CL_ONLYIF] -= 1
                    M.check(CL_ONLYIF, False, ctx, reason="a new bracket was opened although open brackets have free slots", free_slots={b: self.free(b) for b in range(nb) if self.free(b)}, brackets={b: self.describe(b) for b in range(nb) if self.free(b)}, **where())
        elif is_new and nb > 0:
            M.check(CL_BRK_OFFERS, False, ctx, reason="single bracket driver saw a second bracket", **where())
            raise _Abort
        if is_new:
            sysk = self.systems[nb % len(self.systems)]
            self.br.append({"sys": sysk, "issued": [dict() for _ in sysk], "out": [dict() for _ in sysk]})
            if not M.check(CL_CYCLE, r == 0 and level == sysk[0][1], ctx, reason="bracket number %d must start at the base rung of rung system %d" % (nb, nb % len(self.systems)), expected_system=sysk, **where()):
                raise _Abort
        B = self.br[bid]
        sysk = B["sys"]
        cur = self.cur(bid)
        if cur is None or not (0 <= r < len(sysk)) or r < cur:
            M.check(CL_SIZE, False, ctx, reason="job for a rung that already has all its results (or for a complete bracket)", bracket=self.describe(bid), **where())
            raise _Abort
        if r > 0:
            cnt[CL_AFTER] += 1
            if r != cur:
                cnt[CL_AFTER] -= 1
                M.check(CL_AFTER, False, ctx, reason="job of rung %d although rung %d has %d of %d outcomes" % (r, cur, len(B["out"][cur]), sysk[cur][0]), bracket=self.describe(bid), **where())
                raise _Abort
        elif r > cur:
            raise _Abort
        size, lev = sysk[r]
        issued = B["issued"][r]
        cnt[CL_SIZE] += 1
        if not (level == lev and isinstance(sidx, (int, np.integer)) and 0 <= sidx < size and sidx not in issued):
            cnt[CL_SIZE] -= 1
            M.check(CL_SIZE, False, ctx, reason="slot outside the configured rung (size %d, level %d) or handed out twice" % (size, lev), bracket=self.describe(bid), **where())
            raise _Abort
        if tid is not None:
            others = [t for t in issued.values() if t is not None]
            cnt[CL_DISTINCT] += 1
            if tid in others:
                cnt[CL_DISTINCT] -= 1
                M.check(CL_DISTINCT, False, ctx, reason="trial appears twice in the same rung", bracket=self.describe(bid), **where())
            if r > 0 and check_best:
                entries = list(B["out"][r - 1].values())
                cnt[best_clause] += 1
                if not _partial_top_ok(others + [tid], entries, size, self.mode):
                    cnt[best_clause] -= 1
                    M.check(best_clause, False, ctx, reason="trial is not among the best %d of the completed rung below (failed rank last)" % size, rung_below=entries, resumed_so_far=others, mode=self.mode, **where())
        issued[sidx] = tid
        if r > 0 and check_best and len(issued) == size and all(t is not None for t in issued.values()):
            entries = list(B["out"][r - 1].values())
            full = list(issued.values())
            cnt[CL_COUNT] += 1
            if not _full_top_ok(full, entries, size, self.mode):
                cnt[CL_COUNT] -= 1
                M.check(CL_COUNT, False, ctx, reason="the trials resumed are not a complete top-%d set of the rung below" % size, rung_below=entries, resumed=full, mode=self.mode, **where())

    def outcome(self, bid, r, sidx, tid, val):
        self.br[bid]["out"][r][sidx] = (tid, val)


# ---------------------------------------------------------------------------------------------------------------
# library access
# ---------------------------------------------------------------------------------------------------------------
_LIB = None


def _lib():
    global _LIB
    if _LIB is None:
        from syne_tune.backend.trial_status import Trial
        from syne_tune.config_space import uniform
        from syne_tune.optimizer.schedulers.hyperband import HyperbandScheduler
        from syne_tune.optimizer.schedulers.hyperband_pasha import PASHARungSystem
        from syne_tune.optimizer.schedulers.hyperband_stopping import Rung
        from syne_tune.optimizer.schedulers.synchronous.dehb import DifferentialEvolutionHyperbandScheduler
        from syne_tune.optimizer.schedulers.synchronous.dehb_bracket_manager import DifferentialEvolutionHyperbandBracketManager
        from syne_tune.optimizer.schedulers.synchronous.hyperband import SynchronousHyperbandScheduler
        from syne_tune.optimizer.schedulers.synchronous.hyperband_bracket import SynchronousHyperbandBracket, get_top_list
        from syne_tune.optimizer.schedulers.synchronous.hyperband_bracket_manager import SynchronousHyperbandBracketManager
        from syne_tune.optimizer.schedulers.synchronous.hyperband_impl import SynchronousGeometricHyperbandScheduler
        from syne_tune.optimizer.schedulers.synchronous.hyperband_rung_system import SynchronousHyperbandRungSystem

        _LIB = dict(locals())
    return _LIB


def _geometric(min_r, max_r, rf, nb=None):
    return [[(int(s), int(l)) for s, l in sysk] for sysk in _lib()["SynchronousHyperbandRungSystem"].geometric(min_r, max_r, rf, nb)]


def _dehb_systems(first, nb=None):
    nb = len(first) if nb is None else nb
    return [list(first[o:]) for o in range(nb)]


# ---------------------------------------------------------------------------------------------------------------
# part 1: get_top_list directly
# ---------------------------------------------------------------------------------------------------------------
def _part_top_list(M, tier, rs):
    get_top_list = _lib()["get_top_list"]
    nmax = 5 if tier == "quick" else 6
    nscen = 0
    for n in range(1, nmax + 1):
        perms = list(itertools.permutations(range(n)))
        if n == 6:
            perms = [perms[i] for i in rs.choice(len(perms), 150, replace=False)]
        for perm in perms:
            for fmask in range(1 << n):
                nscen += 1
                for tie in (False, True) if (n <= 4 and fmask == 0) or n == 3 else (False,):
                    # value of slot i: rank perm[i] (halved for the tie variant: pairs of equal values)
                    vals = [None if (fmask >> i) & 1 else (float(perm[i] // 2) if tie else 0.125 * perm[i] - 0.25) for i in range(n)]
                    ids = [10 + 3 * i for i in range(n)]
                    for new_len in range(1, n + 1):
                        res = {}
                        for mode, sign in (("min", 1.0), ("max", -1.0)):
                            rung = [(ids[i], float("nan") if vals[i] is None else sign * vals[i]) for i in range(n)]
                            ctx = {"part": "get_top_list", "rung": [(t, "nan" if v != v else v) for t, v in rung], "new_len": new_len, "mode": mode}
                            try:
                                top, rem = get_top_list(rung=list(rung), new_len=new_len, mode=mode)
                            except Exception as e:
                                M.check(CL_TOPLIST, False, ctx, raised=repr(e)[:200])
                                continue
                            entries = [(ids[i], None if vals[i] is None else sign * vals[i]) for i in range(n)]
                            ok = _full_top_ok(list(top), entries, new_len, mode)
                            M.check(CL_TOPLIST, ok, ctx, returned_top=list(top), reason="returned list is not a top-%d set (failed rank last)" % new_len)
                            res[mode] = (list(top), list(rem))
                        if not tie and len(res) == 2:
                            M.check(CL_SYM_TOP, res["min"] == res["max"], {"part": "get_top_list", "values(min run)": vals, "ids": ids, "new_len": new_len}, min_run=res["min"], max_run_on_negated=res["max"])
    # random larger rungs
    for _ in range(60 if tier == "quick" else 400):
        n = int(rs.randint(5, 14))
        nscen += 1
        base = rs.permutation(64)[:n] / 64.0
        fails = rs.rand(n) < rs.choice([0.0, 0.2, 0.6, 0.95])
        ids = [int(x) for x in rs.permutation(40)[:n]]
        new_len = int(rs.randint(1, n + 1))
        res = {}
        for mode, sign in (("min", 1.0), ("max", -1.0)):
            rung = [(ids[i], float("nan") if fails[i] else sign * float(base[i])) for i in range(n)]
            entries = [(ids[i], None if fails[i] else sign * float(base[i])) for i in range(n)]
            ctx = {"part": "get_top_list", "rung": [(t, "nan" if v != v else v) for t, v in rung], "new_len": new_len, "mode": mode}
            try:
                top, rem = get_top_list(rung=list(rung), new_len=new_len, mode=mode)
            except Exception as e:
                M.check(CL_TOPLIST, False, ctx, raised=repr(e)[:200])
                continue
            M.check(CL_TOPLIST, _full_top_ok(list(top), entries, new_len, mode), ctx, returned_top=list(top))
            res[mode] = (list(top), list(rem))
        if len(res) == 2:
            M.check(CL_SYM_TOP, res["min"] == res["max"], {"part": "get_top_list", "values(min run)": [None if fails[i] else float(base[i]) for i in range(n)], "ids": ids, "new_len": new_len}, min_run=res["min"], max_run_on_negated=res["max"])
    M.distinct += nscen
    M.stat("top_list_scenarios", nscen)


# ---------------------------------------------------------------------------------------------------------------
# part 2: bracket / bracket manager level driver
# ---------------------------------------------------------------------------------------------------------------
class _BracketAsManager:
    """a single SynchronousHyperbandBracket behind the next_job / on_result interface (next_job may answer None)"""

    def __init__(self, bracket):
        self.b = bracket

    def next_job(self):
        s = self.b.next_free_slot()
        return None if s is None else (0, s)

    def on_result(self, res):
        return self.b.on_result(res[1])


def _run_manager(M, ctx, make, systems, mode, sign, W, choices, fails, values, kind):
    """kind: 'manager' | 'bracket' | 'dehb'.  choices[i]: which of the pending jobs (in issue order, modulo their
    number) returns at step i; fails: set of job numbers (issue order) which fail; values[j]: metric of job j"""
    mgr = make(mode)
    ref = _Ref(systems, mode)
    pending = []
    trace = []
    njobs = 0
    next_tid = 0
    nan = float("nan")
    try:
        for step, ch in enumerate(choices):
            while len(pending) < W:
                try:
                    got = mgr.next_job()
                except Exception as e:
                    M.check(CL_SERVED, False, ctx, step=step, raised=repr(e)[:300], mode=mode)
                    trace.append(("raise", type(e).__name__))
                    raise _Abort
                if got is None:
                    if kind == "bracket":
                        M.check(CL_BRK_OFFERS, ref.total_free() == 0 and len(ref.br) > 0, ctx, step=step, mode=mode, reason="bracket offers no slot although the reference has free slots", bracket=ref.describe(0))
                        trace.append(("none",))
                        break
                    M.check(CL_SERVED, False, ctx, step=step, mode=mode, reason="next_job returned None")
                    raise _Abort
                if kind == "bracket":
                    M.counts[CL_BRK_OFFERS] += 1
                    if not (len(ref.br) == 0 or ref.total_free() > 0):
                        M.counts[CL_BRK_OFFERS] -= 1
                        M.check(CL_BRK_OFFERS, False, ctx, step=step, mode=mode, reason="bracket offers a slot although the reference has none free")
                else:
                    M.counts[CL_SERVED] += 1
                bid, slot = got
                r, level, sidx, stid = slot.rung_index, slot.level, slot.slot_index, slot.trial_id
                if kind == "dehb" or r == 0:
                    tid = next_tid  # a new trial
                    next_tid += 1
                    ref.job(M, ctx, step, bid, r, level, sidx, tid, manager=(kind != "bracket"), check_best=False)
                else:
                    tid = stid
                    if tid is None:
                        M.check(CL_BEST, False, ctx, step=step, mode=mode, reason="job above the base rung names no trial to resume", job=(bid, r, sidx))
                        raise _Abort
                    ref.job(M, ctx, step, bid, r, level, sidx, tid, manager=(kind != "bracket"))
                if kind == "dehb" and r > 0:
                    size = ref.br[bid]["sys"][r][0]
                    entries = list(ref.br[bid]["out"][r - 1].values())
                    try:
                        tops = [mgr.top_of_previous_rung(bid, pos) for pos in range(size)]
                    except Exception as e:
                        M.check(CL_DEHB_TOP, False, ctx, step=step, mode=mode, raised=repr(e)[:300], bracket=bid, rung_index=r)
                        raise _Abort
                    M.counts[CL_DEHB_TOP] += 1
                    if not _full_top_ok(tops, entries, size, mode):
                        M.counts[CL_DEHB_TOP] -= 1
                        M.check(CL_DEHB_TOP, False, ctx, step=step, mode=mode, bracket=bid, rung_index=r, returned=tops, rung_below=entries, reason="top_of_previous_rung(pos < %d) is not a top set of the rung just completed" % size)
                    trace.append(("top", bid, r, tuple(tops)))
                trace.append(("job", bid, r, level, sidx, stid))
                pending.append((njobs, bid, slot, tid))
                njobs += 1
            if not pending:
                break  # single bracket complete
            j, bid, slot, tid = pending.pop(ch % len(pending))
            failed = j in fails
            val = None if failed else sign * values[j % len(values)]
            slot.trial_id = tid
            slot.metric_val = nan if failed else val
            try:
                ret = mgr.on_result((bid, slot))
            except Exception as e:
                M.check(CL_ACCEPT, False, ctx, step=step, mode=mode, raised=repr(e)[:300], job_number=j, bracket=bid, rung_index=slot.rung_index, slot_index=slot.slot_index)
                trace.append(("raise", type(e).__name__))
                raise _Abort
            M.counts[CL_ACCEPT] += 1
            ref.outcome(bid, slot.rung_index, slot.slot_index, tid, val)
            trace.append(("res", j, None if ret is None else tuple(ret)))
        if kind == "bracket" and not pending and len(ref.br) == 1:
            M.check(CL_BRK_OFFERS, ref.complete(0) == bool(mgr.b.is_bracket_complete()), ctx, mode=mode, reason="bracket stopped offering slots although it is not complete (or vice versa)", bracket=ref.describe(0))
    except _Abort:
        trace.append(("abort",))
    return trace, njobs


def _sym_compare(M, clause, ctx, ta, tb):
    if ta == tb:
        M.check(clause, True)
        return
    k = next((i for i, (a, b) in enumerate(zip(ta, tb)) if a != b), min(len(ta), len(tb)))
    M.check(clause, False, ctx, first_difference_at_event=k, min_on_f=ta[k] if k < len(ta) else None, max_on_minus_f=tb[k] if k < len(tb) else None, reason="mode=min on f and mode=max on -f take different decisions")


def _pair_manager(M, ctx, make, systems, W, choices, fails, values, kind, ties=False):
    ta, na = _run_manager(M, dict(ctx, mode="min"), make, systems, "min", 1.0, W, choices, fails, values, kind)
    tb, nb = _run_manager(M, dict(ctx, mode="max"), make, systems, "max", -1.0, W, choices, fails, values, kind)
    if not ties:
        _sym_compare(M, CL_SYM_DEHB_MGR if kind == "dehb" else CL_SYM_BRK, ctx, ta, tb)
    M.distinct += 1
    return na


_VALCACHE = {}


def _values(seed, n=64, ties=False):
    """table number ``seed`` (mod 211) of n pairwise distinct dyadic values (exact under negation); ties: floored"""
    key = (int(seed) % 211, n, ties)
    if key not in _VALCACHE:
        v = (np.random.RandomState(key[0]).permutation(4 * n)[:n] - 2 * n) / 256.0
        if ties:
            v = np.floor(v)
        _VALCACHE[key] = [float(x) for x in v]
    return _VALCACHE[key]


def _part_bracket_and_manager(M, tier, rs):
    L = _lib()
    quick = tier == "quick"

    def mk_manager(systems):
        return lambda mode: L["SynchronousHyperbandBracketManager"]([list(s) for s in systems], mode)

    def mk_bracket(rungs):
        return lambda mode: _BracketAsManager(L["SynchronousHyperbandBracket"](list(rungs), mode))

    def mk_dehb(first, nb):
        return lambda mode: L["DifferentialEvolutionHyperbandBracketManager"](rungs_first_bracket=list(first), mode=mode, num_brackets_per_iteration=nb)

    # --- single brackets: every return order for W workers, every failure subset (job numbers), values by rotation
    brackets = [[(2, 1), (1, 2)], [(3, 1), (1, 3)], [(3, 1), (2, 2), (1, 4)], [(4, 2), (2, 4)]]
    if not quick:
        brackets += [[(4, 1), (3, 2), (1, 3)], [(1, 5)]]
    nrot = 0
    for rungs in brackets:
        J = sum(s for s, _ in rungs)
        for W in (1, 2, 3):
            budget = 1000 if quick else 20000
            seqs = list(itertools.product(range(W), repeat=J)) if W ** J <= (100 if quick else 2500) else [tuple(int(x) for x in rs.randint(0, W, size=J)) for _ in range(60 if quick else 600)]
            for choices in seqs:
                masks = range(1 << J) if (1 << J) * len(seqs) <= budget else [int(x) for x in rs.randint(0, 1 << J, size=max(2, budget // len(seqs)))]
                for fmask in masks:
                    fails = {j for j in range(J) if (fmask >> j) & 1}
                    nrot += 1
                    ctx = {"part": "single bracket", "rungs": rungs, "workers": W, "return_order_choices": list(choices), "failing_jobs": sorted(fails), "value_seed": nrot % 997}
                    _pair_manager(M, ctx, mk_bracket(rungs), [rungs], W, choices, fails, _values(nrot % 997, 16), "bracket")
    M.sample({"part": "single bracket", "rungs": brackets[2], "workers": "1..3", "note": "return orders x failure subsets (complete for small products, else sampled), values by rotation"})

    # --- bracket manager, enumerated: per step (which pending job returns) x (fails or reports)
    enum = [
        ([[(2, 1), (1, 2)], [(1, 2)]], 2, 5 if quick else 7),
        ([[(3, 1), (1, 3)]], 2, 5 if quick else 7),
        ([[(3, 1), (2, 2), (1, 4)], [(2, 2), (1, 4)], [(1, 4)]], 3, 4 if quick else 5),
        ([[(2, 1), (1, 3)], [(2, 3)]], 3, 3 if quick else 5),
    ]
    nrot = 0
    for systems, W, T in enum:
        for combo in itertools.product(range(2 * W), repeat=T):
            choices = [c // 2 for c in combo]
            failsteps = [c % 2 == 1 for c in combo]
            # translate "the job returning at step i fails" into job numbers by a dry run of the pending list
            fails = _fail_jobs_from_steps(W, choices, failsteps)
            nrot += 1
            ctx = {"part": "bracket manager (enumerated)", "bracket_rungs": systems, "workers": W, "return_order_choices": choices, "failing_jobs": sorted(fails), "value_seed": 1000 + nrot % 499}
            _pair_manager(M, ctx, mk_manager(systems), systems, W, choices, fails, _values(1000 + nrot % 499, 32), "manager")
    M.sample({"part": "bracket manager (enumerated)", "bracket_rungs": enum[0][0], "workers": enum[0][1], "steps": enum[0][2], "note": "every (return choice, fail/report) sequence"})

    # --- bracket manager, random: geometric and custom systems
    big = [
        _geometric(1, 4, 2),
        _geometric(1, 9, 3),
        _geometric(1, 8, 2),
        _geometric(1, 9, 3, 2),
        _geometric(2, 16, 2, 1),
        [[(7, 1), (5, 2), (2, 3), (1, 7)], [(6, 2), (3, 3), (2, 7)], [(4, 3), (1, 7)]],
        [[(5, 2), (4, 3)], [(4, 3)]],
        [[(2, 1), (1, 2)], [(2, 2)]],
    ]
    if not quick:
        big += [_geometric(1, 27, 3), _geometric(1, 16, 2, 3), _geometric(3, 30, 2.5)]
    nrand = 6 if quick else 30
    for si, systems in enumerate(big):
        for k in range(nrand):
            W = int(rs.choice([1, 2, 3, 4, 6, 9]))
            T = int(rs.randint(20, 70 if quick else 160))
            pfail = float(rs.choice([0.0, 0.1, 0.3, 0.6, 0.9]))
            choices = [int(x) for x in rs.randint(0, 1000, size=T)]
            fails = {int(j) for j in np.nonzero(rs.rand(T + W + 2) < pfail)[0]}
            vseed = int(rs.randint(0, 10 ** 6))
            ties = k % 5 == 4
            ctx = {"part": "bracket manager (random)", "bracket_rungs": systems, "workers": W, "return_order_choices": choices, "failing_jobs": sorted(fails), "value_seed": vseed, "ties": ties}
            _pair_manager(M, ctx, mk_manager(systems), systems, W, choices, fails, _values(vseed, 256, ties), "manager", ties=ties)
    M.sample({"part": "bracket manager (random)", "bracket_rungs": big[1], "workers": "1..9", "steps": "20..70/160", "failure_probability": [0.0, 0.1, 0.3, 0.6, 0.9]})

    # --- DEHB bracket manager (top_of_previous_rung), enumerated + random; rung systems with >= 3 rungs
    denum = [([(3, 1), (2, 2), (1, 4)], None, 2, 5 if quick else 7), ([(2, 1), (1, 2)], None, 2, 4 if quick else 6), ([(4, 1), (2, 2), (1, 3)], 2, 3, 3 if quick else 5)]
    nrot = 0
    for first, nb, W, T in denum:
        systems = _dehb_systems(first, nb)
        for combo in itertools.product(range(2 * W), repeat=T):
            choices = [c // 2 for c in combo]
            fails = _fail_jobs_from_steps(W, choices, [c % 2 == 1 for c in combo])
            nrot += 1
            ctx = {"part": "DEHB bracket manager (enumerated)", "rungs_first_bracket": first, "num_brackets": nb, "workers": W, "return_order_choices": choices, "failing_jobs": sorted(fails), "value_seed": 2000 + nrot % 499}
            _pair_manager(M, ctx, mk_dehb(first, nb), systems, W, choices, fails, _values(2000 + nrot % 499, 32), "dehb")
    dbig = [([(9, 1), (5, 2), (3, 4), (1, 8)], None), ([(4, 1), (2, 3), (1, 9)], None), ([(9, 1), (3, 3), (1, 9)], 2), ([(6, 1), (4, 2), (3, 3), (2, 4), (1, 5)], 3), ([(5, 2), (2, 4), (1, 8)], 1)]
    for first, nb in dbig:
        systems = _dehb_systems(first, nb)
        for k in range(8 if quick else 40):
            W = int(rs.choice([1, 2, 4, 7]))
            T = int(rs.randint(30, 90 if quick else 200))
            pfail = float(rs.choice([0.0, 0.1, 0.3, 0.7]))
            choices = [int(x) for x in rs.randint(0, 1000, size=T)]
            fails = {int(j) for j in np.nonzero(rs.rand(T + W + 2) < pfail)[0]}
            vseed = int(rs.randint(0, 10 ** 6))
            ties = k % 5 == 4
            ctx = {"part": "DEHB bracket manager (random)", "rungs_first_bracket": first, "num_brackets": nb, "workers": W, "return_order_choices": choices, "failing_jobs": sorted(fails), "value_seed": vseed, "ties": ties}
            _pair_manager(M, ctx, mk_dehb(first, nb), systems, W, choices, fails, _values(vseed, 256, ties), "dehb", ties=ties)
    M.sample({"part": "DEHB bracket manager (random)", "rungs_first_bracket": dbig[0][0], "workers": "1..7", "checked": "top_of_previous_rung for every position whenever a job above the base rung is handed out"})


def _fail_jobs_from_steps(W, choices, failsteps):
    """job numbers (issue order) of the jobs returning at the steps flagged in ``failsteps`` (W jobs always pending)"""
    pending = list(range(W))
    nxt = W
    fails = set()
    for ch, f in zip(choices, failsteps):
        j = pending.pop(ch % len(pending))
        if f:
            fails.add(j)
        pending.append(nxt)
        nxt += 1
    return fails


# ---------------------------------------------------------------------------------------------------------------
# part 3: scheduler level driver (a miniature Tuner) for SynchronousHyperbandScheduler and DEHB
# ---------------------------------------------------------------------------------------------------------------
def _cfg_key(config):
    return tuple(sorted((k, v) for k, v in config.items() if k != MAXATTR))


def _run_scheduler(M, ctx, make, systems, mode, sign, W, choices, fails, values, dehb=False, pause_resume=True, use_maxattr=True, constrain=False, fewbr=False):
    Trial = _lib()["Trial"]
    sched = make(mode)
    mgr = sched.bracket_manager
    jobs = []
    orig_next_job = mgr.next_job

    def spy():
        bid, slot = orig_next_job()
        jobs.append((bid, slot.rung_index, slot.level, slot.slot_index, slot.trial_id))
        return bid, slot

    mgr.next_job = spy
    ref = _Ref(systems, mode)
    running = []  # [job number, tid, ident, bid, r, sidx, level, config]
    state = {}  # tid -> running | paused | stopped | failed
    configs = {}  # tid -> config given to the trial
    ident_of_cfg = {}  # DEHB without pause/resume: config -> identity (first trial that ran it)
    trace = []
    next_tid = 0
    njob = 0
    nsucc = 0
    stats = {"resumed": 0, "failed": 0, "brackets": 0}
    ctx = dict(ctx, mode=mode)
    try:
        for step, ch in enumerate(choices):
            guard = 0
            while len(running) < W:
                guard += 1
                if guard > 4 * W + 20:
                    M.check(CL_SERVED, False, ctx, step=step, reason="suggest keeps answering None")
                    raise _Abort
                before = len(jobs)
                raised = None
                sugg = None
                try:
                    sugg = _call_with_watchdog(lambda: sched.suggest(next_tid)) if fewbr else sched.suggest(next_tid)
                except Exception as e:
                    raised = e
                except _Hang as e:
                    raised = e
                    M.stat("hangs")
                if len(jobs) != before + 1:
                    M.check(CL_SERVED, False, ctx, step=step, reason="suggest did not request exactly one job from the bracket manager", raised=repr(raised)[:300], suggestion=repr(sugg)[:200])
                    trace.append(("raise" if raised is not None else "nojob",))
                    raise _Abort
                bid, r, level, sidx, stid = jobs[-1]
                few = dehb and ref.few_survivors(bid, r)
                det = dict(step=step, job={"bracket": bid, "rung_index": r, "level": level, "slot_index": sidx}, bracket=ref.describe(bid))
                bad = raised is not None or sugg is None
                sig = _exc_signature(raised)
                later = isinstance(bid, (int, np.integer)) and bid > 0
                # the four known-open clauses: one exact failure signature each, observed on the pinned tree
                known = None
                if dehb and not bad:
                    pass
                elif dehb and fewbr and later and sig in (("IndexError", "trial_id_from_parent_slot"), ("_Hang", "trial_id_from_parent_slot")):
                    known = CL_DEHB_FEWBR  # bracket_delta = num_brackets - rung_index <= 0
                elif dehb and not fewbr and few and not later and raised is None:
                    known = CL_DEHB_NONE  # first bracket: the slot is marked failed, suggest answers None
                elif dehb and not fewbr and few and later and sig == ("KeyError", "_de_mutation") and raised.args == (None,):
                    known = CL_DEHB_RAISE  # later bracket: failed slot (trial_id None) of the top list chosen as DE parent
                elif dehb and not fewbr and later and nsucc < 3 and stats["failed"] > 0 and sig == ("AssertionError", "_mutation") and "Cannot compose parent pool" in str(raised):
                    known = CL_DEHB_HEAVY
                # every request in the state of a known-open clause counts as a check of it
                if dehb and fewbr and later:
                    M.counts[CL_DEHB_FEWBR] += 1
                if dehb and not fewbr and few and not later:
                    M.counts[CL_DEHB_NONE] += 1
                    M.counts[CL_DEHB_FIRST] += 1
                if dehb and not fewbr and few and later:
                    M.counts[CL_DEHB_RAISE] += 1
                if dehb and not fewbr and later and nsucc < 3 and stats["failed"] > 0:
                    M.counts[CL_DEHB_HEAVY] += 1
                M.counts[CL_SERVED] += 1
                if bad:
                    if known is not None:
                        clause = known
                    elif dehb and not fewbr and few and not later and raised is not None:
                        clause = CL_DEHB_FIRST  # ordinary: the pinned tree answers None here, it never raises
                    else:
                        clause = CL_SERVED  # ordinary: any other exception type / position / None
                    M.counts[clause] -= 1
                    if clause != CL_SERVED:
                        M.counts[CL_SERVED] -= 1
                    M.check(clause, False, ctx, raised=repr(raised)[:300], raised_in=None if sig is None else sig[1], suggestion=repr(sugg)[:100], known_open_signature=known is not None, state={"few_survivors_in_rung_below": bool(few), "first_bracket": not later, "fewer_brackets_than_rungs": bool(fewbr), "succeeded_so_far": nsucc, "failed_so_far": stats["failed"]}, reason="suggest raised / hung / returned None", **det)
                if raised is not None:
                    trace.append(("raise", type(raised).__name__))
                    raise _Abort
                if sugg is None:
                    # the scheduler marked the slot as failed itself
                    ref.job(M, ctx, step, bid, r, level, sidx, None)
                    ref.outcome(bid, r, sidx, None, None)
                    trace.append(("none", bid, r, sidx))
                    njob += 1
                    continue
                config = dict(sugg.config) if sugg.config is not None else None
                if sugg.spawn_new_trial_id:
                    tid = next_tid
                    next_tid += 1
                else:
                    tid = sugg.checkpoint_trial_id
                promo = r > 0 and (not dehb or bid == 0)  # job that continues a trial of the rung below
                ok_sugg = True
                why = None
                if promo and (not dehb or pause_resume):
                    if sugg.spawn_new_trial_id or not isinstance(tid, (int, np.integer)):
                        ok_sugg, why = False, "job above the base rung must resume a paused trial"
                    elif not dehb and tid != stid:
                        ok_sugg, why = False, "resumed trial differs from the trial named in the job"
                else:
                    if not sugg.spawn_new_trial_id:
                        ok_sugg, why = False, "this job must start a new trial"
                if ok_sugg and config is not None and use_maxattr and config.get(MAXATTR) != level:
                    ok_sugg, why = False, "config[%s] differs from the rung level of the job" % MAXATTR
                if ok_sugg and sugg.spawn_new_trial_id and config is None:
                    ok_sugg, why = False, "new trial without a configuration"
                if not M.check(CL_SUGG, ok_sugg, ctx, reason=why, suggestion={"new": bool(sugg.spawn_new_trial_id), "trial": tid, "config": config}, **det):
                    raise _Abort
                if not sugg.spawn_new_trial_id:
                    if not M.check(CL_PAUSED, state.get(tid) == "paused" or (state.get(tid) == "failed" and not dehb and ref.few_survivors(bid, r)), ctx, trial=tid, trial_state=state.get(tid), reason="resumed trial is not paused (failed trials may be resumed only to fill a rung with too few survivors)", **det):
                        raise _Abort
                    stats["resumed"] += 1
                    if config is None:
                        config = configs[tid]
                # identity of the trial for the ranking in the first bracket
                ident = tid
                if dehb and promo and not pause_resume:
                    ident = ident_of_cfg.get(_cfg_key(config))
                    if ident is None:
                        M.check(CL_BEST, False, ctx, reason="configuration started above the base rung of the first DEHB bracket is not one of the rung below", config=config, **det)
                        raise _Abort
                elif dehb and bid == 0 and r == 0:
                    ident_of_cfg[_cfg_key(config)] = tid
                ref.job(M, ctx, step, bid, r, level, sidx, ident, check_best=promo)
                stats["brackets"] = len(ref.br)
                configs[tid] = config
                state[tid] = "running"
                trace.append(("sugg", bool(sugg.spawn_new_trial_id), tid, _cfg_key(config), config.get(MAXATTR), bid, r, sidx))
                running.append([njob, tid, ident, bid, r, sidx, level, config])
                njob += 1
                if sugg.spawn_new_trial_id:
                    sched.on_trial_add(Trial(tid, config, None))
            j, tid, ident, bid, r, sidx, level, config = running.pop(ch % len(running))
            trial = Trial(tid, config, None)
            prev = ref.prev_level(bid, r)
            fail = j in fails
            if fail and constrain:
                B = ref.br[bid]
                nfail_rung = sum(1 for _, v in B["out"][r].values() if v is None)
                nxt = B["sys"][r + 1][0] if r + 1 < len(B["sys"]) else 0
                if nsucc < 3 or nfail_rung >= B["sys"][r][0] - nxt:
                    fail = False
            nrep = (level - prev) if not fail else (j * 7 + 3) % (level - prev)  # a failing job reports a few epochs first
            val = None
            try:
                for e in range(prev + 1, prev + nrep + 1):
                    v = sign * (values[(ident * 8 + r) % len(values)] if e == level else 1000.0 + e)
                    dec = sched.on_trial_result(trial, {METRIC: v, RESOURCE: e})
                    if e < level:
                        okd = dec == "CONTINUE"
                    else:
                        okd = dec in ("PAUSE", "STOP") if dehb else dec == "PAUSE"
                        val = v
                    trace.append(("dec", tid, e, dec))
                    if not M.check(CL_DECISION, okd, ctx, step=step, trial=tid, epoch=e, rung_level=level, decision=dec):
                        raise _Abort
                    if e == level:
                        state[tid] = "paused" if dec == "PAUSE" else "stopped"
                        sched.on_trial_remove(trial)
                if fail:
                    sched.on_trial_error(trial)
                    state[tid] = "failed"
                    stats["failed"] += 1
                    trace.append(("err", tid))
                else:
                    nsucc += 1
            except _Abort:
                raise
            except Exception as e:
                M.check(CL_ACCEPT, False, ctx, step=step, trial=tid, fails=fail, raised=repr(e)[:300], job={"bracket": bid, "rung_index": r, "slot_index": sidx, "level": level})
                trace.append(("raise", type(e).__name__))
                raise _Abort
            M.check(CL_ACCEPT, True)
            ref.outcome(bid, r, sidx, ident, None if fail else val)
    except _Abort:
        trace.append(("abort",))
    return trace, stats


def _pair_scheduler(M, ctx, make, systems, W, choices, fails, values, sym_clause, ties=False, **kw):
    ta, sa = _run_scheduler(M, ctx, make, systems, "min", 1.0, W, choices, fails, values, **kw)
    if ("raise", "_Hang") in ta:
        M.stat("twin_run_skipped_after_hang")  # the twin would wait for the watchdog once more
        M.distinct += 1
        return sa
    tb, sb = _run_scheduler(M, ctx, make, systems, "max", -1.0, W, choices, fails, values, **kw)
    if not ties:
        _sym_compare(M, sym_clause, ctx, ta, tb)
    M.distinct += 1
    for k, v in sa.items():
        M.stat("sched_" + k, v)
    return sa


def _part_schedulers(M, tier, rs):
    L = _lib()
    quick = tier == "quick"
    uniform = L["uniform"]

    def mk_sync(systems, seed, use_maxattr=True, geo=None):
        def make(mode):
            maxlev = systems[0][-1][1]
            cs = {"x": uniform(0.0, 1.0), "y": uniform(0.0, 1.0)}
            kw = dict(metric=METRIC, mode=mode, resource_attr=RESOURCE, searcher="random", search_options={"debug_log": False}, random_seed=seed)
            if use_maxattr:
                cs[MAXATTR] = maxlev
                kw["max_resource_attr"] = MAXATTR
            else:
                kw["max_resource_level"] = maxlev
            if geo is None:
                return L["SynchronousHyperbandScheduler"](cs, bracket_rungs=[list(s) for s in systems], **kw)
            s = L["SynchronousGeometricHyperbandScheduler"](cs, grace_period=geo[0], reduction_factor=geo[2], **(dict(kw, brackets=geo[3]) if geo[3] is not None else kw))
            got = [[(int(a), int(b)) for a, b in sysk] for sysk in s.bracket_manager.bracket_rungs]
            M.check(CL_CYCLE, got == systems, {"part": "geometric scheduler", "geo": geo}, reason="scheduler does not use the geometric rung systems", got=got, expected=systems)
            return s

        return make

    def mk_dehb(first, nb, seed, pause_resume=True):
        def make(mode):
            cs = {"x": uniform(0.0, 1.0), "y": uniform(0.0, 1.0), "z": uniform(0.0, 1.0), MAXATTR: first[-1][1]}
            return L["DifferentialEvolutionHyperbandScheduler"](cs, rungs_first_bracket=list(first), num_brackets_per_iteration=nb, metric=METRIC, mode=mode, resource_attr=RESOURCE, max_resource_attr=MAXATTR, search_options={"debug_log": False}, random_seed=seed, support_pause_resume=pause_resume)

        return make

    # --- synchronous Hyperband scheduler, enumerated
    enum = [([[(2, 1), (1, 2)], [(1, 2)]], 2, 5 if quick else 6), ([[(3, 1), (2, 2), (1, 4)], [(2, 2), (1, 4)], [(1, 4)]], 2, 5 if quick else 6), ([[(3, 1), (1, 3)]], 3, 3 if quick else 4)]
    nrot = 0
    for systems, W, T in enum:
        for combo in itertools.product(range(2 * W), repeat=T):
            choices = [c // 2 for c in combo]
            fails = _fail_jobs_from_steps(W, choices, [c % 2 == 1 for c in combo])
            nrot += 1
            vseed = 3000 + nrot % 251
            ctx = {"part": "SynchronousHyperbandScheduler (enumerated)", "bracket_rungs": systems, "workers": W, "return_order_choices": choices, "failing_jobs": sorted(fails), "value_seed": vseed, "scheduler_seed": nrot % 7}
            _pair_scheduler(M, ctx, mk_sync(systems, nrot % 7, use_maxattr=(nrot % 4 != 3)), systems, W, choices, fails, _values(vseed, 4096), CL_SYM_SCHED, use_maxattr=(nrot % 4 != 3))
    M.sample({"part": "SynchronousHyperbandScheduler (enumerated)", "bracket_rungs": enum[1][0], "workers": enum[1][1], "steps": enum[1][2], "note": "every (which running job ends, report/fail) sequence, both modes"})

    # --- synchronous Hyperband scheduler, random (custom + geometric, incl. SynchronousGeometricHyperbandScheduler)
    cases = [
        (_geometric(1, 4, 2), (1, 4, 2, None)),
        (_geometric(1, 9, 3), (1, 9, 3, None)),
        (_geometric(1, 8, 2, 2), (1, 8, 2, 2)),
        (_geometric(1, 9, 3, 1), (1, 9, 3, 1)),
        ([[(6, 1), (3, 2), (1, 4)], [(4, 2), (2, 4)], [(3, 4)]], None),
        ([[(5, 2), (4, 3), (2, 5), (1, 6)], [(3, 3), (2, 5), (1, 6)]], None),
    ]
    if not quick:
        cases += [(_geometric(1, 27, 3), (1, 27, 3, None)), (_geometric(2, 16, 2), (2, 16, 2, None))]
    for systems, geo in cases:
        for k in range(5 if quick else 24):
            W = int(rs.choice([1, 2, 3, 5, 8]))
            T = int(rs.randint(15, 50 if quick else 120))
            pfail = float(rs.choice([0.0, 0.15, 0.4, 0.8]))
            choices = [int(x) for x in rs.randint(0, 1000, size=T)]
            fails = {int(j) for j in np.nonzero(rs.rand(T + W + 2) < pfail)[0]}
            vseed = int(rs.randint(0, 10 ** 6))
            sseed = int(rs.randint(0, 10 ** 4))
            ties = k % 5 == 4
            ctx = {"part": "SynchronousHyperbandScheduler (random)" if geo is None else "SynchronousGeometricHyperbandScheduler (random)", "bracket_rungs": systems, "geometric(grace,max,rf,brackets)": geo, "workers": W, "return_order_choices": choices, "failing_jobs": sorted(fails), "value_seed": vseed, "scheduler_seed": sseed, "ties": ties}
            _pair_scheduler(M, ctx, mk_sync(systems, sseed, geo=geo), systems, W, choices, fails, _values(vseed, 4096, ties), CL_SYM_SCHED, ties=ties)

    # --- DEHB scheduler: enumerated (failures constrained), random (constrained), arbitrary failures (own clauses)
    denum = [([(3, 1), (2, 2), (1, 4)], None, 2, 5 if quick else 6), ([(2, 1), (1, 3)], None, 3, 3 if quick else 4)]
    nrot = 0
    for first, nb, W, T in denum:
        systems = _dehb_systems(first, nb)
        for combo in itertools.product(range(2 * W), repeat=T):
            choices = [c // 2 for c in combo]
            fails = _fail_jobs_from_steps(W, choices, [c % 2 == 1 for c in combo])
            nrot += 1
            vseed = 4000 + nrot % 251
            pr = nrot % 3 != 2
            ctx = {"part": "DEHB scheduler (enumerated, failures keep enough survivors)", "rungs_first_bracket": first, "num_brackets": nb, "workers": W, "return_order_choices": choices, "failing_jobs(before constraint)": sorted(fails), "value_seed": vseed, "scheduler_seed": nrot % 5, "support_pause_resume": pr}
            _pair_scheduler(M, ctx, mk_dehb(first, nb, nrot % 5, pr), systems, W, choices, fails, _values(vseed, 4096), CL_SYM_DEHB, dehb=True, pause_resume=pr, constrain=True)
    dcases = [([(9, 1), (5, 2), (3, 4), (1, 8)], None), ([(4, 1), (2, 3), (1, 9)], None), ([(9, 1), (3, 3), (1, 9)], None), ([(6, 1), (4, 2), (3, 3), (2, 4), (1, 5)], None), ([(5, 2), (2, 6)], None)]
    for first, nb in dcases:
        systems = _dehb_systems(first, nb)
        for k in range(6 if quick else 30):
            W = int(rs.choice([1, 2, 4, 6]))
            T = int(rs.randint(25, 70 if quick else 150))
            pfail = float(rs.choice([0.0, 0.15, 0.4]))
            choices = [int(x) for x in rs.randint(0, 1000, size=T)]
            fails = {int(j) for j in np.nonzero(rs.rand(T + W + 2) < pfail)[0]}
            vseed = int(rs.randint(0, 10 ** 6))
            sseed = int(rs.randint(0, 10 ** 4))
            pr = k % 3 != 2
            ctx = {"part": "DEHB scheduler (random, failures keep enough survivors)", "rungs_first_bracket": first, "num_brackets": nb, "workers": W, "return_order_choices": choices, "failing_jobs(before constraint)": sorted(fails), "value_seed": vseed, "scheduler_seed": sseed, "support_pause_resume": pr}
            _pair_scheduler(M, ctx, mk_dehb(first, nb, sseed, pr), systems, W, choices, fails, _values(vseed, 4096), CL_SYM_DEHB, dehb=True, pause_resume=pr, constrain=True)
    M.sample({"part": "DEHB scheduler (random)", "rungs_first_bracket": dcases[0][0], "workers": "1..6", "support_pause_resume": "both", "note": "promotions in the first bracket checked against the rung just completed; min/max twin runs compare configurations"})
    # fewer brackets per iteration than rungs (allowed by the constructor; brackets=1 is "successive halving")
    fb = [([(8, 1), (4, 2), (2, 4), (1, 8)], 1), ([(8, 1), (4, 2), (2, 4), (1, 8)], 2), ([(9, 1), (3, 3), (1, 9)], 2), ([(4, 1), (2, 3), (1, 9)], 1), ([(6, 1), (4, 2), (3, 3), (2, 4), (1, 5)], 3)]
    wd = _watchdog_available()
    M.stat("watchdog_available", int(wd))
    for first, nb in fb:
        systems = _dehb_systems(first, nb)
        for k in range(3 if quick else 8):
            W = int(rs.choice([1, 2, 4]))
            T = int(rs.randint(40, 90))
            pfail = float(rs.choice([0.0, 0.2]))
            if not wd or M.stats.get("hangs", 0) >= 1:
                pfail = 0.0  # without a watchdog (or after a hang: each costs 5 s) only failure-free schedules
            choices = [int(x) for x in rs.randint(0, 1000, size=T)]
            fails = {int(j) for j in np.nonzero(rs.rand(T + W + 2) < pfail)[0]}
            vseed = int(rs.randint(0, 10 ** 6))
            sseed = int(rs.randint(0, 10 ** 4))
            ctx = {"part": "DEHB scheduler (fewer brackets than rungs, failures keep enough survivors)", "rungs_first_bracket": first, "num_brackets_per_iteration": nb, "workers": W, "return_order_choices": choices, "failing_jobs(before constraint)": sorted(fails), "value_seed": vseed, "scheduler_seed": sseed}
            _pair_scheduler(M, ctx, mk_dehb(first, nb, sseed, True), systems, W, choices, fails, _values(vseed, 4096), CL_SYM_DEHB, dehb=True, pause_resume=True, constrain=True, fewbr=True)
    # arbitrary failure subsets (a small fixed catalogue + random): judged by the dehb-... clauses
    hv = [([(3, 1), (2, 2), (1, 4)], None), ([(4, 1), (3, 2), (2, 4)], None), ([(2, 1), (1, 2)], None)]
    for first, nb in hv:
        systems = _dehb_systems(first, nb)
        for k in range(6 if quick else 20):
            W = int(rs.choice([1, 2, 3]))
            T = int(rs.randint(15, 40))
            pfail = float(rs.choice([0.5, 0.8]))
            choices = [int(x) for x in rs.randint(0, 1000, size=T)]
            fails = {int(j) for j in np.nonzero(rs.rand(T + W + 2) < pfail)[0]}
            if k < 3:  # fixed members: the first two jobs fail (one resp. three workers) / every job fails
                W, choices, fails = [1, 3, 1][k], [0] * 12, [{0, 1}, {0, 1}, set(range(40))][k]
            vseed = int(rs.randint(0, 10 ** 6))
            sseed = int(rs.randint(0, 10 ** 4))
            ctx = {"part": "DEHB scheduler (arbitrary failure subsets)", "rungs_first_bracket": first, "num_brackets": nb, "workers": W, "return_order_choices": choices, "failing_jobs": sorted(fails), "value_seed": vseed, "scheduler_seed": sseed}
            _pair_scheduler(M, ctx, mk_dehb(first, nb, sseed, True), systems, W, choices, fails, _values(vseed, 4096), CL_SYM_DEHB, dehb=True, pause_resume=True)


# ---------------------------------------------------------------------------------------------------------------
# part 4: PASHA soft ranking (direct) and asynchronous HyperbandScheduler twin runs
# ---------------------------------------------------------------------------------------------------------------
def _part_pasha_soft(M, tier, rs):
    PASHA = _lib()["PASHARungSystem"]
    quick = tier == "quick"

    def decide(mode, sign, prev_vals, top_order, top_vals, eps):
        """rankings as produced by PASHARungSystem._get_top_two_rungs_rankings: per rung a list of
        (trial_id, rank for increasing metric values, value) in the order of rung.data (best first)"""
        rsys = PASHA(rung_levels=[1, 2, 4], promote_quantiles=[0.5, 0.5, 0.5], metric=METRIC, mode=mode, resource_attr=RESOURCE, max_t=8)
        rsys.epsilon = eps
        out = []
        for vals in (top_vals, prev_vals):
            items = sorted(vals.items(), key=lambda kv: kv[1])  # best first for (min, f)
            n = len(items)
            if mode == "min":
                out.append([(str(t), i, sign * v) for i, (t, v) in enumerate(items)])
            else:
                out.append([(str(t), n - 1 - i, sign * v) for i, (t, v) in enumerate(items)])
        return bool(rsys._decide_resource_increase(out))

    nscen = 0
    seen = {True: 0, False: 0}
    gapsets = [1, 2, 3]
    for n in (2, 3, 4) if quick else (2, 3, 4, 5):
        for gaps in itertools.product(gapsets, repeat=n - 1):
            prev = {i: float(sum(gaps[:i])) / 4.0 for i in range(n)}  # trial i has rank i in the previous rung
            for perm in itertools.permutations(range(n)):
                if n == 5 and (sum(perm[i] * (i + 1) for i in range(n)) + sum(gaps)) % 4:
                    continue
                top = {perm[i]: float(i) + 0.5 for i in range(n)}  # trial perm[i] has rank i in the top rung
                for eps in (0.0, 0.3, 0.4, 0.55, 0.7, 1.3):  # never equal to a difference of two values (multiples of 1/4)
                    nscen += 1
                    ctx = {"part": "PASHA soft ranking", "previous_rung(min run)": prev, "top_rung(min run)": top, "epsilon": eps}
                    try:
                        a = decide("min", 1.0, prev, perm, top, eps)
                        b = decide("max", -1.0, prev, perm, top, eps)
                    except Exception as e:
                        M.check(CL_SYM_SOFT, False, ctx, raised=repr(e)[:300])
                        continue
                    seen[a] += 1
                    M.check(CL_SYM_SOFT, a == b, ctx, increase_resources_min_on_f=a, increase_resources_max_on_minus_f=b)
    for _ in range(100 if quick else 1500):
        n = int(rs.randint(3, 9))
        pv = np.sort(rs.permutation(200)[:n]) / 16.0
        prev = {i: float(pv[i]) for i in range(n)}
        perm = rs.permutation(n)
        tv = np.sort(rs.permutation(200)[:n]) / 16.0
        top = {int(perm[i]): float(tv[i]) for i in range(n)}
        eps = float(rs.choice([0.0, 0.53125, 1.03125, 2.53125, 5.03125]))  # values are multiples of 1/16: no difference equals epsilon
        nscen += 1
        ctx = {"part": "PASHA soft ranking", "previous_rung(min run)": prev, "top_rung(min run)": top, "epsilon": eps}
        try:
            a = decide("min", 1.0, prev, perm, top, eps)
            b = decide("max", -1.0, prev, perm, top, eps)
        except Exception as e:
            M.check(CL_SYM_SOFT, False, ctx, raised=repr(e)[:300])
            continue
        seen[a] += 1
        M.check(CL_SYM_SOFT, a == b, ctx, increase_resources_min_on_f=a, increase_resources_max_on_minus_f=b)
    if not (seen[True] and seen[False]):
        raise RuntimeError("PASHA soft ranking catalogue is one-sided: %r" % (seen,))
    M.distinct += nscen
    M.stat("pasha_soft_scenarios", nscen)
    M.stat("pasha_soft_increase", seen[True])


class _QuantileSpy:
    """records, for every threshold computed by Rung.quantile, the threshold and the metric values of the rung
    (with their was_promoted flag) -- only used to decide whether the premise of C15 holds at a diverging event"""

    def __init__(self):
        self.log = []

    def __enter__(self):
        Rung = _lib()["Rung"]
        self._orig = Rung.quantile
        log = self.log
        orig = self._orig

        def quantile(rung):
            c = orig(rung)
            if c is not None:
                log.append((c, [(e.metric_val, getattr(e, "was_promoted", None)) for e in rung.data]))
            return c

        Rung.quantile = quantile
        return self

    def __exit__(self, *a):
        _lib()["Rung"].quantile = self._orig

    def tie(self, reported):
        """was a threshold computed since the last call within round-off of the value it is compared with?"""
        res = False
        for c, vals in self.log:
            tol = 1e-9 * max(1.0, abs(c))
            cands = [v for v, p in vals if p is False]
            if reported is not None:
                cands.append(reported)
            if any(abs(v - c) <= tol for v in cands):
                res = True
        del self.log[:]
        return res


def _run_async(stype, mode, sign, table, W, rf, brackets, sseed, choices, fails, max_t, spy, ncand):
    L = _lib()
    Trial = L["Trial"]
    cs = {"x": L["uniform"](0.0, 1.0), "y": L["uniform"](0.0, 1.0), MAXATTR: max_t}
    kw = dict(searcher="random", type=stype, metric=METRIC, mode=mode, resource_attr=RESOURCE, max_resource_attr=MAXATTR, grace_period=1, reduction_factor=rf, brackets=brackets, random_seed=sseed, search_options={"debug_log": False})
    if stype.startswith("rush"):
        kw["rung_system_kwargs"] = {"num_threshold_candidates": ncand}
        kw["points_to_evaluate"] = [{"x": 0.1 + 0.2 * i, "y": 0.9 - 0.2 * i} for i in range(ncand)]
    sched = L["HyperbandScheduler"](cs, **kw)
    trace = []
    ties = set()
    running = []  # [job number, tid, next epoch, config]
    last_epoch = {}
    next_tid = 0
    njob = 0
    eps_seen = 0.0
    for step, ch in enumerate(choices):
        while len(running) < W:
            del spy.log[:]
            sugg = sched.suggest(next_tid)
            if spy.tie(None):
                ties.add(len(trace))
            if sugg is None:
                trace.append(("none",))
                return trace, ties, eps_seen
            if sugg.spawn_new_trial_id:
                tid = next_tid
                next_tid += 1
                config = dict(sugg.config)
                sched.on_trial_add(Trial(tid, config, None))
                trace.append(("start", tid, _cfg_key(config), config.get(MAXATTR)))
            else:
                tid = sugg.checkpoint_trial_id
                config = dict(sugg.config) if sugg.config is not None else None
                trace.append(("resume", tid, None if config is None else config.get(MAXATTR)))
            running.append([njob, tid, last_epoch.get(tid, 0) + 1, config])
            njob += 1
        item = running[ch % len(running)]
        j, tid, e, config = item
        trial = Trial(tid, config, None)
        if j in fails and e > 1:
            running.remove(item)
            sched.on_trial_error(trial)
            trace.append(("err", tid))
            continue
        v = sign * float(table[tid % table.shape[0], e - 1])
        del spy.log[:]
        dec = sched.on_trial_result(trial, {METRIC: v, RESOURCE: e})
        if spy.tie(v):
            ties.add(len(trace))
        trace.append(("dec", tid, e, dec))
        last_epoch[tid] = e
        item[2] = e + 1
        if dec != "CONTINUE":
            running.remove(item)
            sched.on_trial_remove(trial)
        elif e >= max_t:
            running.remove(item)
            sched.on_trial_complete(trial, {METRIC: v, RESOURCE: e})
        if stype == "pasha":
            eps_seen = max(eps_seen, float(sched.terminator._rung_systems[0].epsilon))
    return trace, ties, eps_seen


def _part_async(M, tier, rs):
    quick = tier == "quick"
    with _QuantileSpy() as spy:
        for stype in ASYNC_TYPES:
            nper = (8 if quick else 40) * (3 if stype == "pasha" else 1)
            eps_max = 0.0
            npromo = 0
            k = -1
            while True:
                k += 1
                if k >= nper and not (stype == "pasha" and eps_max <= 0.0 and k < nper + 12):
                    break  # (PASHA: up to 12 extra runs until the noise estimate epsilon became positive once)
                # reduction factors 2 and 4: thresholds are exact in both modes; 3: q = 1/3 vs 1 - 1/3 differ by
                # round-off, such runs usually end (excused) at the first threshold that coincides with a value
                rf = 3 if k % 4 == 3 else (2 if k % 2 == 0 else 4)
                max_t = int(rs.choice([9, 27])) if rf == 3 else int(rs.choice([8, 16]))
                brackets = 1 if (k % 4 or stype == "pasha") else 2  # PASHA compares the two top rungs of ONE rung system
                W = int(rs.choice([1, 2, 4]))
                T = int(rs.randint(120, 260 if quick else 500))
                ntr = 96
                tseed = int(rs.randint(0, 10 ** 6))
                trs = np.random.RandomState(tseed)
                base = trs.uniform(0.2, 1.0, size=(ntr, 1))
                table = base * (1.0 + 2.0 / np.arange(1, max_t + 1).reshape((1, -1))) + trs.normal(0.0, 0.08, size=(ntr, max_t))
                # general position: pairwise distinct multiples of 2^-20
                table = np.round(table * 4096.0) / 4096.0 + np.arange(table.size).reshape(table.shape) / float(2 ** 20) / 8.0
                choices = [int(x) for x in rs.randint(0, 1000, size=T)]
                pfail = float(rs.choice([0.0, 0.1]))
                fails = {int(j) for j in np.nonzero(rs.rand(T) < pfail)[0]}
                sseed = int(rs.randint(0, 10 ** 4))
                ctx = {"part": "HyperbandScheduler twin runs", "type": stype, "max_t": max_t, "reduction_factor": rf, "brackets": brackets, "workers": W, "steps": T, "table_seed": tseed, "scheduler_seed": sseed, "failing_jobs": sorted(fails)[:20], "choices_head": choices[:20]}
                try:
                    ta, tia, e1 = _run_async(stype, "min", 1.0, table, W, rf, brackets, sseed, choices, fails, max_t, spy, 2)
                    tb, tib, e2 = _run_async(stype, "max", -1.0, table, W, rf, brackets, sseed, choices, fails, max_t, spy, 2)
                except Exception as e:
                    M.check(CL_SYM_ASYNC(stype), False, ctx, raised=repr(e)[:300])
                    continue
                M.distinct += 1
                eps_max = max(eps_max, e1, e2)
                npromo += sum(1 for x in ta if x[0] == "resume")
                if ta == tb:
                    M.check(CL_SYM_ASYNC(stype), True)
                    continue
                kdiff = next((i for i, (a, b) in enumerate(zip(ta, tb)) if a != b), min(len(ta), len(tb)))
                if kdiff in tia or kdiff in tib:
                    M.stat("async_divergence_excused_threshold_within_roundoff")
                    M.check(CL_SYM_ASYNC(stype), True)
                    continue
                M.check(CL_SYM_ASYNC(stype), False, ctx, first_difference_at_event=kdiff, min_on_f=ta[kdiff] if kdiff < len(ta) else None, max_on_minus_f=tb[kdiff] if kdiff < len(tb) else None)
            if stype == "pasha":
                M.stat("pasha_max_epsilon_x1e6", int(eps_max * 1e6))
                if eps_max <= 0.0:
                    raise RuntimeError("PASHA twin runs never reached epsilon > 0 (check would be vacuous)")
            if stype in ("promotion", "pasha", "rush_promotion") and npromo == 0:
                raise RuntimeError("no promotion happened in the %s twin runs" % stype)
    M.sample({"part": "HyperbandScheduler twin runs", "types": list(ASYNC_TYPES), "max_t": [8, 16, 27], "reduction_factor": [2, 3, 4], "workers": [1, 2, 4], "note": "mode=min on f vs mode=max on -f, noisy crossing learning curves"})



# ---------------------------------------------------------------------------------------------------------------
# part 5: further mode-taking components, twin runs (mode=min, f) vs (mode=max, -f)
# ---------------------------------------------------------------------------------------------------------------
def _dyadic_table(seed, n, m):
    """n x m pairwise distinct multiples of 2^-10 (exact under negation, sums of a few of them are exact)"""
    v = np.random.RandomState(seed).permutation(4 * n * m)[: n * m].reshape((n, m))
    return (v - 2 * n * m) / 1024.0


def _mixed_space(kind):
    from syne_tune.config_space import choice, randint, uniform

    if kind == 0:
        return {"x": uniform(0.0, 1.0), "y": randint(0, 20), "c": choice(["a", "b", "c"])}
    if kind == 1:
        return {"c": choice(["a", "b", "c", "d"]), "d": choice([1, 2, 3]), "e": choice(["u", "v"]), "n": randint(1, 6)}
    return {"x": uniform(0.0, 1.0), "z": uniform(-1.0, 1.0)}


def _run_rea(wiring, mode, sign, kind, pop, samp, W, choices, fails, table, seeds, npts):
    """FIFOScheduler + RegularizedEvolution object; wiring 'explicit': searcher built with mode=<mode>;
    'configured': searcher built WITHOUT mode (default 'min'), it learns the mode from the scheduler"""
    from syne_tune.optimizer.schedulers.fifo import FIFOScheduler
    from syne_tune.optimizer.schedulers.searchers.regularized_evolution import RegularizedEvolution

    Trial = _lib()["Trial"]
    space = _mixed_space(kind)
    kw = {"mode": mode} if wiring == "explicit" else {}
    searcher = RegularizedEvolution(config_space=space, metric=METRIC, points_to_evaluate=[] if npts == 0 else None, population_size=pop, sample_size=samp, random_seed=seeds[0], **kw)
    sched = FIFOScheduler(space, searcher=searcher, metric=METRIC, mode=mode, random_seed=seeds[1])
    trace = []
    running = []  # [job number, tid, next epoch, number of epochs, config]
    next_tid = 0
    ndone = 0
    for ch in choices:
        while len(running) < W:
            sugg = sched.suggest(next_tid)
            if sugg is None:
                trace.append(("none",))
                return trace, ndone
            config = dict(sugg.config)
            trace.append(("start", next_tid, _cfg_key(config), bool(sugg.spawn_new_trial_id)))
            sched.on_trial_add(Trial(next_tid, config, None))
            running.append([next_tid, next_tid, 1, 1 + next_tid % 3, config])
            next_tid += 1
        item = running[ch % len(running)]
        j, tid, e, ne, config = item
        trial = Trial(tid, config, None)
        if j in fails:
            running.remove(item)
            sched.on_trial_error(trial)
            trace.append(("err", tid))
            continue
        res = {METRIC: sign * float(table[tid % table.shape[0], e - 1]), RESOURCE: e}
        dec = sched.on_trial_result(trial, res)
        trace.append(("dec", tid, e, dec))
        item[2] = e + 1
        if e >= ne or dec != "CONTINUE":
            running.remove(item)
            sched.on_trial_complete(trial, res)
            ndone += 1
    return trace, ndone


def _run_median(mode, sign, ra, gt, gp, rc, W, choices, table, seed, max_t):
    from syne_tune.optimizer.schedulers.fifo import FIFOScheduler
    from syne_tune.optimizer.schedulers.median_stopping_rule import MedianStoppingRule

    Trial = _lib()["Trial"]
    base = FIFOScheduler(_mixed_space(0), searcher="random", metric=METRIC, mode=mode, random_seed=seed, search_options={"debug_log": False})
    sched = MedianStoppingRule(base, resource_attr=RESOURCE, running_average=ra, grace_time=gt, grace_population=gp, rank_cutoff=rc)
    trace = []
    running = []
    next_tid = 0
    nstop = 0
    for ch in choices:
        while len(running) < W:
            sugg = sched.suggest(next_tid)
            config = dict(sugg.config)
            trace.append(("start", next_tid, _cfg_key(config)))
            sched.on_trial_add(Trial(next_tid, config, None))
            running.append([next_tid, 1, config])
            next_tid += 1
        item = running[ch % len(running)]
        tid, e, config = item
        trial = Trial(tid, config, None)
        res = {METRIC: sign * float(table[tid % table.shape[0], e - 1]), RESOURCE: e}
        dec = sched.on_trial_result(trial, res)
        trace.append(("dec", tid, e, dec))
        item[1] = e + 1
        if dec != "CONTINUE":
            nstop += 1
            running.remove(item)
            sched.on_trial_remove(trial)
        elif e >= max_t:
            running.remove(item)
            sched.on_trial_complete(trial, res)
    return trace, nstop


def _run_pbt(mode, sign, ps, pi, qf, rp, W, choices, table, seed, max_t):
    from syne_tune.backend.simulator_backend.time_keeper import SimulatedTimeKeeper
    from syne_tune.optimizer.schedulers.pbt import PopulationBasedTraining

    Trial = _lib()["Trial"]
    sched = PopulationBasedTraining(_mixed_space(0), metric=METRIC, mode=mode, resource_attr=RESOURCE, max_t=max_t, population_size=ps, perturbation_interval=pi, quantile_fraction=qf, resample_probability=rp, random_seed=seed, search_options={"debug_log": False})
    tk = SimulatedTimeKeeper()
    tk.start_of_time()
    sched.set_time_keeper(tk)
    trace = []
    running = []
    last_epoch = {}
    next_tid = 0
    nclone = 0
    for ch in choices:
        while len(running) < W:
            sugg = sched.suggest(next_tid)
            if sugg is None:
                trace.append(("none",))
                return trace, nclone
            config = {k: v for k, v in sugg.config.items() if k != "elapsed_time"}
            src = sugg.checkpoint_trial_id
            nclone += src is not None
            trace.append(("start", next_tid, _cfg_key(config), bool(sugg.spawn_new_trial_id), src))
            sched.on_trial_add(Trial(next_tid, dict(sugg.config), None))
            running.append([next_tid, last_epoch.get(src, 0) + 1, dict(sugg.config)])
            next_tid += 1
        item = running[ch % len(running)]
        tid, e, config = item
        trial = Trial(tid, config, None)
        tk.advance(1.0)
        res = {METRIC: sign * float(table[tid % table.shape[0], (e - 1) % table.shape[1]]), RESOURCE: e}
        dec = sched.on_trial_result(trial, res)
        trace.append(("dec", tid, e, dec))
        last_epoch[tid] = e
        item[1] = e + 1
        if dec != "CONTINUE":
            running.remove(item)
            sched.on_trial_remove(trial)
    return trace, nclone


def _run_fifo(searcher, mode, sign, W, choices, table, seed):
    from syne_tune.config_space import choice, randint
    from syne_tune.optimizer.schedulers.fifo import FIFOScheduler

    Trial = _lib()["Trial"]
    space = {"n": randint(1, 5), "c": choice(["a", "b", "c"])} if searcher == "grid" else _mixed_space(0)
    opts = {"debug_log": False}
    if searcher == "bayesopt":
        opts["num_init_random"] = len(choices) + W + 5  # the whole run stays in the model-free initial phase
    sched = FIFOScheduler(space, searcher=searcher, metric=METRIC, mode=mode, random_seed=seed, search_options=opts)
    trace = []
    running = []
    next_tid = 0
    for ch in choices:
        while len(running) < W:
            sugg = sched.suggest(next_tid)
            if sugg is None:
                trace.append(("none",))
                return trace
            config = dict(sugg.config)
            trace.append(("start", next_tid, _cfg_key(config)))
            sched.on_trial_add(Trial(next_tid, config, None))
            running.append([next_tid, config])
            next_tid += 1
        tid, config = running.pop(ch % len(running))
        trial = Trial(tid, config, None)
        res = {METRIC: sign * float(table[tid % table.shape[0], 0]), RESOURCE: 1}
        trace.append(("dec", tid, sched.on_trial_result(trial, res)))
        sched.on_trial_complete(trial, res)
    return trace


def _best_reports(mode, sign, order, table, nres, statuses):
    """TuningStatus fed with the results in the given order; answers of print_best_metric_found and Tuner.best_config"""
    import contextlib
    import io
    import types

    from syne_tune.optimizer.schedulers.fifo import FIFOScheduler
    from syne_tune.tuner import Tuner
    from syne_tune.tuning_status import TuningStatus, print_best_metric_found

    Trial = _lib()["Trial"]
    ts = TuningStatus(metric_names=[METRIC])
    trials = {}
    out = []
    for k, (tid, e) in enumerate(order):
        trials.setdefault(tid, Trial(tid, {"x": 0.5 + tid}, None))
        ts.update({tid: (trials[tid], statuses[k % len(statuses)])}, [(tid, {METRIC: sign * float(table[tid, e]), RESOURCE: e + 1})])
        if k % nres == nres - 1 or k == len(order) - 1:
            with contextlib.redirect_stdout(io.StringIO()):
                a = print_best_metric_found(ts, [METRIC], mode)
                fake = types.SimpleNamespace(scheduler=FIFOScheduler({"x": _mixed_space(2)["x"]}, searcher="random", metric=METRIC, mode=mode, random_seed=0, search_options={"debug_log": False}), tuning_status=ts, trial_backend=types.SimpleNamespace(_trial_dict=trials))
                b = Tuner.best_config(fake)
            out.append((int(a[0]), sign * float(a[1]), int(b[0]), _cfg_key(b[1])))
    return out


def _part_more_twins(M, tier, rs):
    quick = tier == "quick"
    # --- regularised evolution: FIFOScheduler(searcher=<object>), both wirings of the mode
    nfull = 0
    for k in range(10 if quick else 60):
        kind = k % 3
        pop = int(rs.choice([3, 5, 8]))
        samp = int(rs.choice([2, 4, 10]))
        W = int(rs.choice([1, 2, 4]))
        T = int(rs.randint(6 * pop, 6 * pop + 40))
        choices = [int(x) for x in rs.randint(0, 1000, size=T)]
        pfail = float(rs.choice([0.0, 0.1]))
        fails = {int(j) for j in np.nonzero(rs.rand(T + W) < pfail)[0]}
        tseed = int(rs.randint(0, 10 ** 6))
        table = _dyadic_table(tseed, 128, 3)
        seeds = (int(rs.randint(0, 10 ** 4)), int(rs.randint(0, 10 ** 4)))
        npts = k % 2
        ctx = {"part": "FIFOScheduler + RegularizedEvolution object", "config_space_kind": kind, "population_size": pop, "sample_size": samp, "workers": W, "steps": T, "failing_trials": sorted(fails), "table_seed": tseed, "seeds(searcher,scheduler)": seeds, "default_initial_point": bool(npts), "choices_head": choices[:20]}
        runs = {}
        try:
            for wiring in ("explicit", "configured"):
                for mode, sign in (("min", 1.0), ("max", -1.0)):
                    runs[(wiring, mode)], nd = _run_rea(wiring, mode, sign, kind, pop, samp, W, choices, fails, table, seeds, npts)
        except Exception as e:
            M.check(CL_SYM_REA, False, ctx, raised=repr(e)[:300])
            continue
        nfull += nd > 2 * pop
        M.distinct += 1
        ref_trace = runs[("explicit", "min")]
        for key in (("configured", "min"), ("explicit", "max"), ("configured", "max")):
            t = runs[key]
            if t == ref_trace:
                M.check(CL_SYM_REA, True)
            else:
                kd = next((i for i, (a, b) in enumerate(zip(ref_trace, t)) if a != b), min(len(ref_trace), len(t)))
                M.check(CL_SYM_REA, False, ctx, searcher_mode_wiring=key[0], scheduler_mode=key[1], first_difference_at_event=kd, min_on_f_explicit_mode=ref_trace[kd] if kd < len(ref_trace) else None, this_run=t[kd] if kd < len(t) else None, reason="suggestions differ from the run (mode=min on f, searcher built with mode='min')")
    if nfull == 0:
        raise RuntimeError("regularised evolution twins never filled the population twice")
    M.sample({"part": "FIFOScheduler + RegularizedEvolution object", "wirings": ["searcher built with explicit mode", "searcher built without mode, configured by the scheduler"], "population_size": [3, 5, 8], "sample_size": [2, 4, 10], "workers": [1, 2, 4]})
    # --- median stopping rule
    nstops = 0
    combos = [(ra, gt, gp, rc) for ra in (True, False) for gt in (1, 2, 4) for gp in (1, 3, 5) for rc in (0.25, 0.5, 0.75)]
    for k, (ra, gt, gp, rc) in enumerate(combos):
        for rep in range(1 if quick else 4):
            W = int(rs.choice([1, 2, 3, 5]))
            max_t = int(rs.choice([4, 7]))
            T = int(rs.randint(60, 140))
            choices = [int(x) for x in rs.randint(0, 1000, size=T)]
            tseed = int(rs.randint(0, 10 ** 6))
            table = _dyadic_table(tseed, 160, max_t)
            seed = int(rs.randint(0, 10 ** 4))
            ctx = {"part": "MedianStoppingRule(FIFOScheduler(random))", "running_average": ra, "grace_time": gt, "grace_population": gp, "rank_cutoff": rc, "workers": W, "max_t": max_t, "steps": T, "table_seed": tseed, "scheduler_seed": seed, "choices_head": choices[:20]}
            try:
                ta, ns = _run_median("min", 1.0, ra, gt, gp, rc, W, choices, table, seed, max_t)
                tb, _ = _run_median("max", -1.0, ra, gt, gp, rc, W, choices, table, seed, max_t)
            except Exception as e:
                M.check(CL_SYM_MEDIAN, False, ctx, raised=repr(e)[:300])
                continue
            nstops += ns
            M.distinct += 1
            _sym_compare(M, CL_SYM_MEDIAN, ctx, ta, tb)
    if nstops == 0:
        raise RuntimeError("median rule twins never stopped a trial")
    M.stat("median_rule_stops(min runs)", nstops)
    # --- population based training
    nclones = 0
    for k in range(8 if quick else 40):
        ps = int(rs.choice([2, 3, 4, 6]))
        pi = int(rs.choice([1, 2, 3]))
        qf = float(rs.choice([0.25, 0.34, 0.5]))
        rp = float(rs.choice([0.0, 0.25, 1.0]))
        max_t = int(rs.choice([6, 9, 12]))
        W = ps
        T = int(rs.randint(60, 160))
        choices = [int(x) for x in rs.randint(0, 1000, size=T)]
        tseed = int(rs.randint(0, 10 ** 6))
        table = _dyadic_table(tseed, 128, max_t)
        seed = int(rs.randint(0, 10 ** 4))
        ctx = {"part": "PopulationBasedTraining", "population_size": ps, "perturbation_interval": pi, "quantile_fraction": qf, "resample_probability": rp, "max_t": max_t, "workers": W, "steps": T, "table_seed": tseed, "scheduler_seed": seed, "choices_head": choices[:20]}
        try:
            ta, nc = _run_pbt("min", 1.0, ps, pi, qf, rp, W, choices, table, seed, max_t)
            tb, _ = _run_pbt("max", -1.0, ps, pi, qf, rp, W, choices, table, seed, max_t)
        except Exception as e:
            M.check(CL_SYM_PBT, False, ctx, raised=repr(e)[:300])
            continue
        nclones += nc
        M.distinct += 1
        _sym_compare(M, CL_SYM_PBT, ctx, ta, tb)
    if nclones == 0:
        raise RuntimeError("PBT twins never exploited another trial")
    M.stat("pbt_clones(min runs)", nclones)
    # --- FIFOScheduler with model-free searchers / model-based searcher in its random phase
    for searcher in ("random", "grid", "bayesopt"):
        for k in range(2 if quick else 6):
            W = int(rs.choice([1, 3]))
            T = int(rs.randint(8, 14))
            choices = [int(x) for x in rs.randint(0, 1000, size=T)]
            tseed = int(rs.randint(0, 10 ** 6))
            seed = int(rs.randint(0, 10 ** 4))
            ctx = {"part": "FIFOScheduler", "searcher": searcher, "workers": W, "steps": T, "table_seed": tseed, "scheduler_seed": seed}
            try:
                ta = _run_fifo(searcher, "min", 1.0, W, choices, _dyadic_table(tseed, 64, 1), seed)
                tb = _run_fifo(searcher, "max", -1.0, W, choices, _dyadic_table(tseed, 64, 1), seed)
            except Exception as e:
                M.check(CL_SYM_FIFO, False, ctx, raised=repr(e)[:300])
                continue
            M.distinct += 1
            _sym_compare(M, CL_SYM_FIFO, ctx, ta, tb)
    # --- best trial reports: TuningStatus / print_best_metric_found / Tuner.best_config
    from syne_tune.backend.trial_status import Status

    for k in range(20 if quick else 150):
        ntr = int(rs.randint(1, 9))
        nep = int(rs.randint(1, 6))
        tseed = int(rs.randint(0, 10 ** 6))
        table = _dyadic_table(tseed, ntr, nep)
        order = [(t, e) for e in range(nep) for t in range(ntr)]
        perm = rs.permutation(len(order))
        order = sorted(order, key=lambda te: (te[1], perm[te[0] + ntr * te[1]] if k % 2 else te[0]))  # epochs in order per trial, trials interleaved
        nres = int(rs.choice([1, 3, 7]))
        statuses = [Status.in_progress, Status.completed, Status.paused]
        ctx = {"part": "TuningStatus + print_best_metric_found + Tuner.best_config", "trials": ntr, "epochs": nep, "table_seed": tseed, "order": order, "query_every": nres}
        try:
            a = _best_reports("min", 1.0, order, table, nres, statuses)
            b = _best_reports("max", -1.0, order, table, nres, statuses)
        except Exception as e:
            M.check(CL_SYM_BEST, False, ctx, raised=repr(e)[:300])
            continue
        M.distinct += 1
        ok = a == b
        kd = next((i for i, (x, y) in enumerate(zip(a, b)) if x != y), None)
        M.check(CL_SYM_BEST, ok, ctx, query_number=kd, min_on_f=None if kd is None else a[kd], max_on_minus_f=None if kd is None else b[kd], reason="(best trial, best value of f, trial and configuration of Tuner.best_config) differ")
    M.sample({"part": "further twins", "components": ["RegularizedEvolution via FIFOScheduler", "MedianStoppingRule (54 parameter combinations)", "PopulationBasedTraining", "FIFOScheduler random/grid/bayesopt(random phase)", "print_best_metric_found / Tuner.best_config"]})


# ---------------------------------------------------------------------------------------------------------------
def monitor_sync(tier="quick", seed=0):
    prev_disable = logging.root.manager.disable
    logging.disable(logging.CRITICAL)
    try:
        M = _Mon()
        rs = np.random.RandomState(seed)
        _part_top_list(M, tier, np.random.RandomState(rs.randint(0, 2 ** 31 - 1)))
        _part_bracket_and_manager(M, tier, np.random.RandomState(rs.randint(0, 2 ** 31 - 1)))
        _part_schedulers(M, tier, np.random.RandomState(rs.randint(0, 2 ** 31 - 1)))
        _part_pasha_soft(M, tier, np.random.RandomState(rs.randint(0, 2 ** 31 - 1)))
        _part_async(M, tier, np.random.RandomState(rs.randint(0, 2 ** 31 - 1)))
        _part_more_twins(M, tier, np.random.RandomState(rs.randint(0, 2 ** 31 - 1)))
    finally:
        logging.disable(prev_disable)
    empty = [c for c in CLAUSES if M.counts[c] == 0 and c not in M.nviol]
    if empty and not M.viol:
        raise RuntimeError("clauses without a single check: %s" % empty)
    for c in empty:
        # other violations aborted every scenario that reaches this clause: it must not look green
        M.check(c, False, None, reason="clause could not be exercised: every scenario that reaches it was aborted by the violations of other clauses")
    if not M.viol and (M.stats.get("sched_resumed", 0) == 0 or M.stats.get("sched_failed", 0) == 0):
        raise RuntimeError("scheduler scenarios without resumed / failed trials: %r" % (M.stats,))
    for v in M.viol:
        v["occurrences_of_clause"] = M.nviol[v["clause"]]
    summary = (
        "tier %s seed %d: get_top_list all rank permutations x failure subsets x new_len for rungs <= %d slots (+ random <= 13); single brackets <= 7 jobs, 1-3 workers: return orders x failure subsets, complete where <= %d combinations, else sampled; "
        "bracket managers (sync, DEHB): every (return choice, fail/report) sequence of %s steps for 2-3 workers on 2-3 bracket systems, random schedules 1-9 workers <= %d steps on geometric/custom systems up to 5 rungs, failure probability 0-0.9, with and without ties; "
        "SynchronousHyperbandScheduler / SynchronousGeometricHyperbandScheduler / DEHB scheduler (pause-resume on/off) driven by a miniature Tuner, enumerated <= %d steps + random <= %d steps (DEHB: failures keep enough survivors; arbitrary failures and fewer brackets than rungs under the dehb-... clauses), both modes, twin runs min/f vs max/-f; "
        "PASHA soft ranking: all permutations of <= %d trials x gap patterns x 6 epsilons; HyperbandScheduler types %s: %d twin runs each (pasha x3), <= 260/500 events, reduction factors 2/4 (exact) and 3 (excused at round-off ties); further twins: RegularizedEvolution object in FIFOScheduler (2 mode wirings x 2 modes, %d scenarios, population 3-8, 1-4 workers, failures), MedianStoppingRule (running_average x grace_time 1/2/4 x grace_population 1/3/5 x rank_cutoff .25/.5/.75, %d schedules each, 1-5 workers), PBT (%d), FIFO random/grid/bayesopt-random-phase (%d each), best-trial reports (%d); checks per clause: %s"
    ) % (tier, seed, 5 if tier == "quick" else 6, 1000 if tier == "quick" else 20000, "3-5" if tier == "quick" else "5-7", 70 if tier == "quick" else 160, 5 if tier == "quick" else 6, 70 if tier == "quick" else 150, 4 if tier == "quick" else 5, "/".join(ASYNC_TYPES), 8 if tier == "quick" else 40, 10 if tier == "quick" else 60, 1 if tier == "quick" else 4, 8 if tier == "quick" else 40, 2 if tier == "quick" else 6, 20 if tier == "quick" else 150, M.counts)
    return {"evaluations": int(sum(M.counts.values())), "distinct": int(M.distinct), "clauses": list(CLAUSES), "violations": M.viol, "samples": M.samples[:4], "summary": summary + "; stats: %s" % (M.stats,)}
