"""C09 -- native numerical monitor: analytic gradients are the derivatives of the values (REAL code, bounded).

Property (C09): the gradient of the fitting criterion (negative log marginal likelihood plus priors /
regularisers) w.r.t. every surrogate parameter, and the gradient of every acquisition function (EI, LCB, EIpu,
CEI) w.r.t. the encoded input, equal the derivatives of the corresponding function VALUES; the value returned
together with a gradient equals the value returned alone; minus expected improvement is never positive.

Method: every analytic gradient coordinate is compared with a Richardson-extrapolated central finite difference
of the forward-only value,  R = (4 D(h/2) - D(h)) / 3,  D(h) = (f(x+h e_i) - f(x-h e_i)) / (2h),  h = 1e-4 max(1,|x_i|)
(fallback steps h/10, 10h, h/100).  Tolerance: 1e-4 * max(|analytic|, |R|) + 1e-7 * (|value| + 1e-5), widened by
5x the measured finite-difference uncertainty.  A comparison is only *decided* when the finite difference is
self-consistent: the extrapolation from (2h, h) must agree with the one from (h, h/2) within 0.2 tolerance, and
|D(h/2)-D(h)|/3 must be below 0.1 tolerance unless the differences follow the h^2 truncation law.  Otherwise the
coordinate is counted as "skipped" (round-off dominated, kink or clamp inside the stencil) -- never as a pass; the
monitor raises if a clause ends with zero decided / zero informative comparisons or with more skipped than
decided ones.  A non-finite analytic gradient at a finite value is a violation without any finite differencing.
Out of scope by the property statement (skipped): parameters on a box bound, the documented clamps
(std < 1e-10, posterior variance floor 1e-12, cost <= 1e-12) and the AddJitterOp fallback (noise kept >= 1e-5).

Parts:  A  fit criterion through create_lbfgs_arguments (exactly the GaussianProcessRegression.fit route),
        B  hand-written vjps of custom_op.cholesky_factorization / AddJitterOp,
        C  acquisition functions end to end on fitted GP predictors (+ small MCMC case) and on an analytic stub
           predictor (plumbing of compute_acq_with_gradient: fantasy columns, MCMC lists, two outputs).  The
           two-output functions (EIpu, CEI) are run with the active metric listed FIRST and listed SECOND in the
           predictor dict (GP, MCMC and stub predictors); besides the usual checks, value alone, value with gradient
           and gradient of the two orders are compared with each other (round-off only).  An exception raised by
           compute_acq / compute_acq_with_gradient at an interior point is a violation.
        D  expected improvement in the lower tail: get_quantiles, EIAcquisitionFunction._compute_head (1 and 3
           fantasy columns), _compute_head_and_gradient on a dense seed-shifted grid of u = (best - mean - jitter) /
           std in [-12, 3] for several (std, best, jitter), and compute_acq / compute_acq_with_gradient on GP
           posteriors with fixed hyperparameters along lines from the incumbent to the worst observations:
           (i) minus-EI <= 0 at every point, (ii) EI == s (u Phi(u) + phi(u)) evaluated with mpmath (40 digits) from the
           exact float inputs, relative tolerance max(1e-10, 7e-12 u^2) + conditioning of u (the unchanged erfc-based
           code: max relative error 4.2e-12 at u = -12, 2.8e-13 for u >= -6, i.e. a safety factor >= 240).

        E  explicit ``predictor=`` argument (batch suggestion re-uses one acquisition function object with fantasised
           predictors): an object built on predictor A is evaluated with ``predictor=B`` (B: differently fitted GP with
           one more, better observation resp. a stub with other candidates; different incumbent) in three call
           sequences (B first; A, B, A; two interleaved rounds) for EI / EIpu / CEI; every evaluation without the
           argument must equal a fresh object built on A (value alone, value with gradient, gradient; gradient also
           vs finite differences of the fresh object's value), every evaluation with the argument a fresh object on
           B.  Constrained EI with MIXED feasibility over the fantasy columns by construction (incumbent NaN in some
           columns, finite in others) vs its closed form computed from the stub's analytic means / stds.

Bounded stand-in: run-time monitoring over an enumerated, seed-dependent catalogue. Never counted as proved.
"""
import contextlib
import logging
import time
import warnings

import numpy as np

RTOL = 1e-4
ATOL_REL_VALUE = 1e-7
H_REL = 1e-4

CL_FIT_GRAD = "fit-criterion-gradient-is-the-derivative"
CL_FIT_VALUE = "fit-criterion-value-alone-equals-value-with-gradient"
CL_CHOL = "cholesky-backward-is-the-derivative"
CL_JITTER = "addjitter-backward-is-the-derivative"
CL_ACQ_VALUE = "acquisition-value-alone-equals-value-with-gradient"
CL_EI_SIGN = "minus-expected-improvement-nonpositive"
CL_STUB = "stub-plumbing-gradient-is-the-derivative"
CL_ORDER = "two-output-acquisition-independent-of-predictor-dict-order"
CL_TAIL_SIGN = "expected-improvement-never-negative[tail]"
CL_TAIL_FORM = "expected-improvement-equals-closed-form[tail]"
CL_OTHER = "default-predictor-evaluation-unaffected-by-explicit-predictor-argument"
CL_CEI_MIXED = "constrained-ei-mixed-feasibility-equals-closed-form"
ACQ_NAMES = ("EI", "LCB", "EIpu", "CEI")


def _cl_acq(name):
    return "acquisition-gradient-is-the-derivative[%s]" % name


ALL_CLAUSES = (
    [CL_FIT_GRAD, CL_FIT_VALUE, CL_CHOL, CL_JITTER]
    + [_cl_acq(a) for a in ACQ_NAMES]
    + [CL_ACQ_VALUE, CL_EI_SIGN, CL_STUB, CL_ORDER, CL_TAIL_SIGN, CL_TAIL_FORM, CL_OTHER, CL_CEI_MIXED]
)


# ---------------------------------------------------------------------------------------------------------------
# generic finite-difference checker
# ---------------------------------------------------------------------------------------------------------------
def _lst(a):
    return [float(v) for v in np.asarray(a, dtype=float).reshape(-1)]


def _jsonable(o):
    """strict-JSON friendly: non-finite floats become strings"""
    if isinstance(o, dict):
        return {str(k): _jsonable(v) for k, v in o.items()}
    if isinstance(o, (list, tuple)):
        return [_jsonable(v) for v in o]
    if isinstance(o, (float, np.floating)):
        return float(o) if np.isfinite(o) else repr(float(o))
    if isinstance(o, np.integer):
        return int(o)
    return o


class _Checker:
    def __init__(self, max_violations=60, max_per_clause=8):
        self.count = {c: 0 for c in ALL_CLAUSES}  # decided comparisons / checks per clause
        self.informative = {c: 0 for c in ALL_CLAUSES}  # |gradient| clearly above the absolute tolerance
        self.skipped = {c: 0 for c in ALL_CLAUSES}
        self.violations = []
        self.samples = []
        self.cases = set()
        self.max_violations = max_violations
        self.max_per_clause = max_per_clause
        self.num_violations = {}
        self.worst = {c: 0.0 for c in ALL_CLAUSES}
        self.worst_case = {}
        self.skipped_cases = []

    # -- bookkeeping ---------------------------------------------------------------------------------------------
    def case(self, component, config):
        self.cases.add((component, config))

    def violation(self, clause, **details):
        self.num_violations[clause] = self.num_violations.get(clause, 0) + 1
        # cap per clause, so that every violated clause shows up in the (bounded) list
        if self.num_violations[clause] <= self.max_per_clause and len(self.violations) < self.max_violations:
            d = {"clause": clause}
            d.update(details)
            self.violations.append(_jsonable(d))

    def sample(self, **d):
        # at most one example per component, so that the 4 samples show different parts
        key = d.get("component")
        if len(self.samples) < 4 and all(x.get("component") != key for x in self.samples):
            self.samples.append(_jsonable(d))

    def check_equal_values(self, clause, v_with_grad, v_alone, **ident):
        self.count[clause] += 1
        a, b = float(v_with_grad), float(v_alone)
        ok = np.isfinite(a) and np.isfinite(b) and abs(a - b) <= 1e-9 * max(abs(a), abs(b)) + 1e-14
        self.informative[clause] += 1
        if not ok:
            self.violation(clause, value_with_gradient=a, value_alone=b, **ident)
        return ok

    # -- the comparison ------------------------------------------------------------------------------------------
    def compare(self, clause, fbatch, x, grad, value, ident, directions=None, lower=None, upper=None):
        """Compare ``grad`` (analytic, same shape as x) with finite differences of ``fbatch`` (maps a list of
        points to an array of values) along every coordinate (or along the given ``directions``: list of
        (label, direction vector); the analytic number is then <grad, direction>)."""
        x = np.asarray(x, dtype=float).reshape(-1)
        grad = np.asarray(grad, dtype=float).reshape(-1)
        value = float(value)
        assert grad.shape == x.shape, (grad.shape, x.shape)
        if not np.isfinite(value):
            self.count[clause] += 1
            self.violation(clause, problem="value is not finite", value=value, input=_lst(x), **ident)
            return
        if directions is None:
            directions = []
            for i in range(x.size):
                e = np.zeros_like(x)
                e[i] = 1.0
                directions.append((i, e))
        atol = ATOL_REL_VALUE * (abs(value) + 1e-5)
        for label, dvec in directions:
            g = float(np.dot(grad, dvec))
            if not np.isfinite(g):
                # NaN / inf gradient at a finite value: violation, no finite differencing needed
                self.count[clause] += 1
                hh = self._step(x, dvec, lower, upper, 2.0)
                fd = self._richardson(fbatch, x, dvec, None if hh is None else 0.5 * hh)
                self.violation(
                    clause,
                    problem="gradient is not finite although the value is finite",
                    coordinate=label,
                    analytic=g,
                    finite_difference=(fd[0] if fd is not None else None),
                    value=value,
                    input=_lst(x),
                    gradient=_lst(grad),
                    **ident
                )
                continue
            decided = False
            tried = []
            for scale in (1.0, 0.1, 10.0, 0.01):
                h = self._step(x, dvec, lower, upper, 2.0 * scale)
                if h is None:
                    continue
                h = 0.5 * h  # the stencil uses x +- 2h, x +- h, x +- h/2
                fd = self._richardson(fbatch, x, dvec, h)
                if fd is None:
                    continue
                r, r_coarse, err = fd
                tol = RTOL * max(abs(g), abs(r)) + atol
                tried.append((h, r, r_coarse, err))
                # Decide only if the finite difference is self-consistent. err = |D(h/2)-D(h)|/3 bounds truncation
                # + round-off noise of D(h/2); gap = |R(h,h/2) - R(2h,h)| measures the departure from the h^2
                # truncation law. Accept if the extrapolations agree and either err is small (whatever its origin)
                # or the h^2 law holds (gap << err: truncation dominated, so the extrapolated value is far more
                # accurate than err). Round-off noise can be amplified a few times in R, hence the 5 * slack.
                gap = abs(r - r_coarse)
                if gap <= 0.2 * tol and (err <= 0.1 * tol or gap <= 0.1 * err):
                    slack = max(err, gap) if err <= 0.1 * tol else gap
                    tol = tol + 5.0 * slack
                    decided = True
                    break
            if not decided:
                self.skipped[clause] += 1
                self.skipped_cases.append((clause, label, g, tried, dict(ident), _lst(x)))
                continue
            self.count[clause] += 1
            if abs(g) > 100.0 * atol:
                self.informative[clause] += 1
            dev = abs(g - r)
            if dev / tol > self.worst[clause]:
                self.worst[clause] = dev / tol
                self.worst_case[clause] = (label, g, r, err, tol, h, dict(ident))
            if dev > tol:
                self.violation(
                    clause,
                    problem="analytic gradient differs from the finite-difference derivative of the value",
                    coordinate=label,
                    analytic=g,
                    finite_difference=r,
                    finite_difference_coarser_steps=r_coarse,
                    fd_error_estimate=err,
                    tolerance=tol,
                    step=h,
                    value=value,
                    input=_lst(x),
                    gradient=_lst(grad),
                    **ident
                )

    @staticmethod
    def _step(x, dvec, lower, upper, scale):
        nz = np.nonzero(dvec)[0]
        ref = max(1.0, float(np.max(np.abs(x[nz])))) if nz.size else 1.0
        h = H_REL * ref * scale
        if lower is not None or upper is not None:
            # keep the whole stencil strictly inside the box
            for sgn in (1.0, -1.0):
                y = x + sgn * h * dvec
                if lower is not None and np.any(y <= lower):
                    return None
                if upper is not None and np.any(y >= upper):
                    return None
        return h

    @staticmethod
    def _richardson(fbatch, x, dvec, h):
        """Central differences D at steps 2h, h, h/2 -> (Richardson value from (h, h/2), Richardson value from
        (2h, h), error estimate |D(h/2) - D(h)| / 3)"""
        if h is None:
            return None
        pts = []
        for s in (2.0, 1.0, 0.5):
            pts.append(x + s * h * dvec)
            pts.append(x - s * h * dvec)
        vals = np.asarray(fbatch(pts), dtype=float).reshape(-1)
        if not np.all(np.isfinite(vals)):
            return None
        d0 = (vals[0] - vals[1]) / (4.0 * h)
        d1 = (vals[2] - vals[3]) / (2.0 * h)
        d2 = (vals[4] - vals[5]) / h
        return (4.0 * d2 - d1) / 3.0, (4.0 * d1 - d0) / 3.0, abs(d2 - d1) / 3.0

    def finish(self):
        empty = [c for c in ALL_CLAUSES if self.count[c] == 0]
        if empty:
            raise RuntimeError("C09 monitor: clauses with zero decided comparisons (vacuous check): %s" % empty)
        if self.violations:
            return  # already red; the remaining vacuity checks only guard a green result
        weak = [c for c in ALL_CLAUSES if self.informative[c] == 0]
        if weak:
            raise RuntimeError("C09 monitor: clauses without any informative comparison: %s" % weak)
        too_many = [
            (c, self.skipped[c], self.count[c]) for c in ALL_CLAUSES if self.skipped[c] > max(3, self.count[c])
        ]
        if too_many:
            raise RuntimeError("C09 monitor: more comparisons skipped than decided: %s" % too_many)


@contextlib.contextmanager
def _quiet():
    prev = logging.root.manager.disable
    logging.disable(logging.CRITICAL)
    old = np.seterr(all="ignore")
    try:
        with warnings.catch_warnings():
            warnings.simplefilter("ignore")
            yield
    finally:
        np.seterr(**old)
        logging.disable(prev)


# ---------------------------------------------------------------------------------------------------------------
# Part A: fit criterion
# ---------------------------------------------------------------------------------------------------------------
def _make_dataset(rs, n, d, kind, positive):
    X = rs.uniform(0.02, 0.98, size=(n, d))
    if kind == "dup":
        X[1] = X[0]
    elif kind == "neardup":
        X[1] = np.clip(X[0] + 1e-6 * rs.choice([-1.0, 1.0], size=d), 0.0, 1.0)
    w = rs.normal(size=(d,))
    f = np.sin(3.0 * X.dot(w)) + 0.5 * np.sum((X - 0.4) ** 2, axis=1) + 0.15 * rs.normal(size=(n,))
    if positive:
        y = np.exp(0.8 * f) + 0.05
    else:
        y = 2.0 * f
    return X, y.reshape((-1, 1))


def _part_a(ck, tier, seed, info):
    from syne_tune.config_space import uniform
    from syne_tune.optimizer.schedulers.searchers.utils.hp_ranges_factory import make_hyperparameter_ranges
    from syne_tune.optimizer.schedulers.searchers.bayesopt.gpautograd.gp_regression import (
        GaussianProcessRegression,
    )
    from syne_tune.optimizer.schedulers.searchers.bayesopt.gpautograd.kernel import Matern52
    from syne_tune.optimizer.schedulers.searchers.bayesopt.gpautograd.mean import (
        ScalarMeanFunction,
        ZeroMeanFunction,
    )
    from syne_tune.optimizer.schedulers.searchers.bayesopt.gpautograd.target_transform import (
        BoxCoxTargetTransform,
        BOXCOX_LAMBDA_NAME,
    )
    from syne_tune.optimizer.schedulers.searchers.bayesopt.gpautograd.warping import kernel_with_warping
    from syne_tune.optimizer.schedulers.searchers.bayesopt.gpautograd.optimization_utils import (
        create_lbfgs_arguments,
        add_regularizer_to_criterion,
        ParamVecDictConverter,
    )

    rs = np.random.RandomState(1000 + seed)
    thorough = tier != "quick"
    n_datasets = 3 if thorough else 2
    n_random_vecs = 4 if thorough else 3
    lambdas_special = [0.0, 1e-8, 0.5, -0.7]
    if thorough:
        lambdas_special += [-1e-8, 1.5, -0.95]
    kinds = ["dup", "neardup", "plain"]
    combo = 0
    n_vectors = 0
    for ard in (False, True):
        for warp in (False, True):
            for mean_kind in ("scalar", "zero"):
                for boxcox in (False, True):
                    for ds in range(n_datasets):
                        combo += 1
                        d = 1 + (combo + seed) % 3
                        if warp and d == 3 and not thorough:
                            d = 2  # warping: keep cheap
                        n = 5 + (combo + ds + seed) % 4
                        kind = kinds[(combo + ds) % 3]
                        X, y = _make_dataset(rs, n, d, kind, positive=boxcox)
                        hp_ranges = make_hyperparameter_ranges({"x%d" % i: uniform(0.0, 1.0) for i in range(d)})
                        kernel = Matern52(d, ARD=ard)
                        if warp:
                            kernel = kernel_with_warping(kernel, hp_ranges)
                        mean = ScalarMeanFunction() if mean_kind == "scalar" else ZeroMeanFunction()
                        tt = BoxCoxTargetTransform() if boxcox else None
                        gpr = GaussianProcessRegression(
                            kernel=kernel, mean=mean, target_transform=tt, random_seed=seed
                        )
                        lik = gpr.likelihood
                        data = {"features": X, "targets": y}
                        # -- exactly what GaussianProcessOptimizeModel.fit does before calling L-BFGS
                        lik.on_fit_start(data)
                        if gpr.fit_reset_params:
                            gpr.reset_params()
                        objective, param_dict = create_lbfgs_arguments(
                            criterion=lik, crit_args=[data], verbose=gpr.optimization_config.verbose
                        )
                        box = lik.box_constraints_internal()
                        # -- what apply_lbfgs does: flat vector + bounds
                        conv = ParamVecDictConverter(param_dict)
                        x0 = conv.to_vec()
                        lo = np.full(x0.shape, -np.inf)
                        hi = np.full(x0.shape, np.inf)
                        for name, (l, u) in box.items():
                            if name in conv.name_to_index:
                                if l is not None:
                                    lo[conv.name_to_index[name]] = l
                                if u is not None:
                                    hi[conv.name_to_index[name]] = u
                        lam_idx = None
                        noise_idx = None
                        for name, idx in conv.name_to_index.items():
                            if BOXCOX_LAMBDA_NAME in name:
                                lam_idx = int(idx[0])
                            if "noise_variance" in name:
                                noise_idx = int(idx[0])
                        if boxcox:
                            assert lam_idx is not None and not tt._boxcox_lambda_fixed, "lambda must be free (n>=5)"
                            assert lo[lam_idx] < hi[lam_idx]

                        def value_alone(vec, _conv=conv, _lik=lik, _data=data):
                            _conv.from_vec(np.array(vec, dtype=float))
                            v = add_regularizer_to_criterion(_lik, [_data])
                            return float(np.reshape(np.asarray(v, dtype=float), (-1,))[0])

                        def fbatch(pts, _f=value_alone):
                            return [_f(p) for p in pts]

                        config = "matern52(ARD=%s)%s mean=%s transform=%s d=%d n=%d data=%s" % (
                            ard,
                            "+warping" if warp else "",
                            mean_kind,
                            "boxcox" if boxcox else "none",
                            d,
                            n,
                            kind,
                        )
                        ck.case("fit-criterion", config)
                        vecs = [("initial", x0.copy())]
                        lam_list = (lambdas_special + [None]) if boxcox else [None] * n_random_vecs
                        for lam in lam_list:
                            v = x0 + rs.normal(0.0, 0.6, size=x0.shape)
                            for name, idx in conv.name_to_index.items():
                                if "power_" in name:
                                    v[idx] = x0[idx] + rs.normal(0.0, 0.4, size=len(idx))
                                if "mean_value" in name:
                                    v[idx] = float(np.mean(y if not boxcox else np.log(y))) + rs.normal(0.0, 0.5)
                            # strictly inside the box, with margin
                            width = np.where(np.isfinite(hi - lo), hi - lo, 1.0)
                            v = np.where(np.isfinite(lo), np.maximum(v, lo + 0.05 * width), v)
                            v = np.where(np.isfinite(hi), np.minimum(v, hi - 0.05 * width), v)
                            if noise_idx is not None:
                                # avoid the AddJitterOp fallback (jitter is ignored by its gradient by design)
                                v[noise_idx] = max(v[noise_idx], np.log(1e-5))
                            tag = "random"
                            if boxcox:
                                if lam is None:
                                    v[lam_idx] = rs.uniform(-0.9, 1.9)
                                else:
                                    v[lam_idx] = lam
                                    tag = "boxcox_lambda=%r" % lam
                            vecs.append((tag, v))
                        for tag, v in vecs:
                            n_vectors += 1
                            if np.any(v <= lo) or np.any(v >= hi):
                                continue  # exactly on a bound: not in scope
                            val, grad = objective(np.array(v, dtype=float))
                            val = float(np.reshape(np.asarray(val, dtype=float), (-1,))[0])
                            grad = np.asarray(grad, dtype=float).reshape(-1)
                            alone = value_alone(v)
                            ident = {
                                "component": "fit-criterion",
                                "configuration": config,
                                "vector": tag,
                                "param_names": list(conv.names),
                            }
                            ck.check_equal_values(CL_FIT_VALUE, val, alone, input=_lst(v), **ident)
                            ck.compare(CL_FIT_GRAD, fbatch, v, grad, alone, ident, lower=lo, upper=hi)
                            if boxcox and tag.startswith("boxcox_lambda=0.0"):
                                ck.sample(
                                    component="fit-criterion",
                                    configuration=config,
                                    vector=tag,
                                    value=val,
                                    num_params=int(v.size),
                                )
    info["A"] = "A: %d kernel/mean/transform/data configurations, %d parameter vectors, n=5..8, d=1..3" % (
        combo,
        n_vectors,
    )


# ---------------------------------------------------------------------------------------------------------------
# Part B: hand-written vjps in custom_op.py
# ---------------------------------------------------------------------------------------------------------------
def _part_b(ck, tier, seed, info):
    import autograd.numpy as anp
    import autograd.scipy.linalg as aspl
    from autograd import value_and_grad
    from syne_tune.optimizer.schedulers.searchers.bayesopt.gpautograd.custom_op import (
        cholesky_factorization,
        AddJitterOp,
        flatten_and_concat,
    )

    rs = np.random.RandomState(2000 + seed)
    reps = 5 if tier != "quick" else 2
    n_mat = 0

    def sym_directions(n, offset_extra=0):
        dirs = []
        for i in range(n):
            for j in range(i + 1):
                e = np.zeros((n, n))
                e[i, j] = 1.0
                e[j, i] = 1.0
                e = e.reshape(-1)
                if offset_extra:
                    e = np.concatenate([e, np.zeros(offset_extra)])
                dirs.append(("sym(%d,%d)" % (i, j), e))
        return dirs

    for n in range(1, 6):
        for rep in range(reps):
            n_mat += 1
            G = rs.normal(size=(n, n + 2))
            A = G.dot(G.T) / (n + 2) + 0.05 * np.eye(n)
            W = rs.normal(size=(n, n))
            b = rs.normal(size=(n, 2))

            funcs = {
                "linear": lambda a: anp.sum(anp.multiply(W, cholesky_factorization(a))),
                "logdet": lambda a: 2.0 * anp.sum(anp.log(anp.diag(cholesky_factorization(a)))),
                "mahalanobis": lambda a: anp.sum(
                    anp.square(aspl.solve_triangular(cholesky_factorization(a), b, lower=True))
                ),
            }
            for fname, func in funcs.items():
                config = "cholesky_factorization n=%d f=%s" % (n, fname)
                ck.case("custom_op", config)

                def fvec(v, _func=func, _n=n):
                    return _func(anp.reshape(v, (_n, _n)))

                val, grad = value_and_grad(fvec)(A.reshape(-1).copy())
                alone = float(fvec(A.reshape(-1).copy()))
                ident = {"component": "custom_op.cholesky_factorization", "configuration": config, "rep": rep}
                ck.compare(
                    CL_CHOL,
                    lambda pts, _f=fvec: [float(_f(p)) for p in pts],
                    A.reshape(-1),
                    grad,
                    alone,
                    ident,
                    directions=sym_directions(n),
                )
                if n == 3 and rep == 0 and fname == "linear":
                    ck.sample(component="custom_op.cholesky_factorization", configuration=config, value=float(val))

            # AddJitterOp alone (linear function of the output; output is linear in the inputs)
            sig = float(rs.uniform(0.01, 0.5))
            inp = np.concatenate([A.reshape(-1), [sig]])
            W2 = rs.normal(size=(n, n))

            def fj(v, _W=W2):
                return anp.sum(anp.multiply(_W, AddJitterOp(v)))

            config = "AddJitterOp n=%d f=linear" % n
            ck.case("custom_op", config)
            val, grad = value_and_grad(fj)(inp.copy())
            ident = {"component": "custom_op.AddJitterOp", "configuration": config, "rep": rep}
            ck.compare(CL_JITTER, lambda pts, _f=fj: [float(_f(p)) for p in pts], inp, grad, float(fj(inp.copy())), ident)

            # the chain used by posterior_utils.cholesky_computations: AddJitterOp -> cholesky_factorization
            def fchain(v, _n=n, _b=b):
                kmat = anp.reshape(v[:-1], (_n, _n))
                sysmat = AddJitterOp(flatten_and_concat(kmat, v[-1:]), initial_jitter_factor=1e-9)
                l = cholesky_factorization(sysmat)
                p = aspl.solve_triangular(l, _b, lower=True)
                return 0.5 * anp.sum(anp.square(p)) + anp.sum(anp.log(anp.diag(l)))

            config = "AddJitterOp+cholesky_factorization n=%d f=neg-log-lik" % n
            ck.case("custom_op", config)
            val, grad = value_and_grad(fchain)(inp.copy())
            dirs = sym_directions(n, offset_extra=1)
            e = np.zeros(n * n + 1)
            e[-1] = 1.0
            dirs.append(("sigsq", e))
            ident = {"component": "custom_op.AddJitterOp+cholesky", "configuration": config, "rep": rep}
            ck.compare(
                CL_JITTER, lambda pts, _f=fchain: [float(_f(p)) for p in pts], inp, grad, float(fchain(inp.copy())), ident, directions=dirs
            )
    info["B"] = "B: %d random SPD matrices of size 1..5" % n_mat


# ---------------------------------------------------------------------------------------------------------------
# Part C: acquisition functions
# ---------------------------------------------------------------------------------------------------------------
def _in_clamp_region(acq, name, x):
    """True if a prediction at x sits in (or within a factor 10 of) one of the clamps of the value function:
    get_quantiles (std < 1e-10), predict_posterior_marginals (normalised variance <= 1e-12), EIpu (cost <= 1e-12),
    or if the predictions are degenerate (non-finite, |mean| > 1e9 std) so that values are cancellation noise."""
    for out_name, predictor in acq.predictor.items():
        scale = float(getattr(predictor, "std", 1.0) or 1.0)
        if not isinstance(scale, float) or not np.isfinite(scale) or scale <= 0:
            scale = 1.0
        for pred in predictor.predict(x.reshape((1, -1))):
            if not np.all(np.isfinite(pred["mean"])):
                return True
            if "std" in pred:
                sd = float(np.min(pred["std"]))
                if not np.isfinite(sd) or sd <= 1e-9 or sd / scale <= 3e-6:
                    return True
                if float(np.max(np.abs(pred["mean"]))) > 1e9 * sd:
                    return True  # (best - mean) / std is pure cancellation noise: no meaningful finite difference
            if name == "EIpu" and out_name == acq.cost_metric and float(np.min(pred["mean"])) <= 1e-11:
                return True
    return False


def _check_acq(ck, name, acq, xs, ident, clause=None, lower=0.0, upper=1.0):
    clause = clause or _cl_acq(name)

    def fbatch(pts):
        return np.asarray(acq.compute_acq(np.vstack([np.reshape(p, (1, -1)) for p in pts])), dtype=float).reshape(-1)

    for x in xs:
        x = np.array(x, dtype=float)
        if _in_clamp_region(acq, name, x):
            # documented non-differentiable clamps (std < 1e-10, posterior variance floor, cost <= 1e-12): out of scope
            ck.skipped[clause] += x.size
            ck.skipped_cases.append((clause, "clamp", None, [], dict(ident), _lst(x)))
            continue
        idx = dict(ident)
        idx["acquisition"] = name
        try:
            val, grad = acq.compute_acq_with_gradient(x.copy())
            alone = float(np.asarray(acq.compute_acq(x.copy())).reshape(-1)[0])
            grad = np.asarray(grad, dtype=float).reshape(-1)
            if grad.shape != x.shape:
                raise ValueError("gradient has shape %s, input has shape %s" % (grad.shape, x.shape))
        except Exception as exc:  # a crash on an admissible interior point is a violation, not a monitor error
            ck.count[CL_ACQ_VALUE] += 1
            ck.count[clause] += 1
            for cl in (CL_ACQ_VALUE, clause):
                ck.violation(cl, problem="exception: %s: %s" % (type(exc).__name__, exc), input=_lst(x), **idx)
            continue
        ck.check_equal_values(CL_ACQ_VALUE, float(val), alone, input=_lst(x), **idx)
        if name in ("EI", "EIpu", "CEI"):
            ck.count[CL_EI_SIGN] += 2
            for which, v in (("with-gradient", float(val)), ("alone", alone)):
                if not (v <= 0.0):
                    ck.violation(CL_EI_SIGN, which=which, value=v, input=_lst(x), **idx)
                elif v < 0.0:
                    ck.informative[CL_EI_SIGN] += 1
        ck.compare(
            clause,
            fbatch,
            x,
            np.asarray(grad, dtype=float).reshape(-1),
            alone,
            idx,
            lower=np.full(x.shape, lower),
            upper=np.full(x.shape, upper),
        )


def _check_order(ck, name, acq_first, acq_second, xs, ident):
    """The same predictors, once with the active metric listed FIRST and once listed SECOND in the predictor dict:
    value alone, value with gradient and gradient must not depend on the order of the dict (round-off only)."""
    for x in xs:
        x = np.array(x, dtype=float)
        if _in_clamp_region(acq_first, name, x):
            continue
        idx = dict(ident)
        idx["acquisition"] = name
        ck.count[CL_ORDER] += 1
        try:
            res = []
            for acq in (acq_first, acq_second):
                alone = float(np.asarray(acq.compute_acq(x.copy())).reshape(-1)[0])
                val, grad = acq.compute_acq_with_gradient(x.copy())
                res.append((alone, float(val), np.asarray(grad, dtype=float).reshape(-1)))
        except Exception as exc:
            ck.violation(CL_ORDER, problem="exception: %s: %s" % (type(exc).__name__, exc), input=_lst(x), **idx)
            continue
        (a1, v1, g1), (a2, v2, g2) = res
        vscale = max(abs(a1), abs(a2), abs(v1), abs(v2))
        gscale = max(float(np.max(np.abs(g1))), float(np.max(np.abs(g2)))) if g1.shape == g2.shape and g1.size else float("nan")
        ok = (
            np.isfinite(vscale)
            and np.isfinite(gscale)
            and abs(a1 - a2) <= 1e-9 * vscale + 1e-14
            and abs(v1 - v2) <= 1e-9 * vscale + 1e-14
            and float(np.max(np.abs(g1 - g2))) <= 1e-9 * gscale + 1e-14
        )
        if vscale > 0:
            ck.informative[CL_ORDER] += 1
        if not ok:
            ck.violation(
                CL_ORDER,
                value_alone_active_first=a1,
                value_alone_active_second=a2,
                value_with_gradient_active_first=v1,
                value_with_gradient_active_second=v2,
                gradient_active_first=_lst(g1),
                gradient_active_second=_lst(g2),
                input=_lst(x),
                **idx
            )


def _part_c_gp(ck, tier, seed, info):
    from syne_tune.config_space import uniform
    from syne_tune.optimizer.schedulers.searchers.utils.hp_ranges_factory import make_hyperparameter_ranges
    from syne_tune.optimizer.schedulers.searchers.bayesopt.datatypes.common import (
        INTERNAL_METRIC_NAME,
        INTERNAL_CONSTRAINT_NAME,
    )
    from syne_tune.optimizer.schedulers.searchers.bayesopt.gpautograd.constants import (
        OptimizationConfig,
        MCMCConfig,
    )
    from syne_tune.optimizer.schedulers.searchers.bayesopt.models.gp_model import GaussProcEmpiricalBayesEstimator
    from syne_tune.optimizer.schedulers.searchers.bayesopt.models.gp_mcmc_model import GaussProcMCMCEstimator
    from syne_tune.optimizer.schedulers.searchers.bayesopt.models.meanstd_acqfunc_impl import (
        EIAcquisitionFunction,
        LCBAcquisitionFunction,
        EIpuAcquisitionFunction,
        CEIAcquisitionFunction,
    )
    from syne_tune.optimizer.schedulers.searchers.bayesopt.utils.test_objects import (
        default_gpmodel,
        default_gpmodel_mcmc,
        create_tuning_job_state,
    )

    COST = "cost_metric"
    thorough = tier != "quick"
    rs = np.random.RandomState(3000 + seed)
    opt_config = OptimizationConfig(lbfgs_tol=1e-6, lbfgs_maxiter=100, verbose=False, n_starts=2)
    dims = [2, 1, 3] if thorough else [2]
    n_rand = 5 if thorough else 4
    n_near = 3 if thorough else 2
    n_models = 0
    n_points = 0
    mcmc_note = "MCMC: not run"

    for d in dims:
        n = 6 if d > 1 else 5
        hp_ranges = make_hyperparameter_ranges({"x%d" % i: uniform(0.0, 1.0) for i in range(d)})
        X = rs.uniform(0.05, 0.95, size=(n, d))
        w = rs.normal(size=(d,))
        obj = 3.0 * np.sin(3.0 * X.dot(w)) + 2.0 * np.sum((X - 0.4) ** 2, axis=1) + 0.1 * rs.normal(size=n)
        cost = 1.0 + 2.0 * X[:, 0] + 0.5 * np.sum(X**2, axis=1) + 0.05 * rs.normal(size=n)
        # constraint: feasible (<= 0) for roughly half of the points / for none of them
        craw = X.dot(np.abs(w) + 0.3)
        constr_mixed = 2.0 * (craw - np.median(craw)) - 0.05
        constr_infeas = 2.0 * (craw - np.min(craw)) + 0.05
        pending = [tuple(float(v) for v in row) for row in rs.uniform(0.1, 0.9, size=(2, d))]
        Xt = [tuple(float(v) for v in row) for row in X]

        def metrics(constr):
            return [
                {INTERNAL_METRIC_NAME: float(o), COST: float(c), INTERNAL_CONSTRAINT_NAME: float(q)}
                for o, c, q in zip(obj, cost, constr)
            ]

        def build(metric, constr, with_pending, nf, no_fantasizing=False):
            state = create_tuning_job_state(
                hp_ranges=hp_ranges,
                cand_tuples=list(Xt),
                metrics=metrics(constr),
                pending_tuples=list(pending) if with_pending else None,
            )
            gpmodel = default_gpmodel(state, random_seed=seed, optimization_config=opt_config)
            est = GaussProcEmpiricalBayesEstimator(
                active_metric=metric, gpmodel=gpmodel, num_fantasy_samples=nf, no_fantasizing=no_fantasizing
            )
            return est.fit_from_state(state, update_params=True)

        def points():
            pts = [rs.uniform(0.06, 0.94, size=d) for _ in range(n_rand)]
            for k in range(n_near):
                # near the best observed configuration (EI not negligible there), then near random data points
                base = X[int(np.argmin(obj))] if k == 0 else X[rs.randint(n)]
                pts.append(np.clip(base + rs.choice([-1.0, 1.0], size=d) * rs.uniform(0.02, 0.06, size=d), 0.03, 0.97))
            return pts

        for with_pending, nf in ((False, 1), (True, 3)):
            tagf = "d=%d n=%d fantasies=%d pending=%d" % (d, n, nf, 2 if with_pending else 0)
            active = build(INTERNAL_METRIC_NAME, constr_mixed, with_pending, nf)
            costm = build(COST, constr_mixed, with_pending, nf)
            conm = build(INTERNAL_CONSTRAINT_NAME, constr_mixed, with_pending, nf)
            active_inf = build(INTERNAL_METRIC_NAME, constr_infeas, with_pending, nf)
            conm_inf = build(INTERNAL_CONSTRAINT_NAME, constr_infeas, with_pending, nf)
            n_models += 5
            if with_pending:
                pm = active.predict(np.full((1, d), 0.5))[0]["mean"]
                assert pm.ndim == 2 and pm.shape[1] == nf, "fantasies are not really used: %s" % (pm.shape,)
            cases = [
                ("EI", EIAcquisitionFunction(active), "gp " + tagf),
                ("LCB", LCBAcquisitionFunction(active, kappa=1.5), "gp kappa=1.5 " + tagf),
                (
                    "EIpu",
                    EIpuAcquisitionFunction(
                        {INTERNAL_METRIC_NAME: active, COST: costm}, active_metric=INTERNAL_METRIC_NAME
                    ),
                    "gp exponent_cost=1 " + tagf,
                ),
                (
                    "EIpu",
                    EIpuAcquisitionFunction(
                        {INTERNAL_METRIC_NAME: active, COST: costm},
                        active_metric=INTERNAL_METRIC_NAME,
                        exponent_cost=0.6,
                    ),
                    "gp exponent_cost=0.6 " + tagf,
                ),
                (
                    "CEI",
                    CEIAcquisitionFunction(
                        {INTERNAL_METRIC_NAME: active, INTERNAL_CONSTRAINT_NAME: conm},
                        active_metric=INTERNAL_METRIC_NAME,
                    ),
                    "gp feasible-best-exists " + tagf,
                ),
                (
                    "CEI",
                    CEIAcquisitionFunction(
                        {INTERNAL_METRIC_NAME: active_inf, INTERNAL_CONSTRAINT_NAME: conm_inf},
                        active_metric=INTERNAL_METRIC_NAME,
                    ),
                    "gp no-feasible-point " + tagf,
                ),
            ]
            # the same two-output functions with the ACTIVE metric listed SECOND in the predictor dict
            eipu_second = EIpuAcquisitionFunction(
                {COST: costm, INTERNAL_METRIC_NAME: active}, active_metric=INTERNAL_METRIC_NAME, exponent_cost=0.6
            )
            cei_second = CEIAcquisitionFunction(
                {INTERNAL_CONSTRAINT_NAME: conm, INTERNAL_METRIC_NAME: active}, active_metric=INTERNAL_METRIC_NAME
            )
            assert list(eipu_second.predictor.keys())[1] == eipu_second.active_metric == INTERNAL_METRIC_NAME
            assert list(cei_second.predictor.keys())[1] == cei_second.active_metric == INTERNAL_METRIC_NAME
            order_pairs = [("EIpu", cases[3][1], eipu_second), ("CEI", cases[4][1], cei_second)]
            assert cases[3][1].exponent_cost == 0.6 and cases[4][2].startswith("gp feasible-best-exists")
            cases.append(("EIpu", eipu_second, "gp active-metric-listed-second exponent_cost=0.6 " + tagf))
            cases.append(("CEI", cei_second, "gp active-metric-listed-second feasible-best-exists " + tagf))
            if with_pending:
                # cost model which ignores pending evaluations (one mean column, broadcast against nf columns)
                cost_nofant = build(COST, constr_mixed, with_pending, nf, no_fantasizing=True)
                n_models += 1
                cases.append(
                    (
                        "EIpu",
                        EIpuAcquisitionFunction(
                            {INTERNAL_METRIC_NAME: active, COST: cost_nofant}, active_metric=INTERNAL_METRIC_NAME
                        ),
                        "gp cost-model-without-fantasies " + tagf,
                    )
                )
            for name, acq, config in cases:
                ck.case("acquisition[%s]" % name, config)
                xs = points()
                if "listed-second" in config:
                    xs = xs[:2] + xs[-2:]
                n_points += len(xs)
                _check_acq(ck, name, acq, xs, {"component": "acquisition", "configuration": config})
                if name == "LCB" and with_pending:
                    v, g = acq.compute_acq_with_gradient(np.array(xs[0]))
                    ck.sample(
                        component="acquisition", acquisition=name, configuration=config, x=_lst(xs[0]), value=float(v), gradient=_lst(g)
                    )

            for name, acq_first, acq_second in order_pairs:
                xs = points()
                xs = xs[:2] + xs[-1:]
                ck.case("dict-order[%s]" % name, "gp " + tagf)
                _check_order(ck, name, acq_first, acq_second, xs, {"component": "acquisition", "configuration": "gp dict order " + tagf})

        # ---- MCMC (cheap configurations: few slice-sampling steps), only for the first dimension setting.
        # With pending evaluations the library only works if every drawn sample is kept (n_burnin=0,
        # n_thinning=1): otherwise GaussProcMCMCEstimator.fit_from_state raises an AssertionError on its own
        # (number_samples counts the draws, not the kept samples) -- not a C09 matter, so that corner is not covered.
        if d == dims[0]:
            t0 = time.time()
            notes = []
            for with_pending, mcmc_config in (
                (False, MCMCConfig(n_samples=12, n_burnin=4, n_thinning=4)),
                (True, MCMCConfig(n_samples=3, n_burnin=0, n_thinning=1)),
            ):
                state = create_tuning_job_state(
                    hp_ranges=hp_ranges,
                    cand_tuples=list(Xt),
                    metrics=metrics(constr_mixed),
                    pending_tuples=list(pending) if with_pending else None,
                )
                preds = {}
                for metric in (INTERNAL_METRIC_NAME, COST, INTERNAL_CONSTRAINT_NAME):
                    gpm = default_gpmodel_mcmc(state, random_seed=seed, mcmc_config=mcmc_config)
                    preds[metric] = GaussProcMCMCEstimator(active_metric=metric, gpmodel=gpm).fit_from_state(
                        state, update_params=True
                    )
                    n_models += 1
                ns = len(preds[INTERNAL_METRIC_NAME].predict(np.full((1, d), 0.5)))
                assert ns > 1, "MCMC predictor has a single sample"
                tagm = "gp-mcmc samples=%d d=%d n=%d pending=%d" % (ns, d, n, 2 if with_pending else 0)
                notes.append("%d samples/%d pending" % (ns, 2 if with_pending else 0))
                mcases = [
                    ("EI", EIAcquisitionFunction(preds[INTERNAL_METRIC_NAME])),
                    ("LCB", LCBAcquisitionFunction(preds[INTERNAL_METRIC_NAME], kappa=0.7)),
                    (
                        "EIpu",
                        EIpuAcquisitionFunction(
                            {INTERNAL_METRIC_NAME: preds[INTERNAL_METRIC_NAME], COST: preds[COST]},
                            active_metric=INTERNAL_METRIC_NAME,
                        ),
                    ),
                    (
                        "CEI",
                        CEIAcquisitionFunction(
                            {
                                INTERNAL_METRIC_NAME: preds[INTERNAL_METRIC_NAME],
                                INTERNAL_CONSTRAINT_NAME: preds[INTERNAL_CONSTRAINT_NAME],
                            },
                            active_metric=INTERNAL_METRIC_NAME,
                        ),
                    ),
                ]
                mcases.append(
                    (
                        "EIpu",
                        EIpuAcquisitionFunction(
                            {COST: preds[COST], INTERNAL_METRIC_NAME: preds[INTERNAL_METRIC_NAME]},
                            active_metric=INTERNAL_METRIC_NAME,
                        ),
                    )
                )
                mcases.append(
                    (
                        "CEI",
                        CEIAcquisitionFunction(
                            {
                                INTERNAL_CONSTRAINT_NAME: preds[INTERNAL_CONSTRAINT_NAME],
                                INTERNAL_METRIC_NAME: preds[INTERNAL_METRIC_NAME],
                            },
                            active_metric=INTERNAL_METRIC_NAME,
                        ),
                    )
                )
                for pos, (name, acq) in enumerate(mcases):
                    second = pos >= 4
                    cfg = tagm + (" active-metric-listed-second" if second else "")
                    ck.case("acquisition[%s]" % name, cfg)
                    xs = points()[: (2 if second else (4 if thorough else 3))]
                    n_points += len(xs)
                    _check_acq(ck, name, acq, xs, {"component": "acquisition", "configuration": cfg})
                for name, a1, a2 in (("EIpu", mcases[2][1], mcases[4][1]), ("CEI", mcases[3][1], mcases[5][1])):
                    _check_order(ck, name, a1, a2, points()[:2], {"component": "acquisition", "configuration": "dict order " + tagm})
            mcmc_note = "MCMC: %s, %.1fs" % (", ".join(notes), time.time() - t0)
    info["C-gp"] = "C: %d fitted GP predictors, d in %s, fantasies {1, 3 with 2 pending}, %d input points; %s" % (
        n_models,
        dims,
        n_points,
        mcmc_note,
    )


def _make_stub_class():
    from syne_tune.optimizer.schedulers.searchers.bayesopt.models.model_base import BasePredictor

    class StubPredictor(BasePredictor):
        """Analytic mean/std with known gradients: ``num_samples`` "MCMC samples", ``nf`` fantasy columns."""

        def __init__(self, rs, d, num_samples, nf, metric, with_std=True, positive=False, offsets=None):
            super().__init__(state=None, active_metric=metric)
            self.d, self.S, self.nf = d, num_samples, nf
            self.with_std = with_std
            self.positive = positive
            self.a = rs.normal(0.0, 0.5, size=(num_samples, nf))
            if offsets is not None:
                self.a = self.a + np.asarray(offsets, dtype=float).reshape((1, -1))
            self.b = rs.normal(0.0, 0.8, size=(num_samples, nf, d))
            self.c = rs.normal(0.0, 2.0, size=(num_samples, nf, d))
            self.p = rs.normal(0.0, 0.7, size=(num_samples, d))
            self.q = rs.uniform(0.3, 0.9, size=(num_samples,))
            self.cands = rs.uniform(0.1, 0.9, size=(5, d))

        def keys_predict(self):
            return {"mean", "std"} if self.with_std else {"mean"}

        def hp_ranges_for_prediction(self):
            raise NotImplementedError

        def _mean(self, s, X):
            lin = X.dot(self.b[s].T) + self.a[s].reshape((1, -1))  # (n, nf)
            val = lin + 0.5 * np.sin(X.dot(self.c[s].T))
            if self.positive:
                val = np.exp(0.5 * val) + 0.3
            return val

        def _mean_grad(self, s, x):
            """(nf, d) Jacobian of the mean columns at the single point x"""
            X = x.reshape((1, -1))
            jac = self.b[s] + 0.5 * np.cos(X.dot(self.c[s].T)).reshape((-1, 1)) * self.c[s]
            if self.positive:
                lin = X.dot(self.b[s].T) + self.a[s].reshape((1, -1))
                val = lin + 0.5 * np.sin(X.dot(self.c[s].T))
                jac = (0.5 * np.exp(0.5 * val)).reshape((-1, 1)) * jac
            return jac

        def _std(self, s, X):
            return 0.2 + self.q[s] * np.exp(X.dot(self.p[s]))  # (n,)

        def _std_grad(self, s, x):
            return self.q[s] * np.exp(x.dot(self.p[s])) * self.p[s]

        def predict(self, inputs):
            inputs = np.asarray(inputs, dtype=float)
            res = []
            for s in range(self.S):
                m = self._mean(s, inputs)
                if self.nf == 1:
                    m = m.reshape((-1,))
                entry = {"mean": m}
                if self.with_std:
                    entry["std"] = self._std(s, inputs)
                res.append(entry)
            return res

        def backward_gradient(self, input, head_gradients):
            assert len(head_gradients) == self.S, (len(head_gradients), self.S)
            x = np.asarray(input, dtype=float).reshape(-1)
            ref = self.predict(x.reshape((1, -1)))
            res = []
            for s, hg in enumerate(head_gradients):
                # head gradients must have the shape of the corresponding predictions
                assert set(hg.keys()) <= set(ref[s].keys()), (hg.keys(), ref[s].keys())
                assert np.shape(hg["mean"]) == np.shape(ref[s]["mean"]), (np.shape(hg["mean"]), np.shape(ref[s]["mean"]))
                g = np.asarray(hg["mean"], dtype=float).reshape((1, -1)).dot(self._mean_grad(s, x)).reshape(-1)
                if "std" in hg:
                    assert np.shape(hg["std"]) == np.shape(ref[s]["std"])
                    g = g + float(np.asarray(hg["std"]).reshape(-1)[0]) * self._std_grad(s, x)
                res.append(g)
            return res

        def predict_mean_current_candidates(self):
            return [self._mean(s, self.cands).copy() for s in range(self.S)]

        def current_best(self):
            return [np.min(m, axis=0) for m in self.predict_mean_current_candidates()]

    return StubPredictor


def _part_c_stub(ck, tier, seed, info):
    from syne_tune.optimizer.schedulers.searchers.bayesopt.datatypes.common import (
        INTERNAL_METRIC_NAME,
        INTERNAL_CONSTRAINT_NAME,
    )
    from syne_tune.optimizer.schedulers.searchers.bayesopt.models.meanstd_acqfunc_impl import (
        EIAcquisitionFunction,
        LCBAcquisitionFunction,
        EIpuAcquisitionFunction,
        CEIAcquisitionFunction,
    )

    Stub = _make_stub_class()
    COST = "cost_metric"
    rs = np.random.RandomState(4000 + seed)
    thorough = tier != "quick"
    n_pts = 4 if thorough else 2
    settings = [(2, 3, 4), (3, 2, 2), (1, 2, 3)] if thorough else [(2, 3, 4), (3, 2, 2)]
    n_cases = 0
    for d, S, nf in settings:
        act = Stub(rs, d, S, nf, INTERNAL_METRIC_NAME)
        act1 = Stub(rs, d, S, 1, INTERNAL_METRIC_NAME)
        cost_same = Stub(rs, d, 2, nf, COST, with_std=False, positive=True)
        cost_one = Stub(rs, d, 1, 1, COST, with_std=False, positive=True)
        con = Stub(rs, d, 2, nf, INTERNAL_CONSTRAINT_NAME, offsets=np.linspace(-0.6, 0.2, nf))
        # first fantasy column of the constraint model is infeasible at all candidates -> current_best is NaN there
        con_nan = Stub(rs, d, 2, nf, INTERNAL_CONSTRAINT_NAME, offsets=[6.0] + [-0.4] * (nf - 1))
        assert any(np.any(np.all(m >= 0, axis=0)) for m in con_nan.predict_mean_current_candidates())
        tag = "stub d=%d mcmc-samples=%d fantasies=%d" % (d, S, nf)
        cases = [
            ("EI", EIAcquisitionFunction(act), tag),
            ("EI", EIAcquisitionFunction(act1), tag + " (single mean column)"),
            ("LCB", LCBAcquisitionFunction(act, kappa=1.3), tag + " kappa=1.3"),
            (
                "EIpu",
                EIpuAcquisitionFunction({INTERNAL_METRIC_NAME: act, COST: cost_same}, active_metric=INTERNAL_METRIC_NAME, exponent_cost=0.7),
                tag + " cost: 2 samples, nf columns, mean only",
            ),
            (
                "EIpu",
                EIpuAcquisitionFunction({INTERNAL_METRIC_NAME: act, COST: cost_one}, active_metric=INTERNAL_METRIC_NAME),
                tag + " cost: deterministic single column",
            ),
            (
                "CEI",
                CEIAcquisitionFunction({INTERNAL_METRIC_NAME: act, INTERNAL_CONSTRAINT_NAME: con}, active_metric=INTERNAL_METRIC_NAME),
                tag + " constraint: 2 samples",
            ),
            (
                "CEI",
                CEIAcquisitionFunction({INTERNAL_METRIC_NAME: act, INTERNAL_CONSTRAINT_NAME: con_nan}, active_metric=INTERNAL_METRIC_NAME),
                tag + " constraint: one fantasy without feasible point",
            ),
        ]
        # active metric listed SECOND in the predictor dict (lists of different lengths, mean-only cost model)
        second = [
            (
                "EIpu",
                EIpuAcquisitionFunction({COST: cost_same, INTERNAL_METRIC_NAME: act}, active_metric=INTERNAL_METRIC_NAME, exponent_cost=0.7),
                tag + " active-metric-listed-second cost: 2 samples, nf columns, mean only",
                cases[3][1],
            ),
            (
                "EIpu",
                EIpuAcquisitionFunction({COST: cost_one, INTERNAL_METRIC_NAME: act}, active_metric=INTERNAL_METRIC_NAME),
                tag + " active-metric-listed-second cost: deterministic single column",
                cases[4][1],
            ),
            (
                "CEI",
                CEIAcquisitionFunction({INTERNAL_CONSTRAINT_NAME: con, INTERNAL_METRIC_NAME: act}, active_metric=INTERNAL_METRIC_NAME),
                tag + " active-metric-listed-second constraint: 2 samples",
                cases[5][1],
            ),
            (
                "CEI",
                CEIAcquisitionFunction({INTERNAL_CONSTRAINT_NAME: con_nan, INTERNAL_METRIC_NAME: act}, active_metric=INTERNAL_METRIC_NAME),
                tag + " active-metric-listed-second constraint: one fantasy without feasible point",
                cases[6][1],
            ),
        ]
        for name, acq2, config, acq1 in second:
            assert list(acq2.predictor.keys())[1] == acq2.active_metric and list(acq1.predictor.keys())[0] == acq1.active_metric
            cases.append((name, acq2, config))
            ck.case("dict-order[%s]" % name, config)
            xs = [rs.uniform(0.1, 0.9, size=d) for _ in range(2)]
            _check_order(ck, name, acq1, acq2, xs, {"component": "stub-predictor", "configuration": config})
        for name, acq, config in cases:
            n_cases += 1
            ck.case("stub[%s]" % name, config)
            xs = [rs.uniform(0.1, 0.9, size=d) for _ in range(n_pts)]
            _check_acq(ck, name, acq, xs, {"component": "stub-predictor", "configuration": config}, clause=CL_STUB)
            if name == "CEI" and "without" in config and "listed-second" not in config:
                v, g = acq.compute_acq_with_gradient(np.array(xs[0]))
                ck.sample(component="stub-predictor", acquisition=name, configuration=config, x=_lst(xs[0]), value=float(v), gradient=_lst(g))
    info["C-stub"] = "stub predictor: %d acquisition/shape cases (MCMC lists of 1..3, fantasy columns 1..4)" % n_cases


# ---------------------------------------------------------------------------------------------------------------
# Part D: expected improvement in the lower tail (u = (best - mean - jitter) / std down to -12)
# ---------------------------------------------------------------------------------------------------------------
TAIL_U_MIN, TAIL_U_MAX = -12.0, 3.0


def _ei_reference(best, mean, std, jitter):
    """EI = s (u Phi(u) + phi(u)), u = (best - mean - jitter) / s, evaluated with 40 significant digits from the
    exact values of the float64 inputs (no cancellation: Phi through erfc)"""
    import mpmath as mp

    with mp.workdps(40):
        b, m, s, j = mp.mpf(float(best)), mp.mpf(float(mean)), mp.mpf(float(std)), mp.mpf(float(jitter))
        u = (b - m - j) / s
        Phi = mp.erfc(-u / mp.sqrt(2)) / 2
        phi = mp.exp(-u * u / 2) / mp.sqrt(2 * mp.pi)
        return s * (u * Phi + phi), u


def _tail_rtol(u, best, mean, std, jitter):
    """relative tolerance of the closed-form comparison.  Measured on the unchanged code (erfc based Phi), u in
    [-12, 3], 5 (std, best, jitter) settings x 3001 points: max relative error 4.2e-12 at u = -12 (it grows like
    u^2: cancellation u Phi + phi ~ phi / u^2), 2.8e-13 for u >= -6.  Tolerance = max(1e-10, 7e-12 u^2) (1e-9 at
    u = -12: >= 240 x the measured error everywhere) + the conditioning of u itself (100 ulp of the difference
    best - mean - jitter, amplified by |d log EI / du| <= max(1, |u|) + 1)."""
    cond = 100.0 * 2.3e-16 * (abs(best) + abs(mean) + abs(jitter)) / std * (max(1.0, abs(u)) + 1.0)
    return max(1e-10, 7e-12 * u * u) + cond


class _TailStats:
    def __init__(self):
        self.worst_rel = 0.0
        self.worst_ratio = 0.0
        self.worst_at = None
        self.n_deep = 0  # points with u < -6
        self.u_lo, self.u_hi = np.inf, -np.inf


def _tail_check(ck, st, minus_ei, best, mean, std, jitter, ident, sign_only=False):
    """minus_ei: value returned by the library (minus EI, averaged over nothing); one scalar point"""
    import mpmath as mp

    v = float(minus_ei)
    ref, u_mp = _ei_reference(best, mean, std, jitter)
    u = float(u_mp)
    ck.count[CL_TAIL_SIGN] += 1
    if not (v <= 0.0):
        ck.violation(
            CL_TAIL_SIGN,
            problem="expected improvement is negative (minus-EI value > 0)" if v == v else "value is NaN",
            minus_ei=v,
            closed_form_ei=float(ref),
            u=u,
            best=float(best),
            mean=float(mean),
            std=float(std),
            jitter=float(jitter),
            **ident
        )
    elif v < 0.0:
        ck.informative[CL_TAIL_SIGN] += 1
    if sign_only or not (TAIL_U_MIN - 1e-9 <= u <= TAIL_U_MAX + 1e-9):
        return
    ck.count[CL_TAIL_FORM] += 1
    st.u_lo, st.u_hi = min(st.u_lo, u), max(st.u_hi, u)
    if u < -6.0:
        st.n_deep += 1
        ck.informative[CL_TAIL_FORM] += 1
    rel = float(abs((mp.mpf(-v) - ref) / ref)) if v == v else float("inf")
    tol = _tail_rtol(u, float(best), float(mean), float(std), float(jitter))
    if rel > st.worst_rel:
        st.worst_rel = rel
    if rel / tol > st.worst_ratio:
        st.worst_ratio, st.worst_at = rel / tol, u
    if rel / tol > ck.worst[CL_TAIL_FORM]:
        ck.worst[CL_TAIL_FORM] = rel / tol
    if not (rel <= tol):
        ck.violation(
            CL_TAIL_FORM,
            problem="expected improvement differs from the closed form s (u Phi(u) + phi(u))",
            ei=-v,
            closed_form_ei=float(ref),
            relative_error=rel,
            relative_tolerance=tol,
            u=u,
            best=float(best),
            mean=float(mean),
            std=float(std),
            jitter=float(jitter),
            **ident
        )


def _part_d(ck, tier, seed, info):
    from syne_tune.config_space import uniform
    from syne_tune.optimizer.schedulers.searchers.utils.hp_ranges_factory import make_hyperparameter_ranges
    from syne_tune.optimizer.schedulers.searchers.bayesopt.datatypes.common import INTERNAL_METRIC_NAME
    from syne_tune.optimizer.schedulers.searchers.bayesopt.gpautograd.constants import OptimizationConfig
    from syne_tune.optimizer.schedulers.searchers.bayesopt.models.gp_model import GaussProcEmpiricalBayesEstimator
    from syne_tune.optimizer.schedulers.searchers.bayesopt.models import meanstd_acqfunc_impl as impl
    from syne_tune.optimizer.schedulers.searchers.bayesopt.utils.test_objects import (
        default_gpmodel,
        create_tuning_job_state,
    )

    thorough = tier != "quick"
    rs = np.random.RandomState(5000 + seed)
    st = _TailStats()
    n_grid = 2401 if thorough else 1201
    Stub = _make_stub_class()
    ei_stub = impl.EIAcquisitionFunction(Stub(rs, 1, 1, 1, INTERNAL_METRIC_NAME), jitter=0.01)
    M = INTERNAL_METRIC_NAME

    # ---- D1: get_quantiles and EIAcquisitionFunction._compute_head on a dense grid of u ------------------------
    settings = [(1.0, 0.25, 0.01), (0.05, 0.25, 0.01), (3.7, -2.0, 0.0)]
    settings.append((float(np.exp(rs.uniform(np.log(1e-3), np.log(30.0)))), float(rs.normal(0.0, 2.0)), 0.01))
    if thorough:
        settings.append((float(np.exp(rs.uniform(np.log(1e-3), np.log(30.0)))), float(rs.normal(0.0, 50.0)), float(rs.choice([0.0, 0.01, 0.1]))))
    n_direct = 0
    for std_val, best, jitter in settings:
        step = (TAIL_U_MAX - TAIL_U_MIN) / (n_grid - 1)
        ut = TAIL_U_MIN + step * (np.arange(n_grid - 1) + rs.uniform(0.0, 1.0))  # seed-dependent offset inside the range
        ut = np.concatenate([ut, [TAIL_U_MIN, -8.0, -7.5, TAIL_U_MAX]]).reshape((-1, 1))
        s = np.full_like(ut, std_val)
        m = best - jitter - ut * s
        cfg = "std=%.4g best=%.4g jitter=%g, %d grid points u in [%g, %g]" % (std_val, best, jitter, ut.size, TAIL_U_MIN, TAIL_U_MAX)
        ck.case("ei-tail", "get_quantiles " + cfg)
        phi, Phi, u = impl.get_quantiles(jitter, np.array([[best]]), m.copy(), s.copy())
        ei_q = (s * (u * Phi + phi)).reshape(-1)
        ei_stub.jitter = jitter
        head = np.asarray(ei_stub._compute_head({M: {"mean": m.copy(), "std": s.copy()}}, np.array([[best]])), dtype=float).reshape(-1)
        assert ei_q.shape == head.shape == (ut.size,)
        for i in range(ut.size):
            n_direct += 1
            _tail_check(ck, st, -ei_q[i], best, m[i, 0], s[i, 0], jitter, {"component": "ei-tail", "entry": "get_quantiles: -s (u Phi + phi)", "configuration": cfg})
            if head[i] != -ei_q[i]:
                _tail_check(ck, st, head[i], best, m[i, 0], s[i, 0], jitter, {"component": "ei-tail", "entry": "EIAcquisitionFunction._compute_head", "configuration": cfg})
            else:
                ck.count[CL_TAIL_SIGN] += 1
                ck.count[CL_TAIL_FORM] += 1
        # value returned together with the head gradient, every 16th point
        for i in range(0, ut.size, 16):
            res = ei_stub._compute_head_and_gradient({M: {"mean": m[i].copy(), "std": s[i].copy()}}, np.array([best]))
            _tail_check(ck, st, float(np.asarray(res.hval).reshape(-1)[0]), best, m[i, 0], s[i, 0], jitter, {"component": "ei-tail", "entry": "EIAcquisitionFunction._compute_head_and_gradient", "configuration": cfg})
    # fantasy columns: head = mean over columns of the per-column minus-EI (columns in different parts of the tail)
    nf = 3
    ut = rs.uniform(TAIL_U_MIN, TAIL_U_MAX, size=(40, nf))
    s = np.exp(rs.uniform(np.log(0.02), np.log(5.0), size=(40, 1)))
    bests = rs.normal(0.0, 1.0, size=(1, nf))
    m = bests - 0.01 - ut * s
    ei_stub.jitter = 0.01
    head = np.asarray(ei_stub._compute_head({M: {"mean": m.copy(), "std": s.copy()}}, bests.copy()), dtype=float).reshape(-1)
    import mpmath as mp

    ck.case("ei-tail", "_compute_head with %d fantasy columns" % nf)
    for i in range(ut.shape[0]):
        refs = [_ei_reference(bests[0, j], m[i, j], s[i, 0], 0.01) for j in range(nf)]
        ref = sum(r for r, _ in refs) / nf
        umin = min(float(uu) for _, uu in refs)
        rel = float(abs((mp.mpf(-float(head[i])) - ref) / ref))
        tol = max(_tail_rtol(float(uu), bests[0, j], m[i, j], s[i, 0], 0.01) for j, (_, uu) in enumerate(refs))
        ck.count[CL_TAIL_SIGN] += 1
        ck.count[CL_TAIL_FORM] += 1
        ident = {"component": "ei-tail", "entry": "EIAcquisitionFunction._compute_head, %d fantasy columns" % nf, "u_columns": [float(uu) for _, uu in refs]}
        if not (head[i] <= 0.0):
            ck.violation(CL_TAIL_SIGN, problem="expected improvement is negative (minus-EI value > 0)", minus_ei=float(head[i]), closed_form_ei=float(ref), **ident)
        if not (rel <= tol):
            ck.violation(CL_TAIL_FORM, problem="head differs from the mean of the closed forms of the columns", ei=-float(head[i]), closed_form_ei=float(ref), relative_error=rel, relative_tolerance=tol, u=umin, **ident)

    # ---- D2: end to end, EI on a GP posterior with fixed hyperparameters (no fitting), along lines from the
    # incumbent to the worst observations: u runs from the body deep into the lower tail
    opt_config = OptimizationConfig(lbfgs_tol=1e-6, lbfgs_maxiter=100, verbose=False, n_starts=2)
    n_gp = 0
    n_gp_deep = 0
    for rep in range(2 if thorough else 1):
        d, n = 2, 7
        hp_ranges = make_hyperparameter_ranges({"x%d" % i: uniform(0.0, 1.0) for i in range(d)})
        X = rs.uniform(0.08, 0.92, size=(n, d))
        y = rs.uniform(0.0, 1.0, size=n)
        state = create_tuning_job_state(
            hp_ranges=hp_ranges,
            cand_tuples=[tuple(float(v) for v in row) for row in X],
            metrics=[{INTERNAL_METRIC_NAME: float(v)} for v in y],
        )
        gpmodel = default_gpmodel(state, random_seed=seed, optimization_config=opt_config)
        est = GaussProcEmpiricalBayesEstimator(active_metric=INTERNAL_METRIC_NAME, gpmodel=gpmodel, num_fantasy_samples=1)
        params = est.get_params()
        params.update(
            noise_variance=float(np.exp(rs.uniform(np.log(2e-3), np.log(2e-2)))),
            kernel_inv_bw0=float(rs.uniform(2.0, 5.0)),
            kernel_inv_bw1=float(rs.uniform(2.0, 5.0)),
        )
        est.set_params(params)
        predictor = est.fit_from_state(state, update_params=False)
        jitter = 0.01
        acq = impl.EIAcquisitionFunction(predictor, jitter=jitter)
        best = float(np.asarray(predictor.current_best()[0]).reshape(-1)[0])
        order = np.argsort(y)
        for target in (order[-1], order[-2]):
            t = np.linspace(0.0, 1.0, 601 if thorough else 401).reshape((-1, 1))
            inputs = np.clip((1.0 - t) * X[order[0]] + t * X[target] + 0.01, 0.03, 0.97)
            pred = predictor.predict(inputs)[0]
            mean = np.asarray(pred["mean"], dtype=float).reshape(-1)
            std = np.asarray(pred["std"], dtype=float).reshape(-1)
            vals = np.asarray(acq.compute_acq(inputs), dtype=float).reshape(-1)
            cfg = "gp d=%d n=%d fixed hyperparameters, line incumbent -> observation %d, %d points" % (d, n, int(target), t.size)
            ck.case("ei-tail", "compute_acq " + cfg)
            for i in range(t.size):
                if std[i] < 1e-8:
                    continue
                n_gp += 1
                before = st.n_deep
                _tail_check(ck, st, vals[i], best, mean[i], std[i], jitter, {"component": "ei-tail", "entry": "EIAcquisitionFunction.compute_acq", "configuration": cfg, "input": _lst(inputs[i])})
                n_gp_deep += st.n_deep - before
            for i in range(0, t.size, 20):
                if std[i] < 1e-8:
                    continue
                # single-row prediction, exactly as compute_acq_with_gradient obtains it (the batched prediction above
                # differs from it by round-off of the linear algebra, which |u| amplifies)
                p1 = predictor.predict(inputs[i].copy().reshape((1, -1)))[0]
                m1 = float(np.asarray(p1["mean"], dtype=float).reshape(-1)[0])
                s1 = float(np.asarray(p1["std"], dtype=float).reshape(-1)[0])
                v, _ = acq.compute_acq_with_gradient(inputs[i].copy())
                _tail_check(ck, st, float(v), best, m1, s1, jitter, {"component": "ei-tail", "entry": "EIAcquisitionFunction.compute_acq_with_gradient", "configuration": cfg, "input": _lst(inputs[i])})
    if st.n_deep == 0 or not (st.u_lo <= TAIL_U_MIN + 0.01 and st.u_hi >= TAIL_U_MAX - 0.01):
        raise RuntimeError("C09 monitor: EI tail scan does not cover u in [%g, %g]" % (TAIL_U_MIN, TAIL_U_MAX))
    prev = info.get("D-stats")
    if prev is not None:
        st.worst_rel = max(st.worst_rel, prev.worst_rel)
        if prev.worst_ratio > st.worst_ratio:
            st.worst_ratio, st.worst_at = prev.worst_ratio, prev.worst_at
    info["D-stats"] = st
    info["D"] = (
        "D: EI tail scan u in [%g, %g]: %d grid points through get_quantiles/_compute_head (%d settings of std/best/jitter), "
        "%d GP points (%d with u < -6) through compute_acq; mpmath 40-digit closed form, rtol=max(1e-10, 7e-12 u^2)+conditioning; "
        "worst relative error %.3g, worst error/tolerance %.3g at u=%.3f"
        % (TAIL_U_MIN, TAIL_U_MAX, n_direct, len(settings), n_gp, n_gp_deep, st.worst_rel, st.worst_ratio, st.worst_at if st.worst_at is not None else float("nan"))
    )


# ---------------------------------------------------------------------------------------------------------------
# Part E: explicit ``predictor=`` argument (incumbent cache), mixed-feasibility constrained EI
# ---------------------------------------------------------------------------------------------------------------
def _eval_pair(acq, x, predictor=None):
    """(value alone, value with gradient, gradient) at the single point x, for the default or an explicit predictor"""
    kw = {} if predictor is None else {"predictor": predictor}
    alone = float(np.asarray(acq.compute_acq(x.copy(), **kw)).reshape(-1)[0])
    val, grad = acq.compute_acq_with_gradient(x.copy(), **kw)
    return alone, float(val), np.asarray(grad, dtype=float).reshape(-1)


def _check_other_predictor(ck, name, make_acq, pred_a, pred_b, arg_b, incumbents_differ, xs, others, ident, fd_clause):
    """One acquisition function object built on predictor A is also evaluated with ``predictor=B`` (what batch
    suggestion does with fantasised predictors).  Whatever the order of the calls, every evaluation WITHOUT the
    argument must equal the evaluation by a fresh object built on A which never saw B (value alone, value with
    gradient, gradient; the gradient is also compared with finite differences of the fresh object's value), and
    every evaluation with ``predictor=B`` must equal the evaluation by a fresh object built on B."""
    fresh_a = make_acq(pred_a)
    fresh_b = make_acq(pred_b)

    def fbatch(pts):
        return np.asarray(fresh_a.compute_acq(np.vstack([np.reshape(p, (1, -1)) for p in pts])), dtype=float).reshape(-1)

    def same(got, want, what, idx, x, sequence):
        ck.count[CL_OTHER] += 1
        if incumbents_differ:
            ck.informative[CL_OTHER] += 1
        ok = True
        for g, w in zip(got, want):
            g, w = np.asarray(g, dtype=float), np.asarray(w, dtype=float)
            scale = max(float(np.max(np.abs(w))), float(np.max(np.abs(g)))) if w.size else 0.0
            ok = ok and g.shape == w.shape and bool(np.all(np.abs(g - w) <= 1e-9 * scale + 1e-14))
        if not ok:
            ck.violation(
                CL_OTHER,
                problem=what,
                sequence=sequence,
                got=[_lst(g) for g in got],
                fresh_object=[_lst(w) for w in want],
                input=_lst(x),
                **idx
            )
        return ok

    others = np.asarray(others, dtype=float)
    for x in xs:
        x = np.array(x, dtype=float)
        if _in_clamp_region(fresh_a, name, x) or _in_clamp_region(fresh_b, name, x):
            continue
        idx = dict(ident)
        idx["acquisition"] = name
        try:
            ref_a = _eval_pair(fresh_a, x)
            ref_b = _eval_pair(fresh_b, x)
            ref_b_others = np.asarray(fresh_b.compute_acq(others.copy()), dtype=float).reshape(-1)
            # -- sequence 1: B first (scoring of other candidates), then the default predictor
            seq = "new object; compute_acq(others, predictor=B); compute_acq_with_gradient(x); compute_acq(x)"
            acq = make_acq(pred_a)
            got = np.asarray(acq.compute_acq(others.copy(), predictor=arg_b), dtype=float).reshape(-1)
            same([got], [ref_b_others], "compute_acq(others, predictor=B) differs from a fresh object built on B", idx, x, seq)
            val, grad = acq.compute_acq_with_gradient(x.copy())
            grad = np.asarray(grad, dtype=float).reshape(-1)
            alone = float(np.asarray(acq.compute_acq(x.copy())).reshape(-1)[0])
            same([alone, float(val), grad], ref_a, "default predictor after an evaluation with predictor=B", idx, x, seq)
            ck.check_equal_values(CL_ACQ_VALUE, float(val), ref_a[0], input=_lst(x), sequence=seq, **idx)
            ck.compare(fd_clause, fbatch, x, grad, ref_a[0], dict(idx, sequence=seq), lower=np.full(x.shape, 0.0), upper=np.full(x.shape, 1.0))
            # -- sequence 2: A (fills the cache), B with gradient, A again
            seq = "new object; compute_acq(x); compute_acq_with_gradient(x, predictor=B); compute_acq_with_gradient(x); compute_acq(x)"
            acq = make_acq(pred_a)
            alone0 = float(np.asarray(acq.compute_acq(x.copy())).reshape(-1)[0])
            vb, gb = acq.compute_acq_with_gradient(x.copy(), predictor=arg_b)
            same([float(vb), np.asarray(gb, dtype=float).reshape(-1)], ref_b[1:], "compute_acq_with_gradient(x, predictor=B) differs from a fresh object built on B", idx, x, seq)
            val, grad = acq.compute_acq_with_gradient(x.copy())
            grad = np.asarray(grad, dtype=float).reshape(-1)
            alone = float(np.asarray(acq.compute_acq(x.copy())).reshape(-1)[0])
            same([alone0, alone, float(val), grad], (ref_a[0],) + tuple(ref_a), "default predictor before / after an evaluation with predictor=B", idx, x, seq)
            ck.check_equal_values(CL_ACQ_VALUE, float(val), alone0, input=_lst(x), sequence=seq, **idx)
            # -- sequence 3: interleaving, two rounds, ends with the default predictor given explicitly
            seq = "new object; 2 x [with_gradient(x, predictor=B); with_gradient(x); compute_acq(others, predictor=B); compute_acq(x)]; compute_acq(x, predictor=<default dict>)"
            acq = make_acq(pred_a)
            for _ in range(2):
                got_b = _eval_pair(acq, x, arg_b)
                same(got_b, ref_b, "evaluation with predictor=B differs from a fresh object built on B", idx, x, seq)
                val, grad = acq.compute_acq_with_gradient(x.copy())
                grad = np.asarray(grad, dtype=float).reshape(-1)
                acq.compute_acq(others.copy(), predictor=arg_b)
                alone = float(np.asarray(acq.compute_acq(x.copy())).reshape(-1)[0])
                same([alone, float(val), grad], ref_a, "default predictor interleaved with evaluations with predictor=B", idx, x, seq)
            alone = float(np.asarray(acq.compute_acq(x.copy(), predictor=acq.predictor)).reshape(-1)[0])
            same([alone], ref_a[:1], "compute_acq(x, predictor=<default dict>) after evaluations with predictor=B", idx, x, seq)
            ck.compare(fd_clause, fbatch, x, grad, ref_a[0], dict(idx, sequence=seq), lower=np.full(x.shape, 0.0), upper=np.full(x.shape, 1.0))
        except Exception as exc:
            ck.count[CL_OTHER] += 1
            ck.violation(CL_OTHER, problem="exception: %s: %s" % (type(exc).__name__, exc), input=_lst(x), **idx)


def _part_e(ck, tier, seed, info):
    from scipy.stats import norm
    from syne_tune.config_space import uniform
    from syne_tune.optimizer.schedulers.searchers.utils.hp_ranges_factory import make_hyperparameter_ranges
    from syne_tune.optimizer.schedulers.searchers.bayesopt.datatypes.common import (
        INTERNAL_METRIC_NAME,
        INTERNAL_CONSTRAINT_NAME,
    )
    from syne_tune.optimizer.schedulers.searchers.bayesopt.gpautograd.constants import OptimizationConfig
    from syne_tune.optimizer.schedulers.searchers.bayesopt.models.gp_model import GaussProcEmpiricalBayesEstimator
    from syne_tune.optimizer.schedulers.searchers.bayesopt.models.meanstd_acqfunc_impl import (
        EIAcquisitionFunction,
        EIpuAcquisitionFunction,
        CEIAcquisitionFunction,
    )
    from syne_tune.optimizer.schedulers.searchers.bayesopt.utils.test_objects import (
        default_gpmodel,
        create_tuning_job_state,
    )

    M, C, COST = INTERNAL_METRIC_NAME, INTERNAL_CONSTRAINT_NAME, "cost_metric"
    thorough = tier != "quick"
    rs = np.random.RandomState(6000 + seed)
    opt_config = OptimizationConfig(lbfgs_tol=1e-6, lbfgs_maxiter=100, verbose=False, n_starts=2)

    def makers(key2, **kw):
        return {
            "EI": lambda p: EIAcquisitionFunction(p[M]),
            "EIpu": lambda p: EIpuAcquisitionFunction({M: p[M], COST: p[COST]}, active_metric=M, **kw),
            "CEI": lambda p: CEIAcquisitionFunction({M: p[M], C: p[C]}, active_metric=M),
        }[key2]

    def incumbents_differ(pa, pb):
        ba, bb = pa[M].current_best(), pb[M].current_best()
        return len(ba) != len(bb) or any(
            np.shape(u) != np.shape(v) or not np.allclose(u, v, rtol=1e-6, atol=1e-9) for u, v in zip(ba, bb)
        )

    # ---- E1: fitted GP predictors; B = A plus one more (much better, feasible) observation, fitted separately
    n_gp = 0
    gp_settings = [(True, 3)] + ([(False, 1)] if thorough else [])
    d, n = 2, 6
    hp_ranges = make_hyperparameter_ranges({"x%d" % i: uniform(0.0, 1.0) for i in range(d)})
    X = rs.uniform(0.05, 0.95, size=(n, d))
    w = rs.normal(size=(d,))
    obj = 3.0 * np.sin(3.0 * X.dot(w)) + 2.0 * np.sum((X - 0.4) ** 2, axis=1) + 0.1 * rs.normal(size=n)
    cost = 1.0 + 2.0 * X[:, 0] + 0.5 * np.sum(X**2, axis=1) + 0.05 * rs.normal(size=n)
    craw = X.dot(np.abs(w) + 0.3)
    constr = 2.0 * (craw - np.median(craw)) - 0.05
    x_extra = rs.uniform(0.2, 0.8, size=d)
    pending = [tuple(float(v) for v in row) for row in rs.uniform(0.1, 0.9, size=(2, d))]
    data_a = (X, obj, cost, constr)
    data_b = (
        np.vstack([X, x_extra.reshape((1, -1))]),
        np.append(obj, float(np.min(obj)) - 3.0),
        np.append(cost, 1.5),
        np.append(constr, -0.5),
    )

    def build(metric, data, with_pending, nf):
        Xd, o_, c_, q_ = data
        state = create_tuning_job_state(
            hp_ranges=hp_ranges,
            cand_tuples=[tuple(float(v) for v in row) for row in Xd],
            metrics=[{M: float(o), COST: float(c), C: float(q)} for o, c, q in zip(o_, c_, q_)],
            pending_tuples=list(pending) if with_pending else None,
        )
        gpmodel = default_gpmodel(state, random_seed=seed, optimization_config=opt_config)
        est = GaussProcEmpiricalBayesEstimator(active_metric=metric, gpmodel=gpmodel, num_fantasy_samples=nf)
        return est.fit_from_state(state, update_params=True)

    for with_pending, nf in gp_settings:
        pa = {k: build(k, data_a, with_pending, nf) for k in (M, COST, C)}
        pb = {k: build(k, data_b, with_pending, nf) for k in (M, COST, C)}
        differ = incumbents_differ(pa, pb)
        assert differ, "GP predictors A and B have the same incumbent"
        tagf = "gp d=%d n=%d (B: one more, better observation) fantasies=%d pending=%d" % (d, n, nf, 2 if with_pending else 0)
        for name, kw in (("EI", {}), ("EIpu", {"exponent_cost": 0.6}), ("CEI", {})):
            mk = makers(name, **kw)
            key2 = {"EI": None, "EIpu": COST, "CEI": C}[name]
            # EI: the explicit predictor is passed as a Predictor object, otherwise as a dict (active metric first)
            arg_b = pb[M] if name == "EI" else {M: pb[M], key2: pb[key2]}
            xs = [rs.uniform(0.06, 0.94, size=d), np.clip(X[int(np.argmin(obj))] + rs.choice([-1.0, 1.0], size=d) * rs.uniform(0.02, 0.06, size=d), 0.03, 0.97)]
            others = rs.uniform(0.06, 0.94, size=(3, d))
            ck.case("other-predictor[%s]" % name, tagf)
            n_gp += 1
            _check_other_predictor(ck, name, mk, pa, pb, arg_b, differ, xs, others, {"component": "acquisition", "configuration": "explicit predictor argument, " + tagf}, _cl_acq(name))

    # ---- E2: stub predictors (MCMC lists, fantasy columns); B has its own candidates and shifted means
    Stub = _make_stub_class()
    n_stub = 0
    for d, S, nf in [(2, 2, 3), (3, 1, 1)] + ([(1, 3, 2)] if thorough else []):
        def stubs(shift):
            return {
                M: Stub(rs, d, S, nf, M, offsets=np.full(nf, shift)),
                COST: Stub(rs, d, 2, nf, COST, with_std=False, positive=True),
                C: Stub(rs, d, 2, nf, C, offsets=np.linspace(-0.6, 0.2, nf)),
            }

        pa, pb = stubs(0.0), stubs(-1.5)
        differ = incumbents_differ(pa, pb)
        assert differ
        tag = "stub d=%d mcmc-samples=%d fantasies=%d" % (d, S, nf)
        for name, kw in (("EI", {}), ("EIpu", {"exponent_cost": 0.7}), ("CEI", {})):
            mk = makers(name, **kw)
            key2 = {"EI": None, "EIpu": COST, "CEI": C}[name]
            # the explicit predictor dict lists the active metric SECOND for the two-output functions
            arg_b = pb[M] if name == "EI" else {key2: pb[key2], M: pb[M]}
            xs = [rs.uniform(0.1, 0.9, size=d) for _ in range(2)]
            others = rs.uniform(0.1, 0.9, size=(3, d))
            ck.case("other-predictor[%s]" % name, tag)
            n_stub += 1
            _check_other_predictor(ck, name, mk, pa, pb, arg_b, differ, xs, others, {"component": "stub-predictor", "configuration": "explicit predictor argument, " + tag}, CL_STUB)

    # ---- E3: constrained EI with MIXED feasibility over the fantasy columns, by construction: the (single-sample)
    # constraint model is infeasible at all candidates in some columns (incumbent NaN there: CEI = P(c <= 0)) and
    # feasible at some candidate in the others (CEI = EI w.r.t. the feasible best * P(c <= 0)); closed form from the
    # stub's analytic means / stds
    n_mixed = 0
    for d, S, nf in [(2, 2, 4), (3, 1, 2)] + ([(1, 3, 3)] if thorough else []):
        for attempt in range(50):
            act = Stub(rs, d, S, nf, M)
            n_inf = int(rs.randint(1, nf))  # 1 .. nf - 1 columns without a feasible candidate
            inf_cols = np.zeros(nf, dtype=bool)
            inf_cols[rs.choice(nf, size=n_inf, replace=False)] = True
            con = Stub(rs, d, 1, nf, C, offsets=np.where(inf_cols, 8.0, -3.0))
            con.cands = act.cands.copy()
            mc = con.predict_mean_current_candidates()[0]  # (5, nf)
            feas = mc < 0
            if np.array_equal(~np.any(feas, axis=0), inf_cols):
                break
        else:
            raise RuntimeError("C09 monitor: could not construct a mixed-feasibility constraint stub")
        bests = []
        for ma in act.predict_mean_current_candidates():
            bests.append(np.array([np.min(ma[feas[:, j], j]) if not inf_cols[j] else np.nan for j in range(nf)]))
        assert all(np.any(np.isnan(b)) and np.any(np.isfinite(b)) for b in bests)
        acq = CEIAcquisitionFunction({M: act, C: con}, active_metric=M)
        config = "stub d=%d mcmc-samples=%d fantasies=%d, columns without feasible candidate: %s" % (d, S, nf, np.flatnonzero(inf_cols).tolist())
        ck.case("cei-mixed-feasibility", config)
        xs = [rs.uniform(0.1, 0.9, size=d) for _ in range(4 if thorough else 3)]
        ident = {"component": "stub-predictor", "configuration": "CEI mixed feasibility, " + config}
        for x in xs:
            n_mixed += 1
            jitter = acq.jitter
            cmean = con._mean(0, x.reshape((1, -1))).reshape(-1)
            cstd = float(con._std(0, x.reshape((1, -1)))[0])
            pfeas = norm.cdf(-cmean / (cstd + 1e-12))
            want = 0.0
            for s in range(S):
                mean = act._mean(s, x.reshape((1, -1))).reshape(-1)
                std = float(act._std(s, x.reshape((1, -1)))[0])
                col = np.empty(nf)
                for j in range(nf):
                    if inf_cols[j]:
                        col[j] = pfeas[j]
                    else:
                        u = (bests[s][j] - mean[j] - jitter) / std
                        col[j] = std * (u * norm.cdf(u) + norm.pdf(u)) * pfeas[j]
                want += -float(np.mean(col)) / S
            try:
                alone, val, _ = _eval_pair(acq, np.array(x, dtype=float))
            except Exception as exc:
                ck.count[CL_CEI_MIXED] += 1
                ck.violation(CL_CEI_MIXED, problem="exception: %s: %s" % (type(exc).__name__, exc), input=_lst(x), **ident)
                continue
            for which, v in (("compute_acq", alone), ("compute_acq_with_gradient", val)):
                ck.count[CL_CEI_MIXED] += 1
                ck.informative[CL_CEI_MIXED] += 1
                if not (abs(v - want) <= 1e-9 * abs(want) + 1e-14):
                    ck.violation(
                        CL_CEI_MIXED,
                        problem="minus constrained EI differs from -mean_j [EI_j P(c_j<=0) if a feasible best exists in column j else P(c_j<=0)]",
                        entry=which,
                        value=v,
                        closed_form=want,
                        feasible_best_per_sample=[_lst(b) for b in bests],
                        input=_lst(x),
                        **ident
                    )
        # the usual value / gradient checks on the same object
        _check_acq(ck, "CEI", acq, xs, ident, clause=CL_STUB)
    info["E"] = (
        "E: explicit predictor= argument (3 call sequences per point, vs fresh objects on A resp. B): %d GP and %d stub "
        "scenarios for EI/EIpu/CEI; %d points of constrained EI with mixed feasibility over fantasy columns vs closed form"
        % (n_gp, n_stub, n_mixed)
    )


# ---------------------------------------------------------------------------------------------------------------
def monitor_gradients(tier="quick", seed=0):
    seed = int(seed)
    ck = _Checker()
    info = {}
    timing = {}
    sub_seeds = [seed] if tier == "quick" else [seed, seed + 101, seed + 202]
    with _quiet():
        for sub in sub_seeds:
            for key, part in (("A", _part_a), ("B", _part_b), ("C-gp", _part_c_gp), ("C-stub", _part_c_stub), ("D", _part_d), ("E", _part_e)):
                t0 = time.time()
                part(ck, tier, sub, info)
                timing[key] = round(timing.get(key, 0.0) + time.time() - t0, 1)
    ck.finish()
    evaluations = int(sum(ck.count.values()))
    summary = (
        "tier=%s seed=%d (%d catalogue(s), the bounds below are per catalogue); Richardson central differences h=%.0e*max(1,|x|), rtol=%.0e; %s; %s; %s; %s; %s; %s; "
        "decided comparisons per clause=%s; skipped (finite difference not self-consistent)=%s; "
        "worst deviation/tolerance=%.3g; seconds=%s"
        % (
            tier,
            seed,
            len(sub_seeds),
            H_REL,
            RTOL,
            info["A"],
            info["B"],
            info["C-gp"],
            info["C-stub"],
            info["D"],
            info["E"],
            {c: ck.count[c] for c in ALL_CLAUSES},
            {c: v for c, v in ck.skipped.items() if v},
            max(ck.worst.values()),
            timing,
        )
    )
    return {
        "evaluations": evaluations,
        "distinct": len(ck.cases),
        "clauses": list(ALL_CLAUSES),
        "violations": ck.violations,
        "samples": ck.samples[:4],
        "summary": summary,
    }
